"""C14: case generator and *direct oracle* (independent of the Lean model).

The oracle states what the property promises, computed with Python big integers / exact Fractions / Python floats
(IEEE binary64): two's-complement 64-bit results, truncating `/` and `%`, flooring `div` and `mod`, `mod` by zero =
dividend, errors on integer division by zero and on operands that do not fit, exact ordering of 64-bit integers against
each other and against doubles.  `expected(line)` returns the protocol result string, or None where the property makes
no claim (out-of-width shift counts, primitive ordering between different types, non-numeric strings in `compare`, NaN
in `cmp`, `bnot` of a number outside int32)."""
import math
import struct
from fractions import Fraction

M64 = 1 << 64
S63 = 1 << 63
T53 = 1 << 53

ARITH = ["+", "-", "*", "/", "div", "mod", "%", "band", "bor", "bxor", "blshift", "brshift", "brushift"]
COMPARATORS = ["<", "<=", ">", ">=", "=", "not="]
UNARY_CONST = {"+": 0, "-": 0, "*": 1, "/": 1, "div": 1, "mod": 1, "%": 1, "band": -1, "bor": 0, "bxor": 0,
               "blshift": 1, "brshift": 1, "brushift": 1}
SHIFTS = ("blshift", "brshift", "brushift")


class NoClaim(Exception):
    pass


def f2b(x):
    return struct.unpack("<Q", struct.pack("<d", x))[0]


def b2f(b):
    return struct.unpack("<d", struct.pack("<Q", b))[0]


def num(x):
    return "n:%016x" % f2b(float(x))


def show_num(x):
    if x != x:
        return "n:nan"
    return "n:%016x" % f2b(x)


def wrap_s(v):
    v %= M64
    return v - M64 if v >= S63 else v


def wrap_u(v):
    return v % M64


def parse_operand(tok):
    k, v = tok[0], tok[2:]
    if k == "n":
        return ("n", b2f(int(v, 16)))
    if k == "s":
        return ("s", int(v))
    if k == "u":
        return ("u", int(v))
    return ("t", v)


def scan_integer(text):
    """janet's integer literal syntax for int/s64 / int/u64 strings: [+-] (0x | NNr)? digits with '_' allowed after the
    first digit.  Returns (negative, magnitude) or None."""
    if len(text) > 150 or not text:
        return None
    neg = False
    s = text
    if s[0] == "-":
        neg, s = True, s[1:]
    elif s[0] == "+":
        s = s[1:]
    base = 10
    if len(s) >= 2 and s[0] == "0" and s[1] == "x":
        base, s = 16, s[2:]
    elif len(s) >= 2 and s[0] in "0123456789" and s[1] == "r":
        base, s = int(s[0]), s[2:]
        if base < 2:
            raise NoClaim()      # "0r0", "1r0": a one-digit radix below 2 is not rejected by janet's scanner; not a C14 matter
    elif len(s) >= 3 and s[0] in "0123456789" and s[1] in "0123456789" and s[2] == "r":
        base = int(s[:2])
        if base < 2 or base > 36:
            return None
        s = s[3:]
    seen = False
    acc = 0
    for ch in s:
        if ch == "_":
            if not seen:
                return None
            continue
        if ch in "0123456789":
            d = ord(ch) - 48
        elif "a" <= ch <= "z":
            d = ord(ch) - 87
        elif "A" <= ch <= "Z":
            d = ord(ch) - 55
        else:
            return None
        if d >= base:
            return None
        acc = acc * base + d
        if acc >= M64:
            return None
        seen = True
    if not seen:
        return None
    return neg, acc


class Err(Exception):
    pass


def to_int(kind, opd):
    """operand -> mathematical value of the 64-bit integer of `kind` it denotes, or Err"""
    t, v = opd
    cls = "cvts" if kind == "s" else "cvtu"
    if t == "n":
        if v != v or v in (math.inf, -math.inf) or v != math.floor(v) or abs(v) > T53 or (kind == "u" and v < 0):
            raise Err(cls)
        return int(v)
    if t == "t":
        r = scan_integer(v)
        if r is None:
            raise Err(cls)
        neg, mag = r
        if kind == "u":
            if neg:
                raise Err(cls)
            return mag
        val = -mag if neg else mag
        if val < -S63 or val >= S63:
            raise Err(cls)
        return val
    if t == kind:
        return v
    return wrap_s(v) if kind == "s" else wrap_u(v)    # the other boxed type: same 64 bits


def box(kind, v):
    return "%s:%d" % (kind, wrap_s(v) if kind == "s" else wrap_u(v))


def int_binop(op, kind, a, b):
    """a, b in range of kind.  Returns protocol string or None (no claim)."""
    if op == "+":
        return box(kind, a + b)
    if op == "-":
        return box(kind, a - b)
    if op == "*":
        return box(kind, a * b)
    if op in ("/", "%", "div"):
        if b == 0:
            raise Err("divzero")
        if kind == "s" and a == -S63 and b == -1:
            raise Err("minneg")
        q = abs(a) // abs(b)
        q = q if (a < 0) == (b < 0) else -q           # truncated quotient
        if op == "/":
            return box(kind, q)
        if op == "%":
            return box(kind, a - q * b)
        return box(kind, a // b)                      # floor
    if op == "mod":
        if b == 0:
            return box(kind, a)
        return box(kind, a % b)        # Python's % floors: sign of the divisor
    if op == "band":
        return box(kind, wrap_u(a) & wrap_u(b))
    if op == "bor":
        return box(kind, wrap_u(a) | wrap_u(b))
    if op == "bxor":
        return box(kind, wrap_u(a) ^ wrap_u(b))
    if op in SHIFTS:
        if not (0 <= b < 64):
            return None
        if op == "blshift":
            return box(kind, a << b)
        return box(kind, a >> b)       # a is the mathematical value: arithmetic for s64, logical for u64
    return None


def rne_exact(op, x, y):
    """IEEE-754 binary64 result of x op y for finite operands, computed WITHOUT floating-point arithmetic: the exact rational
    result, rounded once to nearest-even (int / int true division and Fraction.__float__ are correctly rounded in CPython).
    None when the rule for the sign of a zero result / division by zero applies (left to the hardware expression)."""
    if x != x or y != y or abs(x) == math.inf or abs(y) == math.inf:
        return None
    fx, fy = Fraction(x), Fraction(y)
    if op == "/":
        if fy == 0:
            return None
        r = fx / fy
    else:
        r = fx + fy if op == "+" else (fx - fy if op == "-" else fx * fy)
    if r == 0:
        return None
    try:
        return float(r)
    except OverflowError:
        return math.inf if r > 0 else -math.inf


def num_binop(op, x, y):
    if op in ("+", "-", "*", "/"):
        r = rne_exact(op, x, y)
        if r is not None:
            return show_num(r)
    if op == "+":
        return show_num(x + y)
    if op == "-":
        return show_num(x - y)
    if op == "*":
        return show_num(x * y)
    def fdiv(x, y):
        try:
            return x / y
        except ZeroDivisionError:
            if x != x or x == 0:
                return math.nan
            neg = (math.copysign(1, x) < 0) != (math.copysign(1, y) < 0)
            return -math.inf if neg else math.inf
    if op == "/":
        return show_num(fdiv(x, y))
    if op == "div":
        q = fdiv(x, y)
        if q == q and abs(q) != math.inf and q != 0:
            fl = math.floor(q)
            q = float(fl) if fl != 0 else (-0.0 if q < 0 else 0.0)
        return show_num(q)
    if op == "mod":
        if y == 0:
            return show_num(x)
        q = fdiv(x, y)
        if q == q and abs(q) != math.inf and q != 0:
            fl = math.floor(q)
            q = float(fl) if fl != 0 else (-0.0 if q < 0 else 0.0)
        return show_num(x - y * q)
    if op == "%":
        try:
            return show_num(math.fmod(x, y))
        except ValueError:
            return "n:nan"
    # 32-bit bitwise
    def in32(v, unsigned):
        if v != v or abs(v) == math.inf or v != math.floor(v):
            return None
        i = int(v)
        if unsigned:
            return i if 0 <= i < (1 << 32) else None
        return i if -(1 << 31) <= i < (1 << 31) else None
    unsigned = op == "brushift"
    a = in32(x, unsigned)
    if a is None:
        raise Err("range32u" if unsigned else "range32s")
    b = in32(y, False)
    if b is None:
        raise Err("rhs32")
    def w32(v):
        v %= 1 << 32
        if unsigned:
            return v
        return v - (1 << 32) if v >= (1 << 31) else v
    if op == "band":
        r = w32((a % (1 << 32)) & (b % (1 << 32)))
    elif op == "bor":
        r = w32((a % (1 << 32)) | (b % (1 << 32)))
    elif op == "bxor":
        r = w32((a % (1 << 32)) ^ (b % (1 << 32)))
    else:
        if not (0 <= b < 32):
            return None
        r = w32(a << b) if op == "blshift" else w32(a >> b)
    return show_num(float(r))


def exact(opd):
    """exact value of a number / boxed integer as Fraction, or 'nan' / +-inf floats"""
    t, v = opd
    if t == "n":
        if v != v:
            return "nan"
        if v in (math.inf, -math.inf):
            return v
        return Fraction(v)
    return Fraction(v)


def cmp3(a, b):
    return -1 if a < b else (1 if a > b else 0)


def binary(op, x, y):
    tx, ty = x[0], y[0]
    if op in ARITH:
        if tx == "n" and ty == "n":
            return num_binop(op, x[1], y[1])
        if tx in "su":
            kind = tx
        elif ty in "su" and op not in SHIFTS:
            kind = ty
        else:
            raise Err("nomethod")
        a = to_int(kind, x)
        b = to_int(kind, y)
        return int_binop(op, kind, a, b)
    if op == "compare":
        if tx == "t" or ty == "t":
            return None
        if tx == "n" and ty == "n":
            if x[1] != x[1] or y[1] != y[1]:
                return None
            return num(cmp3(x[1], y[1]))
        ex, ey = exact(x), exact(y)
        if ex == "nan" or ey == "nan":
            return num(0)
        return num(cmp3(ex, ey))
    if op in COMPARATORS or op == "cmp":
        if tx == "n" and ty == "n":
            a, b = x[1], y[1]
            if op == "cmp":
                if a != a or b != b:
                    return None
                return num(cmp3(a, b))
            r = {"<": a < b, "<=": a <= b, ">": a > b, ">=": a >= b, "=": a == b, "not=": a != b}[op]
            return "b:%d" % r
        if tx == ty and tx in "su":
            a, b = x[1], y[1]
            if op == "cmp":
                return num(cmp3(a, b))
            r = {"<": a < b, "<=": a <= b, ">": a > b, ">=": a >= b, "=": a == b, "not=": a != b}[op]
            return "b:%d" % r
        if tx != ty and op in ("=", "not="):
            return "b:%d" % (op == "not=")
        return None
    return None


def reparse(res):
    """result string of a fold step -> operand tuple for the next step (None if it cannot continue)"""
    if res is None or res.startswith("err:"):
        return None
    if res == "n:nan":
        return ("n", math.nan)
    return parse_operand(res)


def variadic(op, args):
    """(op a b c ...) = left fold of the binary operator; comparators: every adjacent pair"""
    if op in ARITH:
        acc = args[0]
        for z in args[1:]:
            r = binary(op, acc, z)
            if r is None:
                return None
            acc = reparse(r)
            if acc is None:
                return r
        return r
    if op in COMPARATORS:
        for a, b in zip(args, args[1:]):
            r = binary("=" if op == "not=" else op, a, b)
            if r is None:
                return None
            if r == "b:0":
                return "b:%d" % (op == "not=")
        return "b:%d" % (op != "not=")
    return None


METHOD_OPS = {"+": "+", "-": "-", "*": "*", "/": "/", "%": "%", "mod": "mod", "div": "div", "&": "band", "|": "bor", "^": "bxor", "<<": "blshift", ">>": "brshift"}
VARIADIC_METHODS = {"+", "-", "*", "/", "%", "&", "|", "^", "<<", ">>", "r+", "r*", "r&", "r|", "r^"}


def method_call(name, args):
    """(:name a0 a1 ...): the method of the boxed integer a0, applied to all arguments in a0's type.
    Looping methods take any number >= 2 of arguments; the reversed non-commutative ones, s64 `div`/`mod` and `compare` exactly 2."""
    if args[0][0] not in "su":
        raise Err("nomethod")
    kind = args[0][0]
    base = name[1:] if name.startswith("r") and name[1:] in METHOD_OPS else name
    if base not in METHOD_OPS:
        return None
    if base in ("<<", ">>") and name.startswith("r"):
        raise Err("nomethod")
    if len(args) < 2:
        raise Err("arity")
    variadic_ok = name in VARIADIC_METHODS or (kind == "u" and name in ("div", "mod"))
    if len(args) > 2 and not variadic_ok:
        raise Err("arity")
    op = METHOD_OPS[base]
    vals = [None] * len(args)
    if name.startswith("r") and len(args) == 2 and name not in VARIADIC_METHODS:
        # reversed: box = argv[1] first, then argv[0]
        b = to_int(kind, args[1])
        a = to_int(kind, args[0])
        return int_binop(op, kind, b, a)
    acc = to_int(kind, args[0])
    res = None
    for z in args[1:]:
        b = to_int(kind, z)
        res = int_binop(op, kind, acc, b)
        if res is None:
            return None
        acc = int(res[2:])     # x mod 0 = x, and the fold goes on (the property: the n-ary method is the left fold of the binary one)
    return res


POLY_CHAINS = {"compare<": lambda v: v < 0, "compare<=": lambda v: v <= 0, "compare=": lambda v: v == 0, "compare>": lambda v: v > 0, "compare>=": lambda v: v >= 0}


def expected(line):
    """protocol line -> expected result string, or None (no claim)"""
    tok = line.split()
    try:
        if tok[0] == "cmpsd" or tok[0] == "cmpud":
            x = int(tok[1])
            y = b2f(int(tok[2], 16))
            if y != y:
                return "i:0"
            if y in (math.inf, -math.inf):
                return "i:%d" % (-1 if y > 0 else 1)
            return "i:%d" % cmp3(Fraction(x), Fraction(y))
        if tok[0] == "imm":
            return binary(tok[1], parse_operand(tok[2]), ("n", float(int(tok[3]))))
        op = tok[0]
        args = [parse_operand(t) for t in tok[1:]]
        if op in ("int/s64", "int/u64"):
            kind = op[4]
            return box(kind, to_int(kind, args[0]))
        if op == "int/to-number":
            t, v = args[0]
            if t not in "su":
                raise Err("tonumtype")
            if abs(v) > T53:
                raise Err("tonum")
            return num(v)
        if op in ("int/to-bytes-le", "int/to-bytes-be"):
            t, v = args[0]
            if t not in "su":
                raise Err("tobytestype")
            bs = (v % M64).to_bytes(8, "little" if op.endswith("le") else "big")
            return "x:" + bs.hex()
        if op == "bnot":
            t, v = args[0]
            if t in "su":
                return box(t, ~v)
            if t == "n":
                if v == v and abs(v) != math.inf and v == math.floor(v) and -(1 << 31) <= v < (1 << 31):
                    return num(~int(v))
                return None
            raise Err("nomethod")
        if op.startswith("m:"):
            return method_call(op[2:], args)
        if op in MATH_FNS:
            return math_fn(op, args)
        if op in POLY_PREDS:
            return poly_pred(op, args)
        if op in POLY_CHAINS:
            # (compare< a b c ...): every adjacent pair in order of *mathematical value* (exact rationals, +-inf), left to right,
            # first failure decides
            for a, b in zip(args, args[1:]):
                r = binary("compare", a, b)
                if r is None:
                    return None
                v = b2f(int(r[2:], 16))
                if not POLY_CHAINS[op](v):
                    return "b:0"
            return "b:1"
        if len(args) > 2:
            return variadic(op, args)
        if len(args) == 1:
            if op in UNARY_CONST:
                return binary(op, ("n", float(UNARY_CONST[op])), args[0])
            if op in COMPARATORS:
                return "b:%d" % (op != "not=")
            return None
        return binary(op, args[0], args[1])
    except Err as e:
        return "err:" + str(e)
    except NoClaim:
        return None


# ------------------------------------------------------------------------------------------------- math.c
# math/floor ceil trunc round abs, math/gcd, math/lcm on plain numbers: exact rationals (Fraction), no libm.

MATH_FNS = {"math/floor": 1, "math/ceil": 1, "math/trunc": 1, "math/round": 1, "math/abs": 1, "math/gcd": 2, "math/lcm": 2}


def _exact_float(fr, sign_of):
    """a Fraction known to be a binary64 value -> float; a zero takes the sign of `sign_of`"""
    if fr == 0:
        return math.copysign(0.0, sign_of)
    f = float(fr)
    assert Fraction(f) == fr, "oracle: result is not a double"
    return f


def gcd_exact(x, y):
    """janet_gcd on finite doubles with exact rational arithmetic: fmod(x, y) = x - y * trunc(x / y), sign of x (zero results included)"""
    fx, fy = Fraction(x), Fraction(y)
    sx, sy = math.copysign(1.0, x), math.copysign(1.0, y)
    n = 0
    while fy != 0:
        q = abs(fx) // abs(fy)
        r = abs(fx) - q * abs(fy)
        r = -r if sx < 0 else r
        fx, fy, sx, sy = fy, r, sy, sx
        n += 1
        if n > 5000:
            raise NoClaim()
    return _exact_float(fx, sx)


def math_fn(op, args):
    if len(args) != MATH_FNS[op]:
        raise Err("arity")
    if any(t != "n" for t, _ in args):
        raise Err("badslot")
    x = args[0][1]
    if MATH_FNS[op] == 1:
        if x != x:
            return "n:nan"
        if op == "math/abs":
            return show_num(math.copysign(x, 1.0)) if abs(x) != math.inf else show_num(math.inf)
        if abs(x) == math.inf:
            return show_num(x)
        fx = Fraction(x)
        fl = fx.numerator // fx.denominator                 # floor (Python // on ints)
        if op == "math/floor":
            r = fl
        elif op == "math/ceil":
            r = -((-fx.numerator) // fx.denominator)
        elif op == "math/trunc":
            r = fl if fx >= 0 else -((-fx.numerator) // fx.denominator)
        else:                                               # round: half away from zero
            a = abs(fx)
            m = (2 * a.numerator + a.denominator) // (2 * a.denominator)
            r = m if fx >= 0 else -m
        return show_num(_exact_float(Fraction(r), x))
    y = args[1][1]
    if x != x or y != y:
        return "n:nan"
    if abs(x) == math.inf or abs(y) == math.inf:
        if op == "math/gcd":
            return show_num(math.inf)
        return None                                          # lcm with an infinite operand: (x / inf) * y, left to the hardware
    g = gcd_exact(x, y)
    if op == "math/gcd":
        return show_num(g)
    # lcm = (x / g) * y: two correctly rounded operations (exact rationals rounded once each)
    if g == 0:
        return "n:nan"                                       # 0 / 0
    q = rne_exact("/", x, g)
    if q is None:                                            # x = 0: a signed zero quotient
        q = math.copysign(0.0, x) * math.copysign(1.0, g)
    r = rne_exact("*", q, y)
    if r is None:
        r = q * y
    return show_num(r)


def math_lines(rng, n, nums):
    """unary: halves, neighbours of integers, 2^52 region, pool values; gcd/lcm: small and large integers, consecutive Fibonacci numbers
    (longest Euclid runs), huge integer-valued doubles, dyadic fractions, subnormals, zeros, NaN / infinities, a few non-numbers"""
    lines = []
    fib = [1, 1]
    while fib[-1] < (1 << 1000):
        fib.append(fib[-1] + fib[-2])
    def unary_operand():
        k = rng.below(8)
        if k == 0:
            return rng.choice(nums)
        if k == 1:
            v = rng.range(-40, 40) + 0.5
            return f2b(v)
        if k == 2:
            v = rng.range(-(1 << 20), 1 << 20) + rng.choice([0.5, 0.25, 0.75, 0.0])
            return f2b(math.nextafter(v, rng.choice([math.inf, -math.inf])) if rng.chance(1, 2) else v)
        if k == 3:
            v = float(rng.range((1 << 51) - 8, (1 << 53) + 8)) + rng.choice([0.0, 0.5, 0.25])
            return f2b(v if rng.chance(1, 2) else -v)
        if k == 4:
            return f2b(rng.choice([0.49999999999999994, -0.49999999999999994, 0.5, -0.5, 0.0, -0.0, 1.5, 2.5, -2.5, 4503599627370495.5, -4503599627370495.5,
                                   4503599627370496.5, 9007199254740991.0, 5e-324, -5e-324, 1e300, -1e300, math.inf, -math.inf, math.nan, 0.9999999999999999, -0.9999999999999999]))
        if k == 5:
            return f2b(rng.range(-(1 << 30), 1 << 30) / float(1 << rng.range(0, 40)))
        r = rng.next()
        if (r >> 52) & 0x7ff == 0x7ff and r & ((1 << 52) - 1):
            r = (r & (1 << 63)) | 0x7ff8000000000000
        return r
    for i in range(n):
        lines.append("%s n:%016x" % (["math/floor", "math/ceil", "math/trunc", "math/round", "math/abs"][i % 5], unary_operand()))
    def gcd_operand():
        k = rng.below(10)
        if k == 0:
            return float(rng.range(-100, 100))
        if k == 1:
            return float(rng.range(-T53, T53))
        if k == 2:
            v = float(fib[rng.range(1, 77)])                  # exactly representable Fibonacci numbers (< 2^53)
            return v if rng.chance(3, 4) else -v
        if k == 3:
            return float(rng.range(1, 1 << 20) * (1 << rng.range(0, 900)))     # huge integer-valued doubles
        if k == 4:
            return rng.range(-(1 << 30), 1 << 30) / float(1 << rng.range(0, 40))
        if k == 5:
            return b2f(rng.below(1 << 52) | ((rng.below(2)) << 63))              # subnormal
        if k == 6:
            return rng.choice([0.0, -0.0, 1.0, -1.0, math.inf, -math.inf, math.nan, 9007199254740992.0, -9007199254740992.0, 1e308, 5e-324, 0.1, 0.5])
        if k == 7:
            return float(rng.range(1, 1000) * rng.range(1, 1 << 40))
        if k == 8:
            return float(rng.choice([2, 3, 6, 12, 60, 360, 5040, 720720, 1 << 52, 6 << 50, 3 ** 33]))
        return float(rng.range(-(1 << 32), 1 << 32))
    for i in range(n):
        a, b = gcd_operand(), gcd_operand()
        if rng.chance(1, 8):
            j = rng.range(2, 76)
            a, b = float(fib[j + 1]), float(fib[j])
        if rng.chance(1, 8) and abs(b) < (1 << 26) and b == b:
            a = b * rng.range(-(1 << 20), 1 << 20)
        lines.append("%s n:%016x n:%016x" % ("math/gcd" if i % 3 else "math/lcm", f2b(a), f2b(b)))
    lines += ["math/gcd s:4 n:4018000000000000", "math/gcd n:4018000000000000 t:4", "math/lcm u:4 u:6", "math/floor s:3", "math/abs s:-3", "math/round t:1",
              "math/gcd n:4018000000000000", "math/floor n:4018000000000000 n:4018000000000000"]
    return lines


# ------------------------------------------------------------------------------------------------- boot.janet predicates
POLY_PREDS = {"zero?": lambda v: v == 0, "pos?": lambda v: v > 0, "neg?": lambda v: v < 0, "one?": lambda v: v == 1, "even?": 0, "odd?": 1}


def poly_pred(op, args):
    """zero? pos? neg? one? on any numeric value (by mathematical value); even? odd? on boxed integers and integer-valued numbers of
    magnitude <= 2^53 (a non-integer number goes through the IEEE formula of `mod`: no claim)"""
    if len(args) != 1:
        raise Err("arity")
    t, v = args[0]
    if t == "t":
        return None
    if t == "n":
        if v != v:
            return None
        if op in ("even?", "odd?"):
            if abs(v) == math.inf or v != math.floor(v) or abs(v) > T53:
                return None
            return "b:%d" % (int(v) % 2 == POLY_PREDS[op])
        return "b:%d" % POLY_PREDS[op](v)
    if op in ("even?", "odd?"):
        return "b:%d" % (v % 2 == POLY_PREDS[op])
    return "b:%d" % POLY_PREDS[op](v)


def pred_lines(rng, n, P):
    lines = []
    names = list(POLY_PREDS)
    near = [0, 1, -1, 2, -2, 3, T53, -T53, T53 - 1, 1 - T53, T53 + 1, S63 - 1, -S63, S63, M64 - 1, M64 - 2, 1 << 32, (1 << 32) + 1]
    for i in range(n):
        op = names[i % len(names)]
        k = rng.below(6)
        if k == 0:
            v = rng.choice(near)
            t = rng.choice("nsu")
            if t == "s" and not (-S63 <= v < S63):
                t = "n"
            if t == "u" and not (0 <= v < M64):
                t = "n"
            tok = "n:%016x" % f2b(float(v)) if t == "n" else "%s:%d" % (t, v)
        elif k == 1:
            tok = P.fmt("s", rng.choice(P.s))
        elif k == 2:
            tok = P.fmt("u", rng.choice(P.u))
        elif k == 3:
            tok = "n:%016x" % f2b(float(rng.range(-T53, T53)))
        elif k == 4:
            tok = P.fmt("n", rng.choice(P.n))
        else:
            tok = rng.choice(["n:%016x" % f2b(x) for x in (0.0, -0.0, 0.5, -0.5, 1.0000000000000002, 0.9999999999999999, -0.9999999999999999, 2.5, 1e300, -1e300, 5e-324,
                                                            -5e-324, math.inf, -math.inf, math.nan)] + ["t:0", "t:abc", "s:0", "u:0", "u:1", "s:-1"])
        lines.append("%s %s" % (op, tok))
    lines += ["zero? s:0 s:0", "even? n:4000000000000000 n:4000000000000000"]
    return lines


# ------------------------------------------------------------------------------------------------- integer family
# Theorem-level oracle for `num_ops_exact_on_integers` / `number_ops_agree_with_s64_ops` (Props/C14.lean): for integers x, y of
# magnitude <= 2^53 every type mix (number, int/s64, int/u64 on either side) of + - * div mod % must yield the same *integer*,
# computed here with Python ints only (no float arithmetic, unlike `num_binop`).

INT_FAMILY_OPS = ["+", "-", "*", "div", "mod", "%"]
INT_FAMILY_MIXES = [("n", "n"), ("s", "s"), ("n", "s"), ("s", "n"), ("u", "u"), ("u", "n"), ("n", "u")]


def int_family_spec(op, x, y, has_u=False):
    """the integer all type mixes must agree on, or None where the theorems make no claim"""
    if op in ("+", "-", "*"):
        r = x + y if op == "+" else (x - y if op == "-" else x * y)
        if abs(r) > T53 or (has_u and r < 0):
            return None
        return r
    if y == 0:
        return None
    if op == "div":
        return x // y                                   # Python // is floor division
    if op == "mod":
        if abs(y * (x // y)) > T53:                     # side condition of num_mod_int (the number path rounds the product)
            return None
        return x % y                                    # sign of the divisor
    r = abs(x) % abs(y)                                 # C remainder: sign of the dividend
    return -r if x < 0 else r


def int_family_value(res):
    """integer value of a result string n:<bits> / s:<int> / u:<int>, None if not an integer"""
    if res is None or len(res) < 3 or res[1] != ":":
        return None
    if res[0] in "su":
        try:
            return int(res[2:])
        except ValueError:
            return None
    if res[0] == "n":
        try:
            d = b2f(int(res[2:], 16))
        except ValueError:
            return None
        if d != d or abs(d) == math.inf or d != math.floor(d):
            return None
        return int(d)
    return None


def int_family_lines(rng, n):
    """(line, op, x, y, has_u) for n integer pairs x all mixes; operands chosen to put quotients next to integers and products next to 2^53"""
    special = [0, 1, -1, 2, -2, 3, -3, 7, -7, 10, -10, T53, -T53, T53 - 1, -(T53 - 1), T53 - 2, 1 << 52, (1 << 52) + 1, -(1 << 52) - 1, 1 << 26, (1 << 27) - 1,
               94906265, 94906266, -94906267, 6004799503160661, -6004799503160661, 3002399751580331]
    def pick():
        k = rng.below(8)
        if k == 0:
            return rng.choice(special)
        if k == 1:
            return rng.range(-1000, 1000)
        if k == 2:
            return rng.range(-T53, T53)
        if k == 3:
            v = T53 - rng.below(1 << rng.range(1, 20))
            return v if rng.chance(1, 2) else -v
        if k == 4:
            v = rng.below(1 << rng.range(1, 53))
            return v if rng.chance(1, 2) else -v
        if k == 5:
            v = (1 << rng.range(0, 53)) + rng.range(-2, 2)
            return max(-T53, min(T53, v if rng.chance(1, 2) else -v))
        if k == 6:
            return rng.range(-(1 << 27), 1 << 27)
        return rng.range(-(1 << 32), 1 << 32)
    out = []
    for i in range(n):
        x, y = pick(), pick()
        if y != 0 and rng.chance(1, 4):
            lim = T53 // abs(y)
            q = rng.range(-lim, lim)
            x = max(-T53, min(T53, q * y + rng.choice([0, 1, -1, abs(y) - 1, 1 - abs(y)])))
        op = INT_FAMILY_OPS[i % len(INT_FAMILY_OPS)]
        for ta, tb in INT_FAMILY_MIXES:
            if (ta == "u" and x < 0) or (tb == "u" and y < 0):
                continue
            fa = "n:%016x" % f2b(float(x)) if ta == "n" else "%s:%d" % (ta, x)
            fb = "n:%016x" % f2b(float(y)) if tb == "n" else "%s:%d" % (tb, y)
            out.append(("%s %s %s" % (op, fa, fb), op, x, y, "u" in (ta, tb)))
    return out


# ------------------------------------------------------------------------------------------------- generator

def boundary_ints():
    xs = set()
    for b in (0, 1, 2, 3, 7, 10, 31, 32, 63, 64, 65, 100, 255, 1 << 15, 1 << 16, 1 << 31, 1 << 32, 1 << 52, 1 << 53, 1 << 62, 1 << 63, 1 << 64):
        for d in (-2, -1, 0, 1, 2):
            xs.add(b + d)
            xs.add(-(b + d))
    xs.update([3037000499, 3037000500, 4294967297, 6442450941, 0x5555555555555555, 0xAAAAAAAAAAAAAAAA, 0x00000000FFFFFFFF, 0xFFFFFFFF00000000,
               0x7FFFFFFF00000000, 0x8000000080000000])
    return sorted(xs)


def core_ints():
    return [0, 1, -1, 2, -2, 3, 7, -7, 63, 64, (1 << 31) - 1, 1 << 31, -(1 << 31), (1 << 32) - 1, 1 << 32, (1 << 53) - 1, 1 << 53, (1 << 53) + 1,
            -(1 << 53), (1 << 63) - 1, 1 << 63, -(1 << 63), -(1 << 63) + 1, (1 << 64) - 1, 1 << 64, (1 << 63) + 1]


class Pools:
    def __init__(self, rng, n_random):
        self.rng = rng
        bi = boundary_ints()
        rnd64 = [rng.next() for _ in range(n_random)]
        rnd_small = [rng.range(-1000, 1000) for _ in range(n_random // 2)]
        rnd_mid = []
        for _ in range(n_random):
            w = rng.range(1, 64)
            v = rng.below(1 << w)
            rnd_mid.append(v if rng.chance(1, 2) else -v)
        allints = bi + rnd64 + [wrap_s(v) for v in rnd64] + rnd_small + rnd_mid
        self.s = sorted(set(v for v in allints if -S63 <= v < S63))
        self.u = sorted(set(v for v in allints if 0 <= v < M64))
        self.s_core = [v for v in core_ints() if -S63 <= v < S63]
        self.u_core = [v for v in core_ints() if 0 <= v < M64]
        # numbers, as bit patterns
        nb = set()
        for v in bi:
            nb.add(f2b(float(v)))
        for v in (0.5, -0.5, 1.5, -1.5, 2.5, 0.1, -0.1, 1e10, -1e10, 1e19, 1.8446744073709552e19, 9.223372036854775e18, 9.223372036854777e18,
                  -9.223372036854777e18, 1e308, -1e308, 5e-324, 2.2250738585072014e-308, math.inf, -math.inf, -0.0, 4294967295.5, 2147483647.5,
                  -2147483648.5, 9007199254740993.0, 9007199254740994.0, 1.8446744073709556e19, 1.844674407370955e19):
            nb.add(f2b(v))
        nb.add(0x7ff8000000000000)          # NaN
        nb.add(0xfff8000000000000)
        for b in list(nb):
            d = b2f(b)
            if d == d and abs(d) != math.inf:
                nb.add(f2b(math.nextafter(d, math.inf)))
                nb.add(f2b(math.nextafter(d, -math.inf)))
        for _ in range(n_random):
            r = rng.next()                                      # random bit patterns (NaNs canonicalised: NaN boxing)
            if (r >> 52) & 0x7ff == 0x7ff and r & ((1 << 52) - 1):
                r = (r & (1 << 63)) | 0x7ff8000000000000
            nb.add(r)
            v = rng.range(-T53, T53)
            nb.add(f2b(float(v)))                               # random exactly representable integers
            nb.add(f2b(float(rng.range(-(1 << 31), (1 << 32)))))
            nb.add(f2b(float(rng.range(-70, 70))))
            nb.add(f2b(rng.range(-1 << 20, 1 << 20) / 16.0))
        self.n = sorted(nb)
        self.n_core = sorted(set(f2b(float(v)) for v in core_ints()) | {f2b(0.5), f2b(-0.0), f2b(math.inf), f2b(-math.inf), 0x7ff8000000000000,
                                                                        f2b(-1.5), f2b(math.nextafter(2.0 ** 63, 0)), f2b(math.nextafter(2.0 ** 64, 0)),
                                                                        f2b(math.nextafter(2.0 ** 63, math.inf)), f2b(math.nextafter(-2.0 ** 63, -math.inf)),
                                                                        f2b(2.0 ** 53 + 2)})
        # strings
        ts = set()
        for v in bi:
            ts.add(str(v))
        for v in core_ints():
            ts.add(hex(v).replace("-0x", "-0x"))
            ts.add("+" + str(abs(v)))
        ts.update(["-0", "+0", "00", "0_0", "_1", "1_", "1_000_000", "", "abc", "-", "+", "0x", "0x_1", "2r101", "2r102", "36rzz", "36rZZ", "1r0", "0r0", "0r",
                   "37r1", "16rFF", "16rff", "1.5", "1e3", "5:s", "0x8000000000000000", "-0x8000000000000000", "-0x8000000000000001", "0xFFFFFFFFFFFFFFFF",
                   "0x10000000000000000", "2r" + "1" * 63, "2r" + "1" * 64, "2r" + "1" * 65, "-2r1" + "0" * 63, "0" * 150 + "7", "0" * 149 + "7", "9" * 30, "--1", "1-",
                   "0X10", "1r1", "10r99", "99r1", "07", "-07", "1__2", "z", "9223372036854775807_", "18446744073709551615", "18446744073709551616", "18446744073709551625"])
        for _ in range(n_random // 4):
            v = rng.next()
            ts.add(str(v))
            ts.add("-" + str(v >> 1))
            ts.add(hex(v))
            ts.add("%dr%s" % (rng.range(2, 36), str(rng.below(1 << 40))))
        ts = [t for t in ts if " " not in t]
        self.t = sorted(ts)
        self.t_core = ["0", "1", "-1", "7", "-7", "9223372036854775807", "9223372036854775808", "-9223372036854775808", "-9223372036854775809", "18446744073709551615",
                       "18446744073709551616", "0x10", "abc", "", "-0", "1_0", "2r11", "64", "63"]

    def pool(self, t, core=False):
        return getattr(self, t + ("_core" if core else ""))

    def fmt(self, t, v):
        if t == "n":
            return "n:%016x" % v
        if t == "s":
            return "s:%d" % v
        if t == "u":
            return "u:%d" % v
        return "t:" + v


def gen_lines(rng, per_combo, n_random, n_ieee=100000):
    """boundary-dense operand pairs x all operators x both orders x type mixes"""
    P = Pools(rng, n_random)
    lines = []
    types = "nsut"
    ops2 = ARITH + COMPARATORS + ["compare", "cmp"]
    for op in ops2:
        for ta in types:
            for tb in types:
                ca, cb = P.pool(ta, True), P.pool(tb, True)
                pa, pb = P.pool(ta), P.pool(tb)
                seen = set()
                # core cross product (sub-sampled when large), then random pairs from the full pools
                pairs = [(a, b) for a in ca for b in cb]
                if len(pairs) > per_combo // 2:
                    rng.shuffle(pairs)
                    pairs = pairs[:per_combo // 2]
                while len(pairs) < per_combo:
                    a = rng.choice(pa)
                    if op in SHIFTS and rng.chance(2, 3):
                        # shift counts inside the width are the interesting ones
                        c = rng.range(0, 66)
                        b = {"n": f2b(float(c)), "s": c, "u": c, "t": str(c)}[tb]
                    elif op in ("/", "div", "mod", "%") and rng.chance(1, 3):
                        c = rng.choice([1, -1, 2, -2, 3, -3, 7, -7, 10, 0, 1000, -1000])
                        if tb == "u":
                            c = abs(c)
                        b = {"n": f2b(float(c)), "s": c, "u": c, "t": str(c)}[tb]
                    else:
                        b = rng.choice(pb)
                    pairs.append((a, b))
                for a, b in pairs:
                    l = "%s %s %s" % (op, P.fmt(ta, a), P.fmt(tb, b))
                    if l not in seen:
                        seen.add(l)
                        lines.append(l)
    # unary forms, constructors, conversions
    for op in ARITH + COMPARATORS + ["bnot", "int/s64", "int/u64", "int/to-number", "int/to-bytes-le", "int/to-bytes-be"]:
        for ta in types:
            pa = P.pool(ta)
            k = min(len(pa), max(60, per_combo // 2))
            idx = list(range(len(pa)))
            rng.shuffle(idx)
            for i in sorted(idx[:k]):
                lines.append("%s %s" % (op, P.fmt(ta, pa[i])))
    # immediates (compiled code path, janet_mcall)
    for op in ARITH + ["<", ">", "=", "not="]:
        for ta in types:
            pa = P.pool(ta)
            for _ in range(max(20, per_combo // 10)):
                k = rng.choice([0, 1, -1, 2, 7, -7, 63, 64, 100, 127, -128, 31, 32])
                lines.append("imm %s %s %d" % (op, P.fmt(ta, rng.choice(pa)), k))
    # variadic forms (left fold through the VM operator chain) and method calls with 2..4 arguments
    def rnd_operand(t):
        pool = P.pool(t, core=rng.chance(1, 2))
        return P.fmt(t, rng.choice(pool))
    small = {"n": [f2b(float(v)) for v in (0, 1, -1, 2, 3, 7, -7, 63)], "s": [0, 1, -1, 2, 3, 7, -7, 63], "u": [0, 1, 2, 3, 7, 63], "t": ["0", "1", "-1", "2", "3", "7"]}
    for op in ARITH + COMPARATORS:
        for _ in range(max(40, per_combo // 3)):
            n = rng.range(3, 4)
            ts = [rng.choice("nsut" if rng.chance(1, 4) else "nsu") for _ in range(n)]
            toks = []
            for i, t in enumerate(ts):
                if i > 0 and (op in SHIFTS or op in ("/", "div", "mod", "%")) and rng.chance(2, 3):
                    toks.append(P.fmt(t, rng.choice(small[t])))
                else:
                    toks.append(rnd_operand(t))
            lines.append("%s %s" % (op, " ".join(toks)))
    # polymorphic chains: 2..5 operands, numbers / s64 / u64 mixed, values close to each other (sorted runs with perturbations)
    for op in POLY_CHAINS:
        for _ in range(max(150, per_combo)):
            n = rng.range(2, 5)
            base = rng.choice(core_ints() + [0, 1, 5, 1 << 53, (1 << 63) - 2, -(1 << 63) + 1, (1 << 64) - 3])
            vals = []
            v = base
            for i in range(n):
                vals.append(v)
                step = rng.choice([0, 0, 1, 1, 1, -1, 2, 1 << 10, 1 << 53])
                v = v + (step if op in ("compare<", "compare<=", "compare=") else -step)
            toks = []
            for v in vals:
                t = rng.choice("nsu" if rng.chance(9, 10) else "t")
                if t == "s" and not (-S63 <= v < S63):
                    t = "u" if 0 <= v < M64 else "n"
                if t == "u" and not (0 <= v < M64):
                    t = "s" if -S63 <= v < S63 else "n"
                if t == "n":
                    f = float(v)
                    if rng.chance(1, 6):
                        f = math.nextafter(f, math.inf if rng.chance(1, 2) else -math.inf)
                    if rng.chance(1, 40):
                        f = rng.choice([math.inf, -math.inf, math.nan, -0.0, 0.5])
                    toks.append("n:%016x" % f2b(f))
                elif t == "t":
                    toks.append("t:%d" % v)
                else:
                    toks.append("%s:%d" % (t, v))
            lines.append("%s %s" % (op, " ".join(toks)))
    for name in ["+", "-", "*", "/", "%", "mod", "div", "&", "|", "^", "<<", ">>", "r+", "r-", "r*", "r/", "r%", "rmod", "rdiv", "r&", "r|", "r^", "r<<"]:
        for _ in range(max(30, per_combo // 6)):
            n = rng.range(1, 4)
            ts = [rng.choice("su" if rng.chance(9, 10) else "nt")] + [rng.choice("nsut" if rng.chance(1, 4) else "nsu") for _ in range(n - 1)]
            toks = []
            for i, t in enumerate(ts):
                if i > 0 and rng.chance(1, 2):
                    toks.append(P.fmt(t, rng.choice(small[t])))
                else:
                    toks.append(rnd_operand(t))
            lines.append("m:%s %s" % (name, " ".join(toks)))
    # plain numbers: IEEE-754 arithmetic on operand classes that exercise every rounding case (model = RNE of the exact rational result)
    E = 1 << 52
    def ieee_operand():
        r = rng.next()
        sgn = (r >> 63) << 63
        k = rng.below(10)
        if k == 0:
            return rng.choice(P.n_core)
        if k == 1:
            return sgn | (r % E)                                              # subnormal
        if k == 2:
            return sgn | ((0x3ff << 52) - E + (r % (2 * E)))                    # around 1 (cancellation against its neighbours)
        if k == 3:
            return f2b(float(rng.range(-(1 << 54), 1 << 54)))                 # integers up to 2^54
        if k == 4:
            return sgn | ((2046 - (r >> 52) % 8) << 52) | (r % E)              # huge (overflow)
        if k == 5:
            return sgn | ((1 + (r >> 52) % 60) << 52) | (r % E)                # tiny normals (underflow, gradual)
        if k == 6:
            return sgn | ((1000 + (r >> 52) % 60) << 52) | ((r % 8) << 49)     # few mantissa bits (exact results, ties)
        if k == 7:
            return sgn | ((1023 + (r >> 52) % 3) << 52) | (((r % E) >> 26) << 26) | rng.choice([0, 1, 1 << 25, (1 << 25) + 1, (1 << 26) - 1])
        if k == 8:
            return f2b(rng.range(-(1 << 30), 1 << 30) / float(1 << rng.range(0, 40)))   # dyadic fractions
        r2 = r
        if (r2 >> 52) & 0x7ff == 0x7ff and r2 & (E - 1):
            r2 = (r2 & (1 << 63)) | 0x7ff8000000000000
        return r2                                                              # any bit pattern
    ops_ieee = ["+", "-", "*", "/", "div", "mod", "%"]
    for i in range(n_ieee):
        a = ieee_operand()
        r = rng.below(8)
        if r == 0:
            b = a ^ rng.choice([0, 1, 2, 1 << 63, (1 << 63) | 1, 1 << 52])   # same value / neighbour / negation: cancellation, exact zero
        elif r == 1:
            # a and b a few ulps apart in magnitude 2^-53 relative: halfway cases of + and -
            b = ((a & ~(1 << 63)) - (rng.range(52, 54) << 52)) if ((a >> 52) & 0x7ff) > 60 and ((a >> 52) & 0x7ff) < 0x7ff else ieee_operand()
            b = (b & ~((1 << 52) - 1)) | rng.choice([0, 1 << 51, 1])
        else:
            b = ieee_operand()
        lines.append("%s n:%016x n:%016x" % (ops_ieee[i % 7], a, b))
    # the two static comparison functions, directly
    dbl_edges = [f2b(v) for v in (2.0 ** 53, -2.0 ** 53, 2.0 ** 63, -2.0 ** 63, 2.0 ** 64, 2.0 ** 53 + 2, 2.0 ** 62, 0.0, -0.0, 0.5, -0.5, math.inf, -math.inf,
                                  math.nextafter(2.0 ** 63, 0), math.nextafter(2.0 ** 63, math.inf), math.nextafter(2.0 ** 64, 0), math.nextafter(2.0 ** 64, math.inf),
                                  math.nextafter(-2.0 ** 63, 0), math.nextafter(-2.0 ** 63, -math.inf), math.nextafter(2.0 ** 53, 0), 1e300, -1e300)] + [0x7ff8000000000000]
    for kind, pool in (("cmpsd", P.s), ("cmpud", P.u)):
        edge_ints = [v for v in boundary_ints() if (kind == "cmpsd" and -S63 <= v < S63) or (kind == "cmpud" and 0 <= v < M64)]
        for x in edge_ints:
            for y in dbl_edges:
                lines.append("%s %d %016x" % (kind, x, y))
            # doubles adjacent to x itself
            fx = float(x)
            for y in (fx, math.nextafter(fx, math.inf), math.nextafter(fx, -math.inf)):
                lines.append("%s %d %016x" % (kind, x, f2b(y)))
        for _ in range(per_combo * 4):
            x = rng.choice(pool)
            r = rng.below(4)
            if r == 0:
                y = rng.choice(P.n)
            elif r == 1:
                y = f2b(float(x))
            elif r == 2:
                y = f2b(math.nextafter(float(x), math.inf if rng.chance(1, 2) else -math.inf))
            else:
                y = f2b(float(x + rng.range(-3, 3)))
            lines.append("%s %d %016x" % (kind, x, y))
    return lines
