/* C14 correspondence harness: wrapper TU around the real inttypes.c (file-static compare_int64_double /
 * compare_uint64_double reachable), operators called through the core environment's own functions
 * (`+`, `div`, `compare`, ... => vm.c opcode fast paths + janet_binop_call + the it_s64/it_u64 methods).
 *
 * Line protocol (same as lean/Driver/C14.lean):
 *   <op> <operand> [<operand> ...]  (variadic: the core function is applied to all operands)
 *   m:<name> <operand> ...          method call `(:name a0 a1 ...)`
 *   <op> <operand> [<operand>]      op = + - * / div mod % band bor bxor blshift brshift brushift bnot
 *                                        < <= > >= = not= compare cmp int/s64 int/u64 int/to-number
 *                                        zero? pos? neg? one? even? odd?
 *                                        math/floor math/ceil math/trunc math/round math/abs math/gcd math/lcm
 *   cmpsd <int64 decimal> <hex16>   compare_int64_double called directly
 *   cmpud <uint64 decimal> <hex16>  compare_uint64_double called directly
 *   imm <op> <operand> <int>        compiled `(fn [x] (<op> x <int>))`  (immediate opcodes, janet_mcall path)
 *   link?                           -> link:1 if &janet_s64_type < &janet_u64_type else link:0 (primitive order s64 vs u64)
 * operand = n:<hex16 bits of the double> | s:<int64 decimal> | u:<uint64 decimal> | t:<text without blanks>
 * result  = n:<hex16> | n:nan | s:<dec> | u:<dec> | b:0 | b:1 | nil | err:<class>
 */
#include "inttypes.c"
#include <stdio.h>
#include <stdlib.h>
#include <string.h>

static JanetTable *env;

static int parse_operand(const char *s, Janet *out) {
    if (s[0] && s[1] == ':') {
        const char *v = s + 2;
        switch (s[0]) {
            case 'n': {
                uint64_t bits = strtoull(v, NULL, 16);
                /* NaN boxing: only the two hardware quiet NaNs are janet numbers */
                if ((bits & 0x7ff0000000000000ULL) == 0x7ff0000000000000ULL && (bits & 0x000fffffffffffffULL))
                    bits = (bits & 0x8000000000000000ULL) | 0x7ff8000000000000ULL;
                double d;
                memcpy(&d, &bits, 8);
                *out = janet_wrap_number(d);
                return 1;
            }
            case 's': {
                *out = janet_wrap_s64((int64_t) strtoll(v, NULL, 10));
                return 1;
            }
            case 'u': {
                *out = janet_wrap_u64((uint64_t) strtoull(v, NULL, 10));
                return 1;
            }
            case 't': {
                *out = janet_stringv((const uint8_t *) v, (int32_t) strlen(v));
                return 1;
            }
        }
    }
    return 0;
}

static void print_value(Janet v) {
    switch (janet_type(v)) {
        case JANET_NUMBER: {
            double d = janet_unwrap_number(v);
            if (d != d) { printf("n:nan\n"); break; }
            uint64_t bits;
            memcpy(&bits, &d, 8);
            printf("n:%016llx\n", (unsigned long long) bits);
            break;
        }
        case JANET_BUFFER: {
            JanetBuffer *b = janet_unwrap_buffer(v);
            printf("x:");
            for (int32_t i = 0; i < b->count; i++) printf("%02x", b->data[i]);
            printf("\n");
            break;
        }
        case JANET_NIL: printf("nil\n"); break;
        case JANET_BOOLEAN: printf("b:%d\n", janet_unwrap_boolean(v) ? 1 : 0); break;
        case JANET_ABSTRACT: {
            void *a = janet_unwrap_abstract(v);
            if (janet_abstract_type(a) == &janet_s64_type) printf("s:%lld\n", (long long) * (int64_t *)a);
            else if (janet_abstract_type(a) == &janet_u64_type) printf("u:%llu\n", (unsigned long long) * (uint64_t *)a);
            else printf("other-abstract\n");
            break;
        }
        default: printf("other\n"); break;
    }
}

static void print_error(Janet e) {
    if (!janet_checktype(e, JANET_STRING)) { printf("err:nonstring\n"); return; }
    const char *m = (const char *) janet_unwrap_string(e);
    if (!strncmp(m, "division by zero", 16)) printf("err:divzero\n");
    else if (!strncmp(m, "INT64_MIN divided by -1", 23)) printf("err:minneg\n");
    else if (!strncmp(m, "can not convert", 15)) printf(strstr(m, "unsigned") ? "err:cvtu\n" : "err:cvts\n");
    else if (!strncmp(m, "could not find method", 21)) printf("err:nomethod\n");
    else if (strstr(m, "out of range for 32-bit signed")) printf("err:range32s\n");
    else if (strstr(m, "out of range for 32-bit unsigned")) printf("err:range32u\n");
    else if (!strncmp(m, "rhs must be valid 32-bit signed integer", 39)) printf("err:rhs32\n");
    else if (!strncmp(m, "cannot convert", 14)) printf("err:tonum\n");
    else if (!strncmp(m, "expected int/u64 or int/s64", 27)) printf("err:tonumtype\n");
    else if (!strncmp(m, "compare method requires", 23)) printf("err:cmparg\n");
    else if (!strncmp(m, "int/to-bytes: expected an int/s64 or int/u64", 44)) printf("err:tobytestype\n");
    else if (!strncmp(m, "arity mismatch", 14)) printf("err:arity\n");
    else if (!strncmp(m, "unknown method", 14)) printf("err:nomethod\n");
    else if (!strncmp(m, "bad slot", 8)) printf("err:badslot\n");
    else if (strstr(m, "> called with ")) printf("err:arity\n");   /* fixed-arity janet function (zero? ...) */
    else {
        printf("err:other:");
        for (const char *p = m; *p; p++) putchar(*p == ' ' || *p == '\n' ? '_' : *p);
        putchar('\n');
    }
}

static JanetFunction *lookup_fn_uncached(const char *name);
static struct { char name[32]; JanetFunction *f; } fn_cache[128];
static int fn_cache_n = 0;
static JanetFunction *lookup_fn(const char *name) {
    for (int i = 0; i < fn_cache_n; i++) if (!strcmp(fn_cache[i].name, name)) return fn_cache[i].f;
    JanetFunction *f = lookup_fn_uncached(name);
    if (f && fn_cache_n < 128 && strlen(name) < 32) {
        janet_gcroot(janet_wrap_function(f));
        strcpy(fn_cache[fn_cache_n].name, name);
        fn_cache[fn_cache_n++].f = f;
    }
    return f;
}

static JanetFunction *lookup_fn_uncached(const char *name) {
    Janet out;
    if (!strcmp(name, "int/to-bytes-le") || !strcmp(name, "int/to-bytes-be")) {
        char src[256];
        snprintf(src, sizeof src, "(fn [x] (int/to-bytes x :%s))", name + 13);
        Janet f;
        if (janet_dostring(env, src, "harness", &f) == 0 && janet_checktype(f, JANET_FUNCTION)) return janet_unwrap_function(f);
        return NULL;
    }
    if (name[0] == 'm' && name[1] == ':') {
        /* method call through a keyword: (:name a0 a1 ...) */
        char src[256];
        snprintf(src, sizeof src, "(do (def k (keyword \"%s\")) (fn [& xs] (k ;xs)))", name + 2);
        Janet f;
        if (janet_dostring(env, src, "harness", &f) == 0 && janet_checktype(f, JANET_FUNCTION)) return janet_unwrap_function(f);
        return NULL;
    }
    janet_resolve(env, janet_csymbol(name), &out);
    if (janet_checktype(out, JANET_FUNCTION)) return janet_unwrap_function(out);
    if (janet_checktype(out, JANET_CFUNCTION)) {
        /* wrap cfunctions (int/s64 ...) in a janet function so that janet_pcall can be used uniformly */
        char src[256];
        snprintf(src, sizeof src, "(fn [& xs] (%s ;xs))", name);
        Janet f;
        if (janet_dostring(env, src, "harness", &f) == 0 && janet_checktype(f, JANET_FUNCTION)) {
            janet_gcroot(f);
            return janet_unwrap_function(f);
        }
    }
    return NULL;
}

#define MAXTOK 10
int main(void) {
    janet_init();
    env = janet_core_env(NULL);
    janet_gcroot(janet_wrap_table(env));
    setvbuf(stdout, NULL, _IOLBF, 0);
    char *line = NULL; size_t cap = 0; ssize_t n;
    JanetFiber *fiber = NULL;
    int rooted = 0;
    while ((n = getline(&line, &cap, stdin)) > 0) {
        while (n > 0 && (line[n-1] == '\n' || line[n-1] == '\r' || line[n-1] == ' ')) line[--n] = 0;
        char *tok[MAXTOK]; int nt = 0;
        for (char *p = strtok(line, " "); p && nt < MAXTOK; p = strtok(NULL, " ")) tok[nt++] = p;
        if (nt == 0) { printf("bad-op\n"); continue; }
        if (!strcmp(tok[0], "link?")) {
            /* janet_compare_abstract orders abstracts of different types by the address of the type descriptor */
            const JanetAbstractType *volatile ts = &janet_s64_type;
            const JanetAbstractType *volatile tu = &janet_u64_type;
            printf("link:%d\n", ((uintptr_t) ts < (uintptr_t) tu) ? 1 : 0);
            continue;
        }
        if (!strcmp(tok[0], "cmpsd") && nt == 3) {
            int64_t x = (int64_t) strtoll(tok[1], NULL, 10);
            uint64_t bits = strtoull(tok[2], NULL, 16); double y; memcpy(&y, &bits, 8);
            printf("i:%d\n", compare_int64_double(x, y));
            continue;
        }
        if (!strcmp(tok[0], "cmpud") && nt == 3) {
            uint64_t x = (uint64_t) strtoull(tok[1], NULL, 10);
            uint64_t bits = strtoull(tok[2], NULL, 16); double y; memcpy(&y, &bits, 8);
            printf("i:%d\n", compare_uint64_double(x, y));
            continue;
        }
        JanetFunction *f = NULL;
        Janet argv[MAXTOK]; int argc = 0;
        if (!strcmp(tok[0], "imm") && nt == 4) {
            char src[256];
            snprintf(src, sizeof src, "(fn [x] (%s x %s))", tok[1], tok[3]);
            Janet fv;
            if (janet_dostring(env, src, "harness", &fv) || !janet_checktype(fv, JANET_FUNCTION)) { printf("bad-op\n"); continue; }
            f = janet_unwrap_function(fv);
            if (!parse_operand(tok[2], &argv[0])) { printf("bad-op\n"); continue; }
            argc = 1;
        } else {
            f = lookup_fn(tok[0]);
            if (!f || nt < 2) { printf("bad-op\n"); continue; }
            int ok = 1;
            for (int i = 1; i < nt; i++) ok = ok && parse_operand(tok[i], &argv[argc++]);
            if (!ok) { printf("bad-op\n"); continue; }
        }
        Janet out;
        JanetSignal sig = janet_pcall(f, argc, argv, &out, &fiber);
        if (fiber && !rooted) { janet_gcroot(janet_wrap_fiber(fiber)); rooted = 1; }
        if (sig == JANET_SIGNAL_OK) print_value(out);
        else if (sig == JANET_SIGNAL_ERROR) print_error(out);
        else printf("signal:%d\n", (int) sig);
    }
    free(line);
    janet_deinit();
    return 0;
}
