/* C10: internal state of the real unmarshaller after one top-level value, for the byte-level Lean model to be compared with.
 *
 * Wrapper TU: marsh.c is included, so the file-static `unmarshal_one` and `UnmarshalState` are reachable; this object
 * replaces marsh.o of libjanet.a at link time (marsh.c itself is unmodified).
 *
 * input   "g <n>"      collect every n inputs            -> "ok"
 *         "s <hex>"    unmarshal_one(&st, bytes, &out, 0) with reg = NULL
 * output  "acc <consumed> <type> L=<types of st.lookup[0..], comma separated> E=<count lookup_envs> D=<count lookup_defs>:<done flags> V=<environments_length,environments... of each def>"
 *         "rej <class>"   class = first words of the error message (as harness/C10/fuzz.c)
 */
#include "marsh.c"
#include <stdio.h>
#include <stdlib.h>
#include <string.h>

static int hexval(int c) {
    if (c >= '0' && c <= '9') return c - '0';
    if (c >= 'a' && c <= 'f') return c - 'a' + 10;
    if (c >= 'A' && c <= 'F') return c - 'A' + 10;
    return -1;
}

static void errclass(Janet payload, char *out, size_t n) {
    const uint8_t *s = janet_to_string(payload);
    size_t j = 0;
    int words = 0;
    for (int32_t i = 0; i < janet_string_length(s) && j + 1 < n; i++) {
        int c = s[i];
        if (c == ' ') {
            if (++words >= 4) break;
            out[j++] = '_';
        } else if ((c >= 'a' && c <= 'z') || (c >= 'A' && c <= 'Z') || c == '-') {
            out[j++] = (char) c;
        }
    }
    out[j] = 0;
}

static const uint8_t *cur_bytes;
static size_t cur_len;

static Janet run_one(int32_t argc, Janet *argv) {
    (void) argc; (void) argv;
    UnmarshalState st;
    st.start = cur_bytes;
    st.end = cur_bytes + cur_len;
    st.lookup_defs = NULL;
    st.lookup_defs_done = NULL;
    st.lookup_envs = NULL;
    st.lookup = NULL;
    st.reg = NULL;
    Janet out = janet_wrap_nil();
    const uint8_t *next = NULL;
    JanetTryState ts;
    volatile int ok = 0;
    if (janet_try(&ts) == JANET_SIGNAL_OK) {
        next = unmarshal_one(&st, cur_bytes, &out, 0);
        ok = 1;
    }
    janet_restore(&ts);
    if (!ok) {
        char cls[128];
        errclass(ts.payload, cls, sizeof cls);
        printf("rej %s\n", cls);
    } else {
        printf("acc %ld %s L=", (long)(next - cur_bytes), janet_type_names[janet_type(out)]);
        for (int32_t i = 0; i < janet_v_count(st.lookup); i++)
            printf("%s%s", i ? "," : "", janet_type_names[janet_type(st.lookup[i])]);
        printf(" E=%d D=%d:", (int) janet_v_count(st.lookup_envs), (int) janet_v_count(st.lookup_defs));
        for (int32_t i = 0; i < janet_v_count(st.lookup_defs_done); i++) printf("%d", (int) st.lookup_defs_done[i]);
        /* def->environments_length and def->environments[] of every funcdef (ghost fields `envLen`, `envs` of the model) */
        printf(" V=");
        for (int32_t i = 0; i < janet_v_count(st.lookup_defs); i++) {
            JanetFuncDef *d = st.lookup_defs[i];
            printf("%s%d", i ? ";" : "", (int) d->environments_length);
            for (int32_t j = 0; j < d->environments_length; j++) printf(",%d", (int) d->environments[j]);
        }
        printf("\n");
    }
    janet_v_free(st.lookup_defs);
    janet_v_free(st.lookup_defs_done);
    janet_v_free(st.lookup_envs);
    janet_v_free(st.lookup);
    return janet_wrap_nil();
}

int main(void) {
    janet_init();
    JanetTable *env = janet_core_env(NULL);
    janet_def(env, "run-one", janet_wrap_cfunction(run_one), "");
    Janet runner = janet_wrap_nil();
    janet_dostring(env, "(fn runner [] (run-one))", "umstate", &runner);
    if (!janet_checktype(runner, JANET_FUNCTION)) return 3;
    janet_gcroot(runner);
    char *line = NULL; size_t cap = 0; ssize_t n;
    long count = 0; int gc_every = 8;
    while ((n = getline(&line, &cap, stdin)) > 0) {
        while (n > 0 && (line[n - 1] == '\n' || line[n - 1] == '\r' || line[n - 1] == ' ')) line[--n] = 0;
        if (n < 1) { printf("bad-op\n"); fflush(stdout); continue; }
        const char *h = line + 1;
        while (*h == ' ') h++;
        if (line[0] == 'g') { gc_every = atoi(h); printf("ok\n"); fflush(stdout); continue; }
        if (line[0] != 's') { printf("bad-op\n"); fflush(stdout); continue; }
        size_t hl = strlen(h), len = hl / 2;
        uint8_t *bytes = malloc(len ? len : 1);
        int bad = hl & 1;
        for (size_t i = 0; i < len; i++) {
            int a = hexval(h[2 * i]), b = hexval(h[2 * i + 1]);
            if (a < 0 || b < 0) bad = 1;
            bytes[i] = (uint8_t)(a * 16 + b);
        }
        if (bad) printf("bad-op\n");
        else {
            Janet out; JanetFiber *rf = NULL;
            cur_bytes = bytes; cur_len = len;
            JanetSignal sig = janet_pcall(janet_unwrap_function(runner), 0, NULL, &out, &rf);
            if (sig != JANET_SIGNAL_OK) printf("harness-signal %d\n", (int) sig);
        }
        fflush(stdout);
        free(bytes);
        if (gc_every && (++count % gc_every) == 0) janet_collect();
    }
    free(line);
    janet_deinit();
    return 0;
}
