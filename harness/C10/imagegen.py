"""C10: structure-aware generator of marshalled images (functions, funcdefs, environments, fibers) and of `asm`
descriptions.  Everything random is drawn from the rng passed in (ctx.rng forks), so a case replays from the seed; the replay
files nevertheless carry the concrete bytes.

Encoding follows marsh.c (marshal_one / marshal_one_def / marshal_one_env / marshal_one_fiber); the lead bytes and opcode
table are passed in from the translator (tools/gen/marsh.py, tools/gen/bytecode.py, tools/gen/vmaccess.py), so the generator
follows the current tree."""
import struct

FLAG_VARARG = 0x10000
FLAG_NEEDSENV = 0x20000
FLAG_HASSYMBOLMAP = 0x40000
FLAG_HASNAME = 0x80000
FLAG_HASSOURCE = 0x100000
FLAG_HASDEFS = 0x200000
FLAG_HASENVS = 0x400000
FLAG_HASSOURCEMAP = 0x800000
FLAG_STRUCTARG = 0x1000000
FLAG_HASCLOBITSET = 0x2000000
FIBER_HASCHILD = 1 << 29
FIBER_HASENV = 1 << 30
FRAME_HASENV = -2 ** 31
FRAME_SIZE = 4
STATUS_OFFSET = 16
ST_DEAD, ST_ERROR, ST_DEBUG, ST_PENDING, ST_USER0 = 0, 1, 2, 3, 4
ST_NEW, ST_ALIVE = 14, 15
RESUME_SIGNAL = 0x400000
BREAKPOINT, NO_USEVAL, NO_SKIP, DID_LONGJUMP = 0x1000000, 0x2000000, 0x4000000, 0x8000000

BOUNDARY_INTS = [0, 1, 2, 3, 4, 5, 7, 8, 10, 63, 64, 127, 128, 255, 256, 8191, 8192, 65535, 65536, 2 ** 24, 2 ** 31 - 1, 2 ** 31 - 5, 2 ** 31 - 11,
                 -1, -2, -3, -4, -5, -128, -256, -8192, -8193, -65536, -2 ** 31, -2 ** 31 + 1]
BOUNDARY_BYTES = [0x00, 0x01, 0x02, 0x04, 0x7f, 0x80, 0x81, 0xbf, 0xc0, 0xc7, 0xc8, 0xc9, 0xcc, 0xcd, 0xce, 0xd1, 0xd7, 0xd9, 0xda, 0xdb, 0xdc, 0xe8, 0xfe, 0xff]


def wrap32(x):
    x &= 0xFFFFFFFF
    return x - (1 << 32) if x >= (1 << 31) else x


def pushint(x):
    x = wrap32(x)
    if 0 <= x < 128:
        return bytes([x])
    if -8192 <= x <= 8191:
        return bytes([((x >> 8) & 0x3F) | 0x80, x & 0xFF])
    return bytes([205]) + struct.pack(">i", x)


class Enc:
    """Encoder of a python description into image bytes.

    values:  int | float | None | bool | ("str"|"sym"|"kw"|"buf"|"reg", bytes) | ("tuple", [v], flag) | ("array", [v]) |
             ("struct", [(k, v)]) | ("table", [(k, v)]) | ("ref", n) | ("raw", bytes) | ("real", 8 raw bytes) |
             ("fn", dict(nenv=, def=, envs=[...])) | ("fiber", dict(...))
    def:     dict(flags, slotcount, arity, min_arity, max_arity, constants=[v], bytecode=[u32], environments=[int], defs=[def],
                  name=, source=, nconst=/nbc=/nenvs=/ndefs= overrides of the length fields)  |  ("defref", n)
    env:     dict(offset, length, fiber= | values=[...])  |  ("envref", n)
    """

    def __init__(self, lb):
        self.lb = lb

    def val(self, v):
        lb = self.lb
        if v is None:
            return bytes([lb["LB_NIL"]])
        if v is True:
            return bytes([lb["LB_TRUE"]])
        if v is False:
            return bytes([lb["LB_FALSE"]])
        if isinstance(v, int):
            return pushint(v)
        if isinstance(v, float):
            return bytes([lb["LB_REAL"]]) + struct.pack("<d", v)
        kind = v[0]
        if kind == "raw":
            return bytes(v[1])
        if kind == "real":
            return bytes([lb["LB_REAL"]]) + bytes(v[1])
        if kind in ("str", "sym", "kw", "buf", "reg"):
            lead = {"str": "LB_STRING", "sym": "LB_SYMBOL", "kw": "LB_KEYWORD", "buf": "LB_BUFFER", "reg": "LB_REGISTRY"}[kind]
            n = v[2] if len(v) > 2 else len(v[1])
            return bytes([lb[lead]]) + pushint(n) + bytes(v[1])
        if kind == "tuple":
            n = v[3] if len(v) > 3 else len(v[1])
            return bytes([lb["LB_TUPLE"]]) + pushint(n) + pushint(v[2] if len(v) > 2 else 0) + b"".join(self.val(x) for x in v[1])
        if kind == "array":
            n = v[2] if len(v) > 2 else len(v[1])
            return bytes([lb["LB_ARRAY"]]) + pushint(n) + b"".join(self.val(x) for x in v[1])
        if kind in ("struct", "table"):
            n = v[2] if len(v) > 2 else len(v[1])
            return bytes([lb["LB_STRUCT" if kind == "struct" else "LB_TABLE"]]) + pushint(n) + b"".join(self.val(k) + self.val(x) for k, x in v[1])
        if kind == "ref":
            return bytes([lb["LB_REFERENCE"]]) + pushint(v[1])
        if kind == "fn":
            d = v[1]
            envs = d.get("envs", [])
            nenv = d.get("nenv", len(envs))
            return bytes([lb["LB_FUNCTION"]]) + pushint(nenv) + self.fdef(d["def"]) + b"".join(self.env(e) for e in envs)
        if kind == "fiber":
            return bytes([lb["LB_FIBER"]]) + self.fiber(v[1])
        raise ValueError(kind)

    def fdef(self, d):
        if isinstance(d, tuple):
            if d[0] == "defref":
                return bytes([self.lb["LB_FUNCDEF_REF"]]) + pushint(d[1])
            if d[0] == "raw":
                return bytes(d[1])
        flags = d.get("flags", 0)
        consts = d.get("constants", [])
        bc = d.get("bytecode", [])
        envs = d.get("environments", [])
        defs = d.get("defs", [])
        if envs or "nenvs" in d:
            flags |= FLAG_HASENVS
        if defs or "ndefs" in d:
            flags |= FLAG_HASDEFS
        if "name" in d:
            flags |= FLAG_HASNAME
        if "source" in d:
            flags |= FLAG_HASSOURCE
        flags ^= d.get("flagxor", 0)
        o = [pushint(flags), pushint(d.get("slotcount", 1)), pushint(d.get("arity", 0)), pushint(d.get("min_arity", 0)),
             pushint(d.get("max_arity", 0x7fffffff)), pushint(d.get("nconst", len(consts))), pushint(d.get("nbc", len(bc)))]
        if flags & FLAG_HASENVS:
            o.append(pushint(d.get("nenvs", len(envs))))
        if flags & FLAG_HASDEFS:
            o.append(pushint(d.get("ndefs", len(defs))))
        if flags & FLAG_HASSYMBOLMAP:
            o.append(pushint(len(d.get("symbolmap", []))))
        if flags & FLAG_HASNAME:
            o.append(self.val(d.get("name", ("str", b"n"))))
        if flags & FLAG_HASSOURCE:
            o.append(self.val(d.get("source", ("str", b"s"))))
        for c in consts:
            o.append(self.val(c))
        if flags & FLAG_HASSYMBOLMAP:
            for (b, dth, slot, sym) in d.get("symbolmap", []):
                o += [pushint(b), pushint(dth), pushint(slot), self.val(sym)]
        for w in bc:
            o.append(struct.pack("<I", w & 0xFFFFFFFF))
        if flags & FLAG_HASENVS:
            for e in envs:
                o.append(pushint(e))
        if flags & FLAG_HASDEFS:
            for sd in defs:
                o.append(self.fdef(sd))
        if flags & FLAG_HASSOURCEMAP:
            for i in range(len(bc)):
                o += [pushint(1 if i == 0 else 0), pushint(i)]
        if flags & FLAG_HASCLOBITSET:
            n = min(max((d.get("slotcount", 1) + 31) >> 5, 0), 64)   # keep generated images small even for huge slot counts
            bits = d.get("clobitset", [0xFFFFFFFF] * n)
            for w in bits:
                o.append(struct.pack("<I", w & 0xFFFFFFFF))
        return b"".join(o)

    def env(self, e):
        if isinstance(e, tuple):
            if e[0] == "envref":
                return bytes([self.lb["LB_FUNCENV_REF"]]) + pushint(e[1])
            if e[0] == "raw":
                return bytes(e[1])
        o = [pushint(e.get("offset", 0)), pushint(e.get("length", len(e.get("values", []))))]
        if e.get("offset", 0) > 0:
            o.append(self.val(e["fiber"]))
        else:
            for x in e.get("values", []):
                o.append(self.val(x))
        return b"".join(o)

    def fiber(self, f):
        """f: dict(flags, frame, stackstart, stacktop, maxstack, frames=[dict(flags, prevframe, pc, fn=value, env=env|None, slots=[v])]
        (frames listed top-most first, as in the image), env=value|None, child=value|None, last=value)"""
        flags = f.get("flags", 0)
        if f.get("env") is not None:
            flags |= FIBER_HASENV
        if f.get("child") is not None:
            flags |= FIBER_HASCHILD
        o = [pushint(flags), pushint(f["frame"]), pushint(f["stackstart"]), pushint(f["stacktop"]), pushint(f.get("maxstack", 8192))]
        for fr in f.get("frames", []):
            ff = fr.get("flags", 0)
            if fr.get("env") is not None:
                ff |= FRAME_HASENV
            o += [pushint(ff), pushint(fr["prevframe"]), pushint(fr["pc"]), self.val(fr["fn"])]
            if fr.get("env") is not None:
                o.append(self.env(fr["env"]))
            for x in fr.get("slots", []):
                o.append(self.val(x))
        if f.get("env") is not None:
            o.append(self.val(f["env"]))
        if f.get("child") is not None:
            o.append(self.val(f["child"]))
        o.append(self.val(f.get("last")))
        return b"".join(o)


# ------------------------------------------------------------------------------------------------ bytecode
class Ops:
    """opcode table: ops = [(cname, value)], types = [JINT_*], mnemonics = {cname: asm name}"""

    def __init__(self, ops, types, mnemonics):
        self.ops = ops
        self.types = types
        self.mn = mnemonics
        self.by_name = {n: v for n, v in ops}
        self.type_of = {v: t for (n, v), t in zip(ops, types)}
        self.name_of = {v: n for n, v in ops}
        self.terminal = [self.by_name[n] for n in ("JOP_RETURN", "JOP_RETURN_NIL", "JOP_JUMP", "JOP_ERROR", "JOP_TAILCALL")]


def gen_instr(rng, ops, i, n, sc, nconst, ndefs, nenvs, op=None, wild=False):
    """One instruction word (and its asm form) that passes janet_verify when wild=False; with wild=True one operand is a
    boundary value that may or may not pass."""
    if op is None:
        op = rng.choice(ops.ops)[1]
    t = ops.type_of[op]

    def slot(width):
        if wild and rng.chance(1, 2):
            return rng.choice([sc, sc + 1, 255, (1 << width) - 1, 0, sc - 1 if sc > 0 else 0]) & ((1 << width) - 1)
        return rng.below(sc) if sc > 0 else 0

    def label(width):
        if wild and rng.chance(1, 2):
            d = rng.choice([-i - 1, n - i, n - i + 1, -(1 << (width - 1)), (1 << (width - 1)) - 1, 0, -1, 1])
        else:
            d = rng.below(n) - i
        return d & ((1 << width) - 1), d

    def idx(limit, width):
        if wild and rng.chance(1, 2):
            return rng.choice([limit, limit + 1, (1 << width) - 1, 255, 0]) & ((1 << width) - 1)
        return rng.below(limit) if limit > 0 else None

    def imm(width):
        return rng.choice([0, 1, 2, 3, 7, 31, 32, 33, 127, 128, 255, (1 << width) - 1, 1 << (width - 1)]) & ((1 << width) - 1)

    args = []
    w = op
    if t == "JINT_0":
        pass
    elif t == "JINT_S":
        a = slot(24); w |= a << 8; args = [a]
    elif t == "JINT_L":
        a, d = label(24); w |= a << 8; args = [d]
    elif t == "JINT_SS":
        a, b = slot(8), slot(16); w |= a << 8 | b << 16; args = [a, b]
    elif t == "JINT_SL":
        a = slot(8); b, d = label(16); w |= a << 8 | b << 16; args = [a, d]
    elif t == "JINT_ST":
        a, b = slot(8), imm(16); w |= a << 8 | b << 16; args = [a, b]
    elif t in ("JINT_SI", "JINT_SU"):
        a, b = slot(8), imm(16); w |= a << 8 | b << 16
        args = [a, b if t == "JINT_SU" or b < 32768 else b - 65536]
    elif t == "JINT_SD":
        a, b = slot(8), idx(ndefs, 16)
        if b is None:
            return None
        w |= a << 8 | b << 16; args = [a, b]
    elif t == "JINT_SC":
        a, b = slot(8), idx(nconst, 16)
        if b is None:
            return None
        w |= a << 8 | b << 16; args = [a, b]
    elif t == "JINT_SSS":
        a, b, c = slot(8), slot(8), slot(8); w |= a << 8 | b << 16 | c << 24; args = [a, b, c]
    elif t in ("JINT_SSI", "JINT_SSU"):
        a, b, c = slot(8), slot(8), imm(8); w |= a << 8 | b << 16 | c << 24
        args = [a, b, c if t == "JINT_SSU" or c < 128 else c - 256]
    elif t == "JINT_SES":
        a, b, c = slot(8), idx(nenvs, 8), rng.choice([0, 1, 2, 3, 255, sc, max(sc - 1, 0)])
        if b is None:
            return None
        w |= a << 8 | b << 16 | c << 24; args = [a, b, c]
    else:
        raise ValueError(t)
    return w & 0xFFFFFFFF, (ops.mn.get(ops.name_of[op]), args)


def gen_bytecode(rng, ops, sc, nconst, ndefs, nenvs, n=None, wild=0, must=None):
    n = n or rng.range(1, 9)
    words, asm = [], []
    for i in range(n):
        last = i == n - 1
        for _ in range(50):
            op = None
            if last:
                op = rng.choice(ops.terminal)
            elif must is not None and i == 0:
                op = must
            elif rng.chance(1, 3):
                op = ops.by_name[rng.choice(["JOP_CLOSURE", "JOP_LOAD_UPVALUE", "JOP_SET_UPVALUE", "JOP_LOAD_CONSTANT", "JOP_CALL", "JOP_PUSH",
                                             "JOP_SIGNAL", "JOP_RESUME", "JOP_LOAD_SELF", "JOP_MAKE_ARRAY", "JOP_PUSH_ARRAY", "JOP_TAILCALL",
                                             "JOP_JUMP_IF", "JOP_PROPAGATE", "JOP_CANCEL", "JOP_NEXT", "JOP_PUT", "JOP_GET"])]
            r = gen_instr(rng, ops, i, n, sc, nconst, ndefs, nenvs, op=op, wild=(wild and rng.chance(wild, 8)))
            if r is not None:
                break
        else:
            r = (ops.by_name["JOP_RETURN_NIL"], ("retn", []))
        words.append(r[0])
        asm.append(r[1])
    return words, asm


def gen_const(rng, depth=0):
    k = rng.below(12)
    if k == 0:
        return None
    if k == 1:
        return rng.choice([0, 1, -1, 100, 70000, -70000])
    if k == 2:
        return rng.choice([1.5, -0.0, 1e300])
    if k == 3:
        return ("str", b"s%d" % rng.below(4))
    if k == 4:
        return ("kw", b"k%d" % rng.below(4))
    if k == 5:
        return ("sym", b"y")
    if k == 6:
        return ("buf", b"bb")
    if k == 7 and depth < 2:
        return ("tuple", [gen_const(rng, depth + 1) for _ in range(rng.below(3))], 0)
    if k == 8 and depth < 2:
        return ("array", [gen_const(rng, depth + 1) for _ in range(rng.below(3))])
    if k == 9:
        return ("reg", rng.choice([b"array/push", b"+", b"length", b"tuple", b"resume", b"fiber/new", b"yield", b"apply", b"get"]))
    if k == 10:
        return True
    return ("real", rng.choice([b"\xff" * 8, b"\x00\x00\x00\x00\x00\x00\xf8\xff", b"\x01\x00\x00\x00\x00\x80\xf8\xff", b"\x00\x00\x00\x00\x00\x00\xf0\x7f",
                                b"\x78\x56\x34\x12\x00\x80\xfb\xff", b"\x00\x00\x00\x00\x00\x00\xf9\x7f", b"\x10\x00\x00\x00\x00\x00\xfc\xff"]))


def gen_def(rng, ops, depth=0, nenvs_parent=0, wild=0):
    """random funcdef description that passes janet_verify unless wild"""
    sc = rng.range(1, 6)
    arity = rng.below(min(sc, 3) + 1)
    flags = 0
    if rng.chance(1, 5) and arity < sc:
        flags |= FLAG_VARARG
    consts = [gen_const(rng) for _ in range(rng.below(4))]
    ndefs = rng.below(3) if depth < 2 else 0
    nenvs = rng.below(3)
    # environments[i]: -1 = capture the creating frame, else index into the creator's envs
    envs = [(-1 if nenvs_parent == 0 or rng.chance(1, 2) else rng.below(nenvs_parent)) for _ in range(nenvs)]
    defs = [gen_def(rng, ops, depth + 1, nenvs, wild) for _ in range(ndefs)]
    bc, asm = gen_bytecode(rng, ops, sc, len(consts), ndefs, nenvs, wild=wild)
    d = dict(flags=flags, slotcount=sc, arity=arity, min_arity=arity, max_arity=(0x7fffffff if flags & FLAG_VARARG else arity),
             constants=consts, bytecode=bc, environments=envs, defs=defs, _asm=asm)
    if rng.chance(1, 4):
        d["name"] = ("str", b"nm")
    if rng.chance(1, 6):
        d["flags"] |= FLAG_HASSOURCEMAP
    if rng.chance(1, 4):
        d["flags"] |= FLAG_HASCLOBITSET
    return d


def gen_env(rng, length=None):
    n = length if length is not None else rng.range(1, 4)
    return dict(offset=0, length=n, values=[gen_const(rng) for _ in range(n)])


def gen_function(rng, ops, wild=0):
    d = gen_def(rng, ops, wild=wild)
    envs = [gen_env(rng, rng.range(1, 6)) for _ in d["environments"]]
    return ("fn", dict(**{"def": d}, envs=envs))


def perturb_int(rng, x):
    k = rng.below(6)
    if k == 0:
        return x + 1
    if k == 1:
        return x - 1
    if k == 2:
        return 0
    if k == 3:
        return -1
    return rng.choice(BOUNDARY_INTS)


def mutate_function(rng, fn):
    """structure-aware perturbation of one field of a function description (returns a label)"""
    d = fn[1]["def"]
    k = rng.below(14)
    if k == 0:
        fn[1]["nenv"] = perturb_int(rng, len(fn[1]["envs"])); return "fn.nenv"
    if k == 1 and fn[1]["envs"]:
        fn[1]["envs"].pop(); fn[1]["nenv"] = len(fn[1]["envs"]); return "fn.fewer-envs"
    if k == 2:
        fn[1]["envs"].append(gen_env(rng)); return "fn.more-envs"
    if k == 3 and d["environments"]:
        i = rng.below(len(d["environments"]))
        d["environments"][i] = rng.choice([-2, -3, -256, -8192, -2 ** 31, 0, 1, 2, 255, 2 ** 31 - 1]); return "def.environments[i]"
    if k == 4:
        d["nconst"] = perturb_int(rng, len(d["constants"])); return "def.nconst"
    if k == 5:
        d["nbc"] = perturb_int(rng, len(d["bytecode"])); return "def.nbc"
    if k == 6:
        d["nenvs"] = perturb_int(rng, len(d["environments"])); return "def.nenvs"
    if k == 7:
        d["ndefs"] = perturb_int(rng, len(d["defs"])); return "def.ndefs"
    if k == 8:
        d["slotcount"] = perturb_int(rng, d["slotcount"]); return "def.slotcount"
    if k == 9:
        d["arity"] = perturb_int(rng, d["arity"]); return "def.arity"
    if k == 10:
        d["flagxor"] = rng.choice([FLAG_VARARG, FLAG_HASENVS, FLAG_HASDEFS, FLAG_HASNAME, FLAG_HASSOURCEMAP, FLAG_HASCLOBITSET, FLAG_HASSYMBOLMAP, FLAG_STRUCTARG, 1 << 31, 0xFFFF]); return "def.flags"
    if k == 11 and d["defs"]:
        d["defs"][rng.below(len(d["defs"]))] = ("defref", rng.choice([0, 1, 2, -1, 255])); return "def.defref"
    if k == 12 and fn[1]["envs"]:
        e = fn[1]["envs"][rng.below(len(fn[1]["envs"]))]
        e["length"] = perturb_int(rng, e["length"]); return "env.length"
    if k == 13 and d["bytecode"]:
        i = rng.below(len(d["bytecode"]))
        d["bytecode"][i] ^= 1 << rng.below(32); return "def.bytecode-bit"
    d["max_arity"] = perturb_int(rng, d["arity"]); return "def.max_arity"


def simple_fn(ops, sc=2, bc=None, consts=(), name=None):
    bn = ops.by_name
    if bc is None:
        bc = [bn["JOP_LOAD_INTEGER"] | 0 << 8 | 7 << 16, bn["JOP_SIGNAL"] | 1 << 8 | 0 << 16 | 3 << 24, bn["JOP_SIGNAL"] | 1 << 8 | 0 << 16 | 3 << 24, bn["JOP_RETURN"] | 0 << 8]
    d = dict(flags=0, slotcount=sc, arity=0, min_arity=0, max_arity=0, constants=list(consts), bytecode=list(bc), environments=[], defs=[])
    if name:
        d["name"] = ("str", name)
    return ("fn", dict(**{"def": d}, envs=[]))


def gen_fiber(rng, ops, depth=0):
    """consistent fiber description (frames laid out the way the VM does), to be perturbed afterwards"""
    nfr = rng.choice([0, 1, 1, 1, 2, 3])
    frames = []
    pos = 0          # next free index in fiber->data
    prev = 0
    for k in range(nfr):
        sc = rng.range(1, 4)
        fn = simple_fn(ops, sc=max(sc, 2)) if rng.chance(2, 3) else gen_function(rng, ops)
        sc = fn[1]["def"]["slotcount"]
        frame = pos + FRAME_SIZE
        nbc = len(fn[1]["def"]["bytecode"])
        frames.append(dict(flags=rng.choice([0, 0, 1, 2, 3]), prevframe=prev, pc=rng.below(max(nbc - 1, 1)), fn=fn, env=None,
                           slots=[gen_const(rng) for _ in range(sc)], _frame=frame, _sc=sc))
        prev = frame
        pos = frame + sc
    top = frames[-1]["_frame"] if frames else 0
    stackstart = pos + FRAME_SIZE
    extra = rng.choice([0, 0, 0, 1, 3])
    status = rng.choice([ST_PENDING, ST_PENDING, ST_NEW, ST_DEAD, ST_ERROR, ST_DEBUG, ST_USER0 + rng.below(10)]) if frames else ST_DEAD
    flags = (status << STATUS_OFFSET) | rng.choice([0, 0xE, 0x3FFE, 2])
    if status == ST_NEW:
        flags |= NO_USEVAL | NO_SKIP
    f = dict(flags=flags, frame=top, stackstart=stackstart, stacktop=stackstart + extra, maxstack=rng.choice([8192, 2 ** 31 - 1, stackstart + extra]),
             frames=list(reversed(frames)), env=None, child=None, last=gen_const(rng))
    if rng.chance(1, 6):
        f["env"] = ("table", [(("kw", b"x"), 1)])
    if rng.chance(1, 6) and depth < 2:
        f["child"] = ("fiber", gen_fiber(rng, ops, depth + 1))
    if frames and rng.chance(1, 4):
        fr = rng.choice(f["frames"])
        # on-stack environment pointing back to this fiber (reference 0 is the fiber itself when it is the root of the image)
        fr["env"] = dict(offset=fr["_frame"], length=fr["_sc"], fiber=("ref", 0))
    return f


def mutate_fiber(rng, f):
    k = rng.below(16)
    frs = f["frames"]
    if k == 0:
        f["frame"] = rng.choice([0, 0, 1, 3, 4, 5, f["frame"] + 1, f["frame"] - 1]); return "fiber.frame"
    if k == 1:
        f["frames"] = []; f["frame"] = 0
        f["stackstart"] = rng.choice([4, 4, 5, 10]); f["stacktop"] = f["stackstart"] + rng.choice([0, 1]); return "fiber.noframes"
    if k == 2:
        st = rng.choice([ST_DEAD, ST_ERROR, ST_DEBUG, ST_PENDING, ST_USER0, ST_USER0 + 9, ST_NEW, ST_ALIVE, 16, 63])
        f["flags"] = (f["flags"] & ~0x3F0000) | (st << STATUS_OFFSET); return "fiber.status"
    if k == 3:
        f["flags"] ^= rng.choice([RESUME_SIGNAL, BREAKPOINT, NO_USEVAL, NO_SKIP, DID_LONGJUMP, 0x40000, 0x10000, 0x20000, 1 << 31, 1]); return "fiber.flags"
    if k == 4:
        f["stackstart"] = perturb_int(rng, f["stackstart"]); return "fiber.stackstart"
    if k == 5:
        f["stacktop"] = rng.choice([f["stacktop"] + 1, f["stackstart"] - 1, f["stacktop"] + 100, 2 ** 20]); return "fiber.stacktop"
    if k == 6:
        f["maxstack"] = rng.choice([0, f["stacktop"], f["stacktop"] - 1, 2 ** 31 - 1]); return "fiber.maxstack"
    if frs:
        fr = rng.choice(frs)
        isfn = isinstance(fr["fn"], tuple) and fr["fn"][0] == "fn" and isinstance(fr["fn"][1]["def"], dict)
        nbc = len(fr["fn"][1]["def"]["bytecode"]) if isfn else 4
        if k == 7:
            fr["pc"] = rng.choice([nbc - 1, nbc, nbc + 1, 0, 2 ** 31 - 1, nbc - 2 if nbc > 1 else 0]); return "frame.pc"
        if k == 8:
            fr["prevframe"] = rng.choice([0, fr["prevframe"] + 1, fr["prevframe"] - 1, fr["_frame"], fr["_frame"] - 4, fr["_frame"] - 3, 1, 2, 3, 4, 2 ** 31 - 1]); return "frame.prevframe"
        if k == 9:
            fr["flags"] = rng.choice([0, 1, 2, 3, 4, 0xFF, 0x7fffffff, -1]); return "frame.flags"
        if k == 10:
            fr["slots"] = fr["slots"][:-1] if rng.chance(1, 2) else fr["slots"] + [None]; return "frame.slots"
        if k == 11:
            fr["env"] = dict(offset=rng.choice([fr["_frame"], fr["_frame"] + 1, 1, 4, 2 ** 30, fr["_frame"] - 1]), length=rng.choice([fr["_sc"], fr["_sc"] + 1, 0, 255, 2 ** 31 - 1]),
                             fiber=rng.choice([("ref", 0), ("ref", 1), ("fiber", dict(flags=0, frame=0, stackstart=4, stacktop=4, frames=[], last=None))]))
            return "frame.env-onstack"
        if k == 12:
            fr["env"] = dict(offset=0, length=rng.choice([1, fr["_sc"], 3]), values=[1, 2, 3][:rng.choice([1, fr["_sc"], 3])]); return "frame.env-offstack"
        if k == 13:
            fr["fn"] = rng.choice([("ref", 0), ("ref", 1), 5, None, ("str", b"x"), ("reg", b"length")]); return "frame.fn-not-function"
        if k == 14:
            # pc on a jump / terminal instruction whose A byte is not a slot
            d = fr["fn"][1]["def"] if isfn else None
            if d:
                d["bytecode"] = list(d["bytecode"])
                j = 0x1C  # JOP_JUMP
                d["bytecode"].insert(0, 0)  # noop
                d["bytecode"][0] = (j | (rng.choice([0xFF, 0x10, d["slotcount"]]) << 8)) if rng.chance(1, 2) else d["bytecode"][0]
                fr["pc"] = 0
                return "frame.pc-on-jump"
    f["last"] = ("fiber", dict(flags=(ST_PENDING << STATUS_OFFSET), frame=0, stackstart=4, stacktop=4, frames=[], last=None)); return "fiber.last-is-fiber"


# ------------------------------------------------------------------------------------------------ asm text
def lit(v):
    if v is None:
        return "nil"
    if v is True:
        return "true"
    if v is False:
        return "false"
    if isinstance(v, int):
        return str(v)
    if isinstance(v, float):
        return repr(v)
    k = v[0]
    if k == "str":
        return '"%s"' % v[1].decode()
    if k == "kw":
        return ":" + v[1].decode()
    if k == "sym":
        return "(quote %s)" % v[1].decode()
    if k == "buf":
        return '@"%s"' % v[1].decode()
    if k == "tuple":
        return "[" + " ".join(lit(x) for x in v[1]) + "]"
    if k == "array":
        return "@[" + " ".join(lit(x) for x in v[1]) + "]"
    if k == "reg":
        return ":" + v[1].decode().replace("/", "-")
    return "1.5"


def asm_text(d, rng=None, junk=False):
    """janet data literal for (asm ...) from a def description made by gen_def"""
    parts = [":arity %d" % d["arity"], ":min-arity %d" % d["min_arity"], ":max-arity %d" % d["max_arity"], ":slotcount %d" % d["slotcount"]]
    if d["flags"] & FLAG_VARARG:
        parts.append(":vararg true")
    parts.append(":constants [" + " ".join(lit(c) for c in d["constants"]) + "]")
    parts.append(":environments [" + " ".join(str(e) for e in d["environments"]) + "]")
    parts.append(":closures [" + " ".join(asm_text(s, rng, junk) for s in d["defs"]) + "]")
    ins = []
    for mn, args in d["_asm"]:
        ins.append("(" + " ".join([mn] + [str(a) for a in args]) + ")")
    parts.append(":bytecode [" + " ".join(ins) + "]")
    if "name" in d:
        parts.append(':name "nm"')
    if junk and rng is not None:
        j = rng.below(10)
        extra = [":slotcount -1", ":arity 100000", ":bytecode 5", ":constants 3", ":closures [1]", ":environments [:a]", ":sourcemap [(1 2)]",
                 ":symbolmap [(0 1 2 x)]", ":symbolmap [(:top 100000 70000 x)]", ":defs [{}]"][j]
        parts.append(extra)
    return "{" + " ".join(parts) + "}"


# ------------------------------------------------------------------------------------------------ modelled fibers
# Fibers inside the domain of the Lean acceptance model (lean/JanetModel/Unmarsh/Image.lean): every frame function is the
# fixed, verified `model_fn`; no environments, no child, last value nil.  The generator returns the image description AND
# the decoded header / frame records that the model is run on.  Mutations keep the equations between the fields consistent
# (shift frame / stackstart / stacktop together, shift every frame, change a slot count together with the frame width, ...)
# so that images which pass every *relative* check but violate an *absolute* one are produced, not only rejected noise.

def model_fn(ops, sc):
    """ldi 0 7; call 1 0; sig 1 0 3; jmp -1 (A byte = 255); ret 0     needs sc >= 2"""
    bn = ops.by_name
    bc = [bn["JOP_LOAD_INTEGER"] | 0 << 8 | 7 << 16,
          bn["JOP_CALL"] | 1 << 8 | 0 << 16,
          bn["JOP_SIGNAL"] | 1 << 8 | 0 << 16 | 3 << 24,
          bn["JOP_JUMP"] | (0xFFFFFF << 8),
          bn["JOP_RETURN"] | 0 << 8]
    return simple_fn(ops, sc=sc, bc=bc), bc


def gen_model_fiber(rng, ops):
    """returns (fiber description, meta) - meta carries what is needed to derive the records after mutation"""
    nfr = rng.choice([1, 1, 1, 2, 2, 3, 4])
    frames = []
    pos, prev = 0, 0
    for k in range(nfr):
        sc = rng.range(2, 5)
        frame = pos + FRAME_SIZE
        top = k == nfr - 1
        frames.append(dict(at=frame, prevframe=prev, sc=sc, width=sc, pc=(rng.choice([2, 2, 2, 0, 1]) if top else 1),
                           flags=(2 if k == 0 else 0) | rng.choice([0, 0, 1])))
        prev = frame
        pos = frame + sc
    stackstart = pos + FRAME_SIZE
    extra = rng.choice([0, 0, 0, 2])
    status = rng.choice([ST_PENDING, ST_PENDING, ST_PENDING, ST_NEW, ST_DEBUG, ST_USER0 + 5, ST_ERROR, ST_DEAD, ST_USER0, ST_ALIVE])
    fl = rng.choice([0, 0xE, 0x3FFE])
    if status == ST_NEW:
        fl |= NO_USEVAL | NO_SKIP
    m = dict(frames=frames, frame=frames[-1]["at"], stackstart=stackstart, stacktop=stackstart + extra,
             maxstack=rng.choice([8192, 2 ** 31 - 1, stackstart + extra]), status=status, lowflags=fl)
    return m


def mutate_model_fiber(rng, m):
    """equation-preserving and single-field mutations; returns a label"""
    frs = m["frames"]
    k = rng.below(20)
    if not frs and k in (4, 5, 6, 7, 8, 9, 10, 11, 18):
        k = 12 + k % 6
    if k == 0:
        return "none"
    if k in (1, 2, 3):
        d = rng.choice([-1, -2, -3, -4, -5, -8, 1, 2, 3, 8])
        for fr in frs:
            fr["at"] += d
            if fr["prevframe"] != 0:
                fr["prevframe"] += d
        m["frame"] += d; m["stackstart"] += d; m["stacktop"] += d
        return "shift-all%+d" % d
    if k == 4:
        d = rng.choice([-1, -2, -3, 1, 2])
        i = rng.below(len(frs))
        for j, fr in enumerate(frs):
            if j >= i:
                fr["at"] += d
            if j > i:
                fr["prevframe"] += d
        m["frame"] = frs[-1]["at"]; m["stackstart"] += d; m["stacktop"] += d
        return "shift-upper%+d" % d       # frame i and everything above it: the gap below frame i changes
    if k == 5:
        i = rng.below(len(frs)); d = rng.choice([-1, 1, 2])
        frs[i]["sc"] = max(2, frs[i]["sc"] + d)
        dd = frs[i]["sc"] - frs[i]["width"]
        frs[i]["width"] = frs[i]["sc"]
        for j, fr in enumerate(frs):
            if j > i:
                fr["at"] += dd; fr["prevframe"] += dd
        m["frame"] = frs[-1]["at"]; m["stackstart"] += dd; m["stacktop"] += dd
        return "resize-frame-consistent"
    if k == 6:
        i = rng.below(len(frs)); frs[i]["sc"] = max(2, frs[i]["sc"] + rng.choice([-1, 1])); return "slotcount-only"
    if k == 7 and len(frs) > 2:
        frs[-1]["prevframe"] = frs[-3]["at"]; return "prevframe-skips-a-frame"
    if k == 8:
        i = rng.below(len(frs)); frs[i]["prevframe"] = max(0, frs[i]["prevframe"] + rng.choice([-1, 1, -4, 4])); return "prevframe+-"
    if k == 9:
        i = rng.below(len(frs)); frs[i]["prevframe"] = 0; return "prevframe=0"
    if k == 10:
        i = rng.below(len(frs)); frs[i]["flags"] ^= 2; return "toggle-entrance"
    if k == 11:
        i = rng.below(len(frs)); frs[i]["pc"] = rng.choice([0, 1, 2, 3, 4, 5]); return "pc"
    if k == 12:
        m["status"] = rng.choice([ST_DEAD, ST_ERROR, ST_DEBUG, ST_PENDING, ST_USER0, ST_USER0 + 4, ST_USER0 + 5, ST_USER0 + 9, ST_NEW, ST_ALIVE, 16, 40]); return "status"
    if k == 13:
        m["lowflags"] ^= rng.choice([NO_USEVAL, NO_SKIP, NO_USEVAL | NO_SKIP, BREAKPOINT, DID_LONGJUMP]); return "resume-flags"
    if k == 14:
        m["frame"] = rng.choice([0, m["frame"] + 1, max(0, m["frame"] - 1), frs[0]["at"] if frs else 4]); return "frame-field"
    if k == 15:
        d = rng.choice([-1, 1, -4]); m["stackstart"] = max(0, m["stackstart"] + d); return "stackstart-only"
    if k == 16:
        m["stacktop"] = max(0, m["stacktop"] + rng.choice([-1, 1, 5])); return "stacktop-only"
    if k == 17:
        m["maxstack"] = rng.choice([m["stacktop"], max(0, m["stacktop"] - 1), 0]); return "maxstack"
    if k == 18 and len(frs) > 1:
        frs.pop(0); return "drop-bottom-record"
    m["frames"] = []; m["frame"] = 0; m["stackstart"] = rng.choice([4, 5]); m["stacktop"] = m["stackstart"]; return "no-frames"


def render_model_fiber(enc, ops, m):
    """-> (image bytes, model protocol line or None when a field is outside the model's domain (negative))"""
    frs = m["frames"]
    vals = [m["frame"], m["stackstart"], m["stacktop"], m["maxstack"]] + [x for fr in frs for x in (fr["at"], fr["prevframe"], fr["pc"])]
    recs = []
    frames_desc = []
    for fr in reversed(frs):       # image order: top-most first
        fn, bc = model_fn(ops, fr["sc"])
        frames_desc.append(dict(flags=fr["flags"], prevframe=fr["prevframe"], pc=fr["pc"], fn=fn, env=None, slots=[None] * fr["sc"]))
        pc = fr["pc"]
        inr = 0 <= pc < len(bc)
        w = bc[pc] if inr else 0
        recs += [1 if fr["flags"] & 2 else 0, fr["prevframe"], pc, fr["sc"], len(bc),
                 1 if (w & 0x7F) == ops.by_name["JOP_CALL"] else 0, 1 if ((w >> 8) & 0xFF) < fr["sc"] else 0]
    flags = (m["status"] << STATUS_OFFSET) | m["lowflags"]
    f = dict(flags=flags, frame=m["frame"], stackstart=m["stackstart"], stacktop=m["stacktop"], maxstack=m["maxstack"],
             frames=frames_desc, env=None, child=None, last=None)
    img = enc.val(("fiber", f))
    if min(vals) < 0 or max(vals) >= 2 ** 30:
        return img, None
    line = "fiber %d %d %d %d %d %d %d" % (m["status"], 1 if m["lowflags"] & NO_USEVAL else 0, 1 if m["lowflags"] & NO_SKIP else 0,
                                         m["frame"], m["stackstart"], m["stacktop"], m["maxstack"])
    if recs:
        line += " " + " ".join(str(x) for x in recs)
    return img, line


# ------------------------------------------------------------------------------------------------ PEG images
# Marshalled form (peg_marshal): LB_ABSTRACT, symbol "core/peg", size(bytecode_len), int(num_constants), bytecode words as
# ints, constants as values.  `rows` = (ops {name: number}, vrows, urows) from tools/gen/pegaccess.py, so operand kinds and
# widths follow the current peg.c.

def push64(x):
    if x <= 0xF0:
        return bytes([x])
    bs = []
    while x:
        bs.append(x & 0xFF)
        x >>= 8
    return bytes([0xF0 + len(bs)]) + bytes(bs)


def peg_image(lb, words, consts, enc):
    o = [bytes([lb["LB_ABSTRACT"]]), bytes([lb["LB_SYMBOL"]]), pushint(8), b"core/peg", push64(len(words)), pushint(len(consts))]
    for w in words:
        o.append(pushint(wrap32(w)))
    for c in consts:
        o.append(enc.val(c))
    return b"".join(o)


class PegRows:
    def __init__(self, ops, vrows, urows):
        self.ops = ops
        self.name_of = {v: k for k, v in ops.items()}
        self.v = {ops[n]: r for n, r in vrows.items()}
        self.u = {ops[n]: r for n, r in urows.items()}

    def kinds(self, op):
        """operand kinds of the fixed part: list over k = 1 .. width-1 of 'rule' | 'const' | 'imm'"""
        v, u = self.v[op], self.u.get(op, dict(ruleOps=[], constOps=[]))
        out = []
        for k in range(1, v["width"]):
            if k in v["checkedRules"] or k in v["markedRules"] or k in u["ruleOps"]:
                out.append("rule")
            elif k in v["checkedConsts"] or k in u["constOps"]:
                out.append("const")
            else:
                out.append("imm")
        return out


def _peg_imm(rng, rows, op, k):
    n = rows.name_of[op]
    if n == "RULE_RANGE":
        lo = rng.choice([48, 97, 0]); return lo | ((lo + rng.choice([0, 9, 25])) << 16)
    if n == "RULE_READINT":
        return rng.range(1, 8) | rng.choice([0, 0x10, 0x20, 0x30]) if k == 1 else rng.below(3)
    if n == "RULE_LOOK" and k == 1:
        return rng.choice([0, 0, 1, 0xFFFFFFFF])
    if n == "RULE_BETWEEN":
        return rng.choice([0, 1]) if k == 1 else rng.choice([1, 2, 3])
    if n == "RULE_SET":
        return rng.choice([0, 0xFFFFFFFF, 0x03FF0000, 0x07FFFFFE])
    if n in ("RULE_NCHAR", "RULE_NOTNCHAR"):
        return rng.choice([0, 1, 1, 2])
    if n == "RULE_CAPTURE_NUM" and k == 2:
        return rng.choice([0, 10, 16])
    return rng.below(3)


def gen_peg(rng, rows, gadget_op):
    """valid program: instruction i only refers to later instructions (terminates).  Returns dict(instrs, nconst)."""
    known = sorted(op for op, v in rows.v.items())
    leaves = [op for op in known if rows.v[op]["var"] != "list" and "rule" not in rows.kinds(op) and rows.name_of[op] != "RULE_ERROR"]
    n = rng.range(2, 7)
    nconst = rng.below(3)
    instrs = []
    for i in range(n):
        last = i == n - 1
        for _ in range(40):
            op = rng.choice(leaves if last else known)
            if rows.name_of[op] in ("RULE_ERROR",):
                continue
            ks = rows.kinds(op)
            if "const" in ks and nconst == 0:
                continue
            break
        v = rows.v[op]
        ins = dict(op=op, ops=[], payload=[], elems=[])
        for k, kind in enumerate(rows.kinds(op), 1):
            if kind == "rule":
                ins["ops"].append(("rule", rng.range(i + 1, n - 1)))
            elif kind == "const":
                ins["ops"].append(("const", rng.below(nconst)))
            else:
                ins["ops"].append(("imm", _peg_imm(rng, rows, op, k)))
        if v["var"] == "literal":
            txt = rng.choice([b"a", b"aa", b"q", b"", b"hello", b"12", b"a1b2c"])
            if rng.chance(1, 3):
                # gadget: payload words that spell `constant <huge index> 0`
                ins["payload"] = [gadget_op, 0x7FFFFFF0, 0]
                ins["ops"] = [("imm", 12)]
            else:
                ins["ops"] = [("imm", len(txt))]
                pad = txt + b"\0" * (-len(txt) % 4)
                ins["payload"] = [int.from_bytes(pad[j:j + 4], "little") for j in range(0, len(pad), 4)]
        elif v["var"] == "list":
            m = rng.range(1, 3) if not last else 0
            ins["elems"] = [rng.range(i + 1, n - 1) for _ in range(m)] if not last else []
            ins["ops"] = [("imm", len(ins["elems"]))]
        instrs.append(ins)
    return dict(instrs=instrs, nconst=nconst, readint_op=rows.ops.get("RULE_READINT"))


def layout_peg(p):
    """-> (words, offsets)"""
    offs, pos = [], 0
    for ins in p["instrs"]:
        offs.append(pos)
        pos += 1 + len(ins["ops"]) + len(ins["payload"]) + len(ins["elems"])
    words = []
    for ins in p["instrs"]:
        words.append(ins["op"])
        for kind, val in ins["ops"]:
            if kind == "rule":
                words.append(offs[val] if isinstance(val, int) and 0 <= val < len(offs) else 0)
            elif kind == "rawrule":
                words.append(val)
            else:
                words.append(val)
        words += ins["payload"]
        words += [offs[e] if isinstance(e, int) and 0 <= e < len(offs) else 0 for e in ins["elems"]]
    return words, offs


def mutate_peg_words(rng, p, words, offs):
    """structure-aware mutation on the laid-out program; returns (words, nconst, label)"""
    nconst = p["nconst"]
    blen = len(words)
    # positions of rule / const operand words
    rule_pos, const_pos, lit_payload = [], [], []
    for ins, o in zip(p["instrs"], offs):
        for k, (kind, val) in enumerate(ins["ops"], 1):
            if kind == "rule":
                rule_pos.append(o + k)
            elif kind == "const":
                const_pos.append(o + k)
        base = o + 1 + len(ins["ops"])
        if ins["payload"]:
            lit_payload.append(base)
        for j in range(len(ins["elems"])):
            rule_pos.append(base + len(ins["payload"]) + j)
    k = rng.below(10)
    w = list(words)
    if k == 0:
        return w, nconst, "valid"
    if k in (1, 2, 3) and rule_pos:
        pos = rng.choice(rule_pos)
        if lit_payload and rng.chance(1, 2):
            w[pos] = rng.choice(lit_payload); return w, nconst, "rule->literal-payload"
        inside = [i for i in range(blen) if i not in offs]
        w[pos] = rng.choice(inside) if inside and rng.chance(2, 3) else rng.choice([blen, blen - 1, 0, blen + 1, 2 ** 31, 2 ** 32 - 1])
        return w, nconst, "rule->mid-instruction"
    if k == 4 and const_pos:
        w[rng.choice(const_pos)] = rng.choice([nconst, max(nconst - 1, 0), 0x7FFFFFF0, 2 ** 32 - 1]); return w, nconst, "const-index"
    if k == 5:
        return w[:-1], nconst, "drop-last-word"
    if k == 6:
        return w + [rng.choice([0, 1, 7, 16, 99])], nconst, "extra-word"
    if k == 7 and blen:
        # (the READINT mode word has an extra range check that the model does not carry: left alone)
        skip = set(o + 1 for ins, o in zip(p["instrs"], offs) if p.get("readint_op") == ins["op"])
        cand = [i for i in range(blen) if i not in skip]
        i = rng.choice(cand); w[i] = rng.choice([w[i] + 1, max(w[i] - 1, 0), 2 ** 32 - 1, 0x7FFFFFFF, 40, 0]); return w, nconst, "word+-"
    if k == 8:
        return [], nconst, "empty"
    return w, max(nconst - 1, 0), "fewer-constants"


def peg_row_witness(rows, op, gadget_op):
    """programs in which each rule operand of `op` in turn points at a literal payload spelling `constant 0x7FFFFFF0 0`,
    every other rule operand at `nchar 0` (always matches), constant operands at 0 (or out of range in the last variant)"""
    v, u = rows.v[op], rows.u.get(op, dict(ruleOps=[], constOps=[], listRules=False))
    nchar = rows.ops["RULE_NCHAR"]
    lit = rows.ops["RULE_LITERAL"]
    kinds = rows.kinds(op)
    out = []
    islist = v["var"] == "list"
    width = 1 + len(kinds) + (2 if islist else 0)
    X, L = width, width + 2
    signed = list(u.get("signedIndexOps", []))
    targets = [k for k, kind in enumerate(kinds, 1) if kind == "rule"] + (["elem"] if islist else []) + ["const"] + (["signed"] if signed else [])
    for tgt in targets:
        words = [op]
        for k, kind in enumerate(kinds, 1):
            if islist and k == 1:
                words.append(2)
            elif kind == "rule":
                words.append(L + 2 if tgt == k else X)
            elif kind == "const":
                words.append(0x7FFFFFF0 if tgt == "const" else 0)
            elif tgt == "signed" and k in signed:
                words.append(0xFFF00000)      # read back as a large negative int32 index
            else:
                words.append(1 if rows.name_of[op] == "RULE_BETWEEN" and k == 2 else 0)
        if islist:
            words += [X, L + 2 if tgt == "elem" else X]
        words += [nchar, 0, lit, 12, gadget_op, 0x7FFFFFF0, 0]
        out.append((words, 1, "target=%s" % tgt))
    return out


# ------------------------------------------------------------------------------------------------ deep nesting
# One image family per RECURSIVE EDGE of the unmarshaller (every call site of unmarshal_one / _def / _env / _fiber /
# _abstract / janet_unmarshal_janet in marsh.c): `prefix * n + leaf + suffix * n`, built without recursion so that n can be
# far beyond JANET_RECURSION_GUARD.  On a tree whose depth counter works every image deeper than the guard is rejected with
# "stack overflow" (and the byte-level Lean model must name the same n at which acceptance turns into rejection); on a tree
# where one of the edges forgets to count, the 10^5-deep image overflows the C stack.
def deep_edges(lb, ops, peg_constant_op=None):
    """[(edge name, head, prefix, leaf, suffix)] ; image(n) = head + prefix * n + leaf + suffix * n"""
    bn = ops.by_name
    L = lambda k: bytes([lb[k]])
    nil = L("LB_NIL")
    retn = struct.pack("<I", bn["JOP_RETURN_NIL"])
    i0 = pushint(0)

    def defhdr(flags, slots=1, nconst=0, nenvs=None, ndefs=None):
        o = pushint(flags) + pushint(slots) + i0 + i0 + pushint(0x7fffffff) + pushint(nconst) + pushint(1)
        if nenvs is not None:
            o += pushint(nenvs)
        if ndefs is not None:
            o += pushint(ndefs)
        return o
    plain_def = defhdr(0) + retn                                   # no constants, `retn`
    env_def = defhdr(FLAG_HASENVS, nenvs=1) + retn + pushint(-1)   # one environment slot
    fn_plain = L("LB_FUNCTION") + i0 + plain_def
    dead_fiber = L("LB_FIBER") + i0 + i0 + pushint(4) + pushint(4) + pushint(10)          # + last_value
    # a dead fiber with one entrance frame of a 1-slot function: flags frame=4 stackstart=9 stacktop=9 maxstack=20
    fr_hdr = L("LB_FIBER") + i0 + pushint(4) + pushint(9) + pushint(9) + pushint(20)
    sym = lambda s: L("LB_SYMBOL") + pushint(len(s)) + s
    E = []
    E.append(("array-element", b"", L("LB_ARRAY") + pushint(1), nil, b""))
    E.append(("tuple-element", b"", L("LB_TUPLE") + pushint(1) + i0, nil, b""))
    E.append(("struct-key", b"", L("LB_STRUCT") + pushint(1), nil, pushint(1)))
    E.append(("struct-value", b"", L("LB_STRUCT") + pushint(1) + pushint(1), nil, b""))
    E.append(("struct-proto", b"", L("LB_STRUCT_PROTO") + i0, L("LB_STRUCT") + i0, b""))
    E.append(("table-key", b"", L("LB_TABLE") + pushint(1), pushint(7), pushint(1)))
    E.append(("table-value", b"", L("LB_TABLE") + pushint(1) + pushint(1), nil, b""))
    E.append(("table-proto", b"", L("LB_TABLE_PROTO") + i0, L("LB_TABLE") + i0, b""))
    E.append(("weak-array-element", b"", L("LB_ARRAY_WEAK") + pushint(1), nil, b""))
    E.append(("weak-table-proto", b"", L("LB_TABLE_WEAKKV_PROTO") + i0, L("LB_TABLE") + i0, b""))
    # function -> funcdef constant -> function ...
    E.append(("funcdef-constant", b"", L("LB_FUNCTION") + i0 + defhdr(0, nconst=1), nil, retn))
    # funcdef -> sub-funcdef -> ...   (flags HASDEFS, one sub-def each; the innermost is a plain def)
    E.append(("funcdef-subdef", L("LB_FUNCTION") + i0, defhdr(FLAG_HASDEFS, ndefs=1) + retn, plain_def, b""))
    # function -> off-stack environment value -> function ... ; the funcdef is shared through LB_FUNCDEF_REF
    E.append(("function-env-value", L("LB_FUNCTION") + pushint(1) + env_def + i0 + pushint(1),
              L("LB_FUNCTION") + pushint(1) + L("LB_FUNCDEF_REF") + i0 + i0 + pushint(1), nil, b""))
    # function -> on-stack environment -> fiber -> last_value -> function ...
    E.append(("function-env-fiber", L("LB_FUNCTION") + pushint(1) + env_def + pushint(1) + pushint(1) + dead_fiber,
              L("LB_FUNCTION") + pushint(1) + L("LB_FUNCDEF_REF") + i0 + pushint(1) + pushint(1) + dead_fiber, nil, b""))
    E.append(("fiber-last-value", b"", dead_fiber, nil, b""))
    E.append(("fiber-child", b"", L("LB_FIBER") + pushint(FIBER_HASCHILD) + i0 + pushint(4) + pushint(4) + pushint(10), dead_fiber + nil, nil))
    E.append(("fiber-env-table", b"", L("LB_FIBER") + pushint(FIBER_HASENV) + i0 + pushint(4) + pushint(4) + pushint(10) + L("LB_TABLE") + pushint(1) + pushint(1), nil, nil))
    # fiber frame: flags=ENTRANCE prevframe=0 pc=0 fn, 1 slot
    E.append(("fiber-frame-slot", b"", fr_hdr + pushint(2) + i0 + i0 + fn_plain, nil, nil))
    # fiber frame function -> constant of its funcdef -> fiber ...
    E.append(("fiber-frame-function", b"", fr_hdr + pushint(2) + i0 + i0 + L("LB_FUNCTION") + i0 + defhdr(0, nconst=1), nil, retn + nil + nil))
    # fiber frame environment (off-stack values) -> fiber ...
    E.append(("fiber-frame-env", b"", fr_hdr + pushint(2 | FRAME_HASENV) + i0 + i0 + fn_plain + i0 + pushint(1), nil, nil + nil))
    # abstract payloads: channel items, peg constants
    E.append(("channel-item", b"", L("LB_ABSTRACT") + sym(b"core/channel") + bytes([0, 0]) + pushint(10) + pushint(1), nil, b""))
    if peg_constant_op is not None:     # bytecode `constant 0 tag=0` (3 words), one constant
        E.append(("peg-constant", b"", L("LB_ABSTRACT") + sym(b"core/peg") + push64(3) + pushint(1) + pushint(peg_constant_op) + i0 + i0, nil, b""))
    return E


def deep_image(edge, n):
    name, head, pre, leaf, suf = edge
    return head + pre * n + leaf + suf * n


# ------------------------------------------------------------------------------------------------ modelled function images
# Function images inside the domain of the Lean acceptance model `acceptFunction` (Unmarsh/Image.lean): a verified top
# funcdef with k environment slots (+ optionally one sub-funcdef with its own slots) and a function header announcing `len`
# environments.  The only fields that vary are the ones the model talks about: len, k, the environment indices of both
# defs - so the only reasons for rejection are "expected k environments, got len" and "invalid funcdef environment index".
MODEL_ENV_INDICES = [-1, -1, 0, 1, 2, -2, -3, -256, -8192, -8193, -2 ** 31, 255, 8192, 2 ** 31 - 1]


def gen_model_function(rng, ops):
    k = rng.choice([0, 1, 1, 2, 3, 5])
    m = dict(len=k, envs=[rng.choice([-1, 0, 1, 2]) for _ in range(k)], sub=None)
    if rng.chance(1, 2):
        m["sub"] = [rng.choice([-1, 0, 1]) for _ in range(rng.choice([0, 1, 2]))]
    return m


def mutate_model_function(rng, m):
    what = rng.choice(["len", "len", "k", "idx", "idx", "idx", "sub-idx", "none"])
    if what == "len":
        d = rng.choice([-2, -1, 1, 2, 7])
        m["len"] = min(255, max(0, m["len"] + d))
        return "len%+d" % d
    if what == "k":
        if m["envs"] and rng.chance(1, 2):
            m["envs"].pop()
            return "k-1"
        m["envs"].append(rng.choice([-1, 0]))
        return "k+1"
    if what == "idx" and m["envs"]:
        v = rng.choice(MODEL_ENV_INDICES)
        m["envs"][rng.below(len(m["envs"]))] = v
        return "idx=%d" % v
    if what == "sub-idx" and m["sub"]:
        v = rng.choice(MODEL_ENV_INDICES)
        m["sub"][rng.below(len(m["sub"]))] = v
        return "sub-idx=%d" % v
    return "none"


def render_model_function(lb, ops, m):
    """-> (image bytes, model driver line)"""
    bn = ops.by_name
    L = lambda k: bytes([lb[k]])
    w = lambda x: struct.pack("<I", x & 0xFFFFFFFF)
    retn = w(bn["JOP_RETURN_NIL"])

    def fdef(envs, sub, slots):
        flags = (FLAG_HASENVS if envs else 0) | (FLAG_HASDEFS if sub is not None else 0)
        bc = []
        if sub is not None:
            bc.append(w(bn["JOP_CLOSURE"] | 0 << 8 | 0 << 16))
        if envs:
            bc.append(w(bn["JOP_LOAD_UPVALUE"] | (slots - 1) << 8 | 0 << 16 | 0 << 24))
        bc.append(retn)
        o = pushint(flags) + pushint(slots) + pushint(0) + pushint(0) + pushint(0x7fffffff) + pushint(0) + pushint(len(bc))
        if envs:
            o += pushint(len(envs))
        if sub is not None:
            o += pushint(1)
        o += b"".join(bc)
        for e in envs:
            o += pushint(e)
        if sub is not None:
            o += fdef(sub, None, 1)
        return o
    img = L("LB_FUNCTION") + pushint(m["len"]) + fdef(m["envs"], m["sub"], 2)
    for _ in range(m["len"]):
        img += pushint(0) + pushint(1) + L("LB_NIL")
    allidx = list(m["envs"]) + list(m["sub"] or [])
    return img, "function %d %d %s" % (m["len"], len(m["envs"]), " ".join(str(wrap32(e)) for e in allidx))


# ------------------------------------------------------------------------------------------------ janet_env_valid cases
# A function whose single environment is the untrusted ON-STACK variant (offset K > 0, length L, fiber = a dead fiber with a
# chain of 1..5 frames).  Frames may point back at that environment (LB_FUNCENV_REF 0), carry another one, or none.  K and L
# are chosen around the frame starts and slot counts.  -> (image, model line `envvalid -K L <frame> {prevframe envIsThis hasFunc slotcount}*`)
def gen_env_valid_case(rng, lb, ops):
    bn = ops.by_name
    L = lambda k: bytes([lb[k]])
    w = lambda x: struct.pack("<I", x & 0xFFFFFFFF)
    i0 = pushint(0)
    nfr = rng.choice([1, 1, 2, 3, 4, 5])
    slots = [rng.choice([1, 2, 3, 5, 8]) for _ in range(nfr)]       # bottom first
    starts, cur = [], FRAME_SIZE
    for s in slots:
        starts.append(cur)
        cur += s + FRAME_SIZE
    stackstart = cur
    kinds = [rng.choice(["this", "this", "none", "other"]) for _ in range(nfr)]
    # K, L
    j = rng.below(nfr)
    if rng.chance(2, 3):
        kinds[j] = "this"
    K = starts[j] if rng.chance(3, 5) else rng.choice([starts[j] + 1, max(1, starts[j] - 1), starts[j] + slots[j], stackstart, stackstart + 7, 1, 4, 2 ** 20])
    Ln = slots[j] if rng.chance(3, 5) else rng.choice([slots[j] + 1, max(0, slots[j] - 1), 0, 1, 100, 2 ** 24])
    fiber = L("LB_FIBER") + i0 + pushint(starts[-1]) + pushint(stackstart) + pushint(stackstart) + pushint(stackstart + 100)
    recs = []
    for idx in range(nfr - 1, -1, -1):                              # top-most first
        prev = starts[idx - 1] if idx > 0 else 0
        ff = (2 if idx == 0 else 0) | (FRAME_HASENV if kinds[idx] != "none" else 0)
        fn = L("LB_FUNCTION") + i0 + pushint(0) + pushint(slots[idx]) + i0 + i0 + pushint(0x7fffffff) + i0 + pushint(2) + \
            w(bn["JOP_CALL"] | 0 << 8 | 0 << 16) + w(bn["JOP_RETURN_NIL"])
        fiber += pushint(ff) + pushint(prev) + i0 + fn
        if kinds[idx] == "this":
            fiber += L("LB_FUNCENV_REF") + i0
        elif kinds[idx] == "other":
            fiber += i0 + pushint(1) + L("LB_NIL")
        fiber += L("LB_NIL") * slots[idx]
        recs.append("%d %d 1 %d" % (prev, 1 if kinds[idx] == "this" else 0, slots[idx]))
    fiber += L("LB_NIL")                                            # last_value
    # the function itself reads upvalue V of that environment when called: `ldu 0 0 V; ret 0`
    V = rng.choice([0, 0, 1, min(255, max(0, Ln - 1)), 200, 255])
    top = L("LB_FUNCTION") + pushint(1) + pushint(FLAG_HASENVS) + pushint(1) + i0 + i0 + pushint(0x7fffffff) + i0 + pushint(2) + pushint(1) + \
        w(bn["JOP_LOAD_UPVALUE"] | 0 << 8 | 0 << 16 | V << 24) + w(bn["JOP_RETURN"] | 0 << 8) + pushint(-1)
    img = top + pushint(K) + pushint(Ln) + fiber
    return img, "envvalid %d %d %d %s" % (-K, Ln, starts[-1], " ".join(recs)), "K=%d L=%d V=%d frames=%s" % (K, Ln, V, list(zip(starts, slots, kinds)))
