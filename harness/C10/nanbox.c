/* C10: what the real unmarshaller makes of `LB_REAL <8 bytes>` for an arbitrary 64-bit payload, at the level of the Janet's bit
 * pattern.  Line protocol (stdin -> stdout):
 *   first output line:  "nan <bits of the C constant NAN as decimal> sizeof=<sizeof(Janet)>"
 *   "<w decimal>"  ->  "<bits of the unmarshalled Janet> <janet_type> <mask of the types t < 16 with janet_checktype(x, t)>"
 * The image is LB_REAL followed by the bytes of the double whose bit pattern is w, in the byte order marshal itself uses
 * (taken from a marshalled 1.5, so the harness follows the current marsh.c). */
#include <janet.h>
#include <math.h>
#include <stdio.h>
#include <stdlib.h>
#include <string.h>
#include <inttypes.h>

int main(void) {
    janet_init();
    union { double d; uint64_t u; } n;
    n.d = NAN;
    printf("nan %" PRIu64 " sizeof=%d\n", n.u, (int) sizeof(Janet));
    /* learn the lead byte and the byte order from marshal */
    JanetBuffer *buf = janet_buffer(16);
    janet_gcroot(janet_wrap_buffer(buf));
    janet_marshal(buf, janet_wrap_number(1.5), NULL, 0);
    if (buf->count != 9) { fprintf(stderr, "unexpected image of 1.5 (%d bytes)\n", buf->count); return 2; }
    uint8_t lead = buf->data[0];
    union { double d; uint8_t b[8]; } probe;
    probe.d = 1.5;
    int same_order = memcmp(probe.b, buf->data + 1, 8) == 0;
    char *line = NULL;
    size_t cap = 0;
    while (getline(&line, &cap, stdin) > 0) {
        uint64_t w = strtoull(line, NULL, 10);
        uint8_t img[9];
        img[0] = lead;
        union { uint64_t u; uint8_t b[8]; } x;
        x.u = w;
        for (int i = 0; i < 8; i++) img[1 + i] = same_order ? x.b[i] : x.b[7 - i];
        Janet out;
        JanetTryState ts;
        JanetSignal sig = janet_try(&ts);
        if (sig == JANET_SIGNAL_OK) {
            out = janet_unmarshal(img, 9, 0, NULL, NULL);
            janet_restore(&ts);
            union { Janet j; uint64_t u; } r;
            memset(&r, 0, sizeof r);
            r.j = out;
            unsigned mask = 0;
            for (int t = 0; t < 16; t++) if (janet_checktype(out, (JanetType) t)) mask |= 1u << t;
            printf("%" PRIu64 " %d %u\n", r.u, (int) janet_type(out), mask);
        } else {
            janet_restore(&ts);
            printf("error\n");
        }
    }
    janet_deinit();
    return 0;
}
