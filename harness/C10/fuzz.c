/* C10 in-process harness: feed untrusted images / asm descriptions to the real janet (ASan+UBSan variant), report
 * accept/reject, then exercise every accepted function / fiber (call, resume, cancel, print, compare, hash, marshal,
 * collect).  libFuzzer-style loop without libFuzzer: one input per stdin line, one result line per input (flushed), so
 * that on a crash the offending input is the one after the last complete output line.
 *
 *   u <hex>         unmarshal (safe mode, restricted core registry) + exercise
 *   U <hex>         unmarshal only (accept / reject + re-marshalled value), no exercise
 *   a <hex(text)>   parse text as one janet datum, (asm datum) + exercise
 *   g <n>           collect after every n-th rejected input (accepted inputs always collect); default 8
 *   x <0|1>         exercise on/off
 *
 * input also:  "m <hex>"  plain janet_unmarshal(bytes, len, 0, NULL, &next)  ->  "acc <consumed> <type>" | "rej <class>"
 * output:  "rej <class>" | "acc <type> <summary>"      class = first words of the error message, digits removed
 */
#include "features.h"
#include <janet.h>
#include "state.h"
#include "fiber.h"
#include "gc.h"
#include <stdio.h>
#include <stdlib.h>
#include <string.h>
#include <signal.h>
#include <sys/time.h>
#include <unistd.h>
#include <errno.h>
#include <setjmp.h>

static volatile sig_atomic_t ticks = 0;
static volatile sig_atomic_t want_suspend = 0;
static int tick_limit = 4000;  /* 4000 * 5 ms = 20 s of CPU TIME per input: a hang.  The ticks come from ITIMER_PROF (CPU time of
                                * this process), not from the wall clock: on a loaded machine an input that needs 50 ms of CPU may
                                * take a minute of wall time, which is not a finding.  A second, coarse wall-clock watchdog
                                * (wall_limit seconds per input) catches an input that blocks without using CPU. */
static volatile sig_atomic_t wall_ticks = 0;
static int wall_limit = 900;

/* PEG matching has no interrupt point and valid PEG bytecode can take exponential time (or capture without bound): a single
 * peg call gets a time budget and is abandoned with siglongjmp when it is used up - that is not a finding */
static sigjmp_buf peg_jmp;
static volatile sig_atomic_t peg_armed = 0, peg_ticks = 0;
static long n_peg_timeouts = 0;

static void on_wall_tick(int sig) {
    (void) sig;
    if (++wall_ticks > wall_limit) {
        static const char msg[] = "\nHANG: input exceeded the wall-clock limit without using its CPU budget\n";
        (void) !write(2, msg, sizeof msg - 1);
        _exit(97);
    }
}

static void on_tick(int sig) {
    (void) sig;
    ticks++;
    if (peg_armed && ++peg_ticks > 30) {
        peg_armed = 0;
        siglongjmp(peg_jmp, 1);
    }
    if (want_suspend) janet_vm.auto_suspend = 1;
    if (ticks > tick_limit) {
        static const char msg[] = "\nHANG: input exceeded the time limit\n";
        (void) !write(2, msg, sizeof msg - 1);
        _exit(97);
    }
}

static int hexval(int c) {
    if (c >= '0' && c <= '9') return c - '0';
    if (c >= 'a' && c <= 'f') return c - 'a' + 10;
    if (c >= 'A' && c <= 'F') return c - 'A' + 10;
    return -1;
}

static JanetTable *reg = NULL;   /* symbol -> value, restricted */
static JanetTable *rreg = NULL;  /* value -> symbol, restricted */
static int do_exercise = 1;
static int gc_every = 8;
static long n_inputs = 0, n_acc = 0, n_calls = 0, n_resumes = 0, n_interrupts = 0;

static void collect_now(void) {
    janet_collect();
}

static int denied(const char *s) {
    static const char *prefixes[] = {"os/", "file/", "net/", "ev/", "ffi/", "debug/", "module/", "thread/", "stdin", "stdout",
                                     "stderr", "print", "prin", "eprint", "eprin", "xprin", "pp", "repl", "dofile", "require", "import",
                                     "slurp", "spit", "native", "sandbox", "gcset", "getline", "string/repeat", "array/new",
                                     "buffer/new", "table/new", "range", "run-context", "quit", "exit", "flush", "eflush",
                                     "buffer/blit", "bundle/", "doc", "tracev", "trace", "untrace", "signal", "cli-main", "main",
                                     "load-image", "make-image", "root-env", "disasm", "asm", "peg/", "int/", "tarray/", NULL
                                    };
    for (int i = 0; prefixes[i]; i++) if (!strncmp(s, prefixes[i], strlen(prefixes[i]))) return 1;
    return 0;
}

static JanetCFunction asm_cfun = NULL;
static JanetCFunction peg_match_cfun = NULL, peg_findall_cfun = NULL, peg_replace_cfun = NULL;
static long n_pegs = 0;
static JanetCFunction dbg_stack_cfun = NULL, dbg_lineage_cfun = NULL, disasm_cfun = NULL;
static JanetCFunction ch_count_cfun = NULL, ch_cap_cfun = NULL, ch_full_cfun = NULL, ch_close_cfun = NULL, ch_take_cfun = NULL;
static JanetCFunction core_cfun(JanetTable *env, const char *name) {
    Janet v = janet_wrap_nil();
    janet_resolve(env, janet_csymbol(name), &v);
    return janet_checktype(v, JANET_CFUNCTION) ? janet_unwrap_cfunction(v) : NULL;
}
static void build_registry(void) {
    JanetTable *env = janet_core_env(NULL);
    Janet asmv = janet_wrap_nil();
    janet_resolve(env, janet_csymbol("asm"), &asmv);
    if (janet_checktype(asmv, JANET_CFUNCTION)) asm_cfun = janet_unwrap_cfunction(asmv);
    dbg_stack_cfun = core_cfun(env, "debug/stack");
    dbg_lineage_cfun = core_cfun(env, "debug/lineage");
    disasm_cfun = core_cfun(env, "disasm");
    ch_count_cfun = core_cfun(env, "ev/count");
    ch_cap_cfun = core_cfun(env, "ev/capacity");
    ch_full_cfun = core_cfun(env, "ev/full");
    ch_close_cfun = core_cfun(env, "ev/chan-close");
    ch_take_cfun = core_cfun(env, "ev/take");
    {
        Janet v = janet_wrap_nil();
        janet_resolve(env, janet_csymbol("peg/match"), &v);
        if (janet_checktype(v, JANET_CFUNCTION)) peg_match_cfun = janet_unwrap_cfunction(v);
        v = janet_wrap_nil();
        janet_resolve(env, janet_csymbol("peg/find-all"), &v);
        if (janet_checktype(v, JANET_CFUNCTION)) peg_findall_cfun = janet_unwrap_cfunction(v);
        v = janet_wrap_nil();
        janet_resolve(env, janet_csymbol("peg/replace-all"), &v);
        if (janet_checktype(v, JANET_CFUNCTION)) peg_replace_cfun = janet_unwrap_cfunction(v);
    }
    Janet lidv = janet_wrap_nil();
    janet_resolve(env, janet_csymbol("load-image-dict"), &lidv);
    reg = janet_table(512);
    rreg = janet_table(512);
    janet_gcroot(janet_wrap_table(reg));
    janet_gcroot(janet_wrap_table(rreg));
    if (!janet_checktype(lidv, JANET_TABLE)) return;
    JanetTable *lid = janet_unwrap_table(lidv);
    for (int32_t i = 0; i < lid->capacity; i++) {
        const JanetKV *kv = lid->data + i;
        if (janet_checktype(kv->key, JANET_NIL)) continue;
        if (!janet_checktype(kv->key, JANET_SYMBOL)) continue;
        const char *name = (const char *) janet_unwrap_symbol(kv->key);
        if (denied(name)) continue;
        /* C functions only: bytecode functions of the core image (repl, debugger, ...) reach stdin / stdout through
         * references inside the image that this table cannot filter */
        if (!janet_checktype(kv->value, JANET_CFUNCTION)) continue;
        janet_table_put(reg, kv->key, kv->value);
        janet_table_put(rreg, kv->value, kv->key);
    }
}

static void errclass(Janet payload, char *out, size_t n) {
    const uint8_t *s = janet_to_string(payload);
    size_t j = 0;
    int words = 0;
    for (int32_t i = 0; i < janet_string_length(s) && j + 1 < n; i++) {
        int c = s[i];
        if (c == ' ') {
            if (++words >= 4) break;
            out[j++] = '_';
        } else if ((c >= 'a' && c <= 'z') || (c >= 'A' && c <= 'Z') || c == '-') {
            out[j++] = (char) c;
        }
    }
    out[j] = 0;
}

/* ---- guarded primitive operations ---------------------------------------------------- */

typedef struct { const uint8_t *bytes; size_t len; Janet out; } UArg;

static int try_unmarshal(const uint8_t *bytes, size_t len, Janet *out, char *cls, size_t ncls) {
    JanetTryState ts;
    volatile int ok = 0;
    JanetSignal sig = janet_try(&ts);
    if (sig == JANET_SIGNAL_OK) {
        *out = janet_unmarshal(bytes, len, 0, reg, NULL);
        ok = 1;
    }
    janet_restore(&ts);
    if (!ok) {
        if (cls) errclass(ts.payload, cls, ncls);
        *out = janet_wrap_nil();
    }
    return ok;
}

#define GUARDED(stmt) do { JanetTryState ts_; if (janet_try(&ts_) == JANET_SIGNAL_OK) { stmt; } janet_restore(&ts_); } while (0)

static uint32_t summary_hash = 0;
static void mix(uint32_t x) { summary_hash = (summary_hash ^ x) * 16777619u; }

static void light_ops(Janet x) {
    /* printed, hashed, compared, marshalled */
    GUARDED({ const uint8_t *s = janet_to_string(x); mix((uint32_t) janet_string_length(s)); });
    GUARDED({ const uint8_t *s = janet_description(x); (void) s; });
    GUARDED({ JanetBuffer *b = janet_buffer(64); janet_pretty(b, 6, 0, x); mix((uint32_t) b->count > 0); });
    GUARDED({ JanetBuffer *b = janet_buffer(64); janet_formatb(b, "%q %j", x, x); });
    GUARDED({ (void) janet_hash(x); });
    GUARDED({ mix((uint32_t) janet_equals(x, x)); mix((uint32_t) janet_compare(x, x)); });
    GUARDED({ mix((uint32_t) janet_compare(x, janet_wrap_integer(3))); mix((uint32_t) janet_equals(janet_ckeywordv("a"), x)); });
    GUARDED({ JanetBuffer *b = janet_buffer(64); janet_marshal(b, x, rreg, 0); mix((uint32_t) b->count); });
    GUARDED({ (void) janet_length(x); });
    if (!janet_checktype(x, JANET_FIBER)) GUARDED({ (void) janet_next(x, janet_wrap_nil()); });
}

/* run a fiber until it stops for a reason other than the interpreter interrupt; bounded number of interrupts */
static JanetSignal drive(JanetFiber *fiber, Janet in, Janet *out, int use_signal, JanetSignal sigin) {
    JanetSignal sig;
    int budget = 6;
    janet_vm.auto_suspend = 0;
    want_suspend = 1;
    if (use_signal) sig = janet_continue_signal(fiber, in, out, sigin);
    else sig = janet_continue(fiber, in, out);
    n_resumes++;
    while (sig == JANET_SIGNAL_INTERRUPT && budget-- > 0) {
        n_interrupts++;
        janet_vm.auto_suspend = 0;
        sig = janet_continue(fiber, janet_wrap_nil(), out);
    }
    want_suspend = 0;
    janet_vm.auto_suspend = 0;
    return sig;
}

static void exercise_value(Janet x, int variant, int depth);
static int is_channel(Janet x);
static void exercise_channel(Janet ch);

/* introspection that reads the debug sections of an image: (debug/stack fiber), (debug/lineage fiber), (disasm f),
 * (disasm f :symbolmap) ... */
static void introspect_fiber(JanetFiber *fiber) {
    Janet fv = janet_wrap_fiber(fiber);
    if (dbg_stack_cfun) GUARDED({ Janet r = dbg_stack_cfun(1, &fv); light_ops(r); });
    if (dbg_lineage_cfun) GUARDED({ Janet r = dbg_lineage_cfun(1, &fv); mix((uint32_t) janet_type(r)); });
}
static void introspect_function(JanetFunction *f) {
    static const char *keys[] = {"symbolmap", "sourcemap", "bytecode", "constants", "environments", "defs", "slotcount", NULL};
    Janet argv[2];
    argv[0] = janet_wrap_function(f);
    if (!disasm_cfun) return;
    GUARDED({ Janet r = disasm_cfun(1, argv); mix((uint32_t) janet_type(r)); });
    for (int i = 0; keys[i]; i++) {
        argv[1] = janet_ckeywordv(keys[i]);
        GUARDED({ Janet r = disasm_cfun(2, argv); mix((uint32_t) janet_type(r)); });
    }
}
static int is_channel(Janet x) {
    return janet_checktype(x, JANET_ABSTRACT) && !strcmp(janet_abstract_type(janet_unwrap_abstract(x))->name, "core/channel");
}
static void exercise_channel(Janet ch) {
    Janet n = janet_wrap_integer(0);
    if (ch_count_cfun) GUARDED({ n = ch_count_cfun(1, &ch); });
    if (ch_cap_cfun) GUARDED({ (void) ch_cap_cfun(1, &ch); });
    if (ch_full_cfun) GUARDED({ (void) ch_full_cfun(1, &ch); });
    /* taking from a channel that has items returns at once (no suspension outside the event loop) */
    for (int i = 0; i < 3; i++) {
        int have = 0;
        if (ch_count_cfun) GUARDED({ n = ch_count_cfun(1, &ch); have = janet_checkint(n) && janet_unwrap_integer(n) > 0; });
        if (!have || !ch_take_cfun) break;
        GUARDED({ Janet r = ch_take_cfun(1, &ch); light_ops(r); });
    }
    if (ch_close_cfun) GUARDED({ (void) ch_close_cfun(1, &ch); });
}

static void exercise_function(JanetFunction *f, int variant, int depth) {
    Janet argv[5];
    int32_t argc = 0;
    switch (variant % 6) {
        case 0: argc = 0; break;
        case 1: argc = 1; argv[0] = janet_wrap_nil(); break;
        case 2: argc = 3; argv[0] = janet_wrap_integer(1); argv[1] = janet_wrap_number(2.5); argv[2] = janet_ckeywordv("k"); break;
        case 3: argc = 2; argv[0] = janet_wrap_function(f); argv[1] = janet_cstringv("str"); break;
        case 4: argc = 5; for (int i = 0; i < 5; i++) argv[i] = janet_wrap_array(janet_array(0)); break;
        case 5: argc = f->def ? f->def->arity : 0; if (argc > 5) argc = 5; for (int i = 0; i < argc; i++) argv[i] = janet_wrap_integer(i); break;
    }
    Janet out = janet_wrap_nil();
    JanetFiber *fiber = NULL;
    n_calls++;
    if (variant == 0) introspect_function(f);
    fiber = janet_fiber(f, 64, argc, argv);
    if (fiber == NULL) { mix(7); return; }
    janet_gcroot(janet_wrap_fiber(fiber));
    JanetSignal sig = drive(fiber, janet_wrap_nil(), &out, 0, 0);
    mix((uint32_t) sig);
    janet_gcroot(out);
    light_ops(out);
    if (depth < 2) exercise_value(out, variant + 1, depth + 1);
    /* a yielded fiber is resumed again */
    if (sig == JANET_SIGNAL_YIELD || (sig >= JANET_SIGNAL_USER0 && sig <= JANET_SIGNAL_USER9)) {
        Janet out2 = janet_wrap_nil();
        sig = drive(fiber, janet_wrap_integer(42), &out2, 0, 0);
        mix((uint32_t) sig);
    }
    collect_now();
    if (fiber->stacktop < 20000) light_ops(janet_wrap_fiber(fiber));
    janet_gcunroot(out);
    janet_gcunroot(janet_wrap_fiber(fiber));
}

static void exercise_fiber(JanetFiber *fiber, int variant, int depth) {
    Janet out = janet_wrap_nil();
    JanetSignal sig;
    (void) depth;
    janet_gcroot(janet_wrap_fiber(fiber));
    mix((uint32_t) janet_fiber_status(fiber));
    introspect_fiber(fiber);
    switch (variant % 5) {
        case 4: sig = JANET_SIGNAL_OK; GUARDED({ want_suspend = 1; out = janet_next(janet_wrap_fiber(fiber), janet_wrap_nil()); }); want_suspend = 0; janet_vm.auto_suspend = 0; break;
        default:
        case 0: sig = drive(fiber, janet_wrap_nil(), &out, 0, 0); break;
        case 1: sig = drive(fiber, janet_wrap_integer(7), &out, 0, 0); break;
        case 2: sig = drive(fiber, janet_cstringv("cancelled"), &out, 1, JANET_SIGNAL_ERROR); break;
        case 3: {
            /* debug/step */
            JanetTryState ts;
            sig = JANET_SIGNAL_ERROR;
            if (janet_try(&ts) == JANET_SIGNAL_OK) {
                want_suspend = 1;
                sig = janet_step(fiber, janet_wrap_nil(), &out);
            }
            janet_restore(&ts);
            want_suspend = 0;
            janet_vm.auto_suspend = 0;
            break;
        }
    }
    mix((uint32_t) sig);
    janet_gcroot(out);
    light_ops(out);
    for (int i = 0; i < 3 && (sig == JANET_SIGNAL_YIELD || sig == JANET_SIGNAL_DEBUG || (sig >= JANET_SIGNAL_USER0 && sig <= JANET_SIGNAL_USER9)); i++) {
        Janet out2 = janet_wrap_nil();
        sig = drive(fiber, janet_wrap_integer(i), &out2, 0, 0);
        mix((uint32_t) sig);
    }
    collect_now();
    /* a runaway (but legal) recursion can leave millions of frames: printing / marshalling / listing them is only slow */
    if (fiber->stacktop < 20000) {
        light_ops(janet_wrap_fiber(fiber));
        introspect_fiber(fiber);
    }
    janet_gcunroot(out);
    janet_gcunroot(janet_wrap_fiber(fiber));
}

/* an accepted PEG is run: (peg/match peg text), (peg/find-all peg text), (peg/replace-all peg "r" text) on several texts */
static int is_peg(Janet x) {
    return janet_checktype(x, JANET_ABSTRACT) && !strcmp(janet_abstract_type(janet_unwrap_abstract(x))->name, "core/peg");
}
static void exercise_peg(Janet peg) {
    static const char *texts[] = {"", "a", "aaa", "a1b22c333 xyz", "q 12 34 -1", "zzzzzzzzzzzzzzzzzzzzzzzzzzzzzzzz", "\x01\x02\x03\x04\xff\xfe\x80\x7f", "hello world 0123456789", NULL};
    n_pegs++;
    for (int i = 0; texts[i]; i++) {
        Janet argv[4];
        Janet a2[3];
        argv[0] = peg; argv[1] = janet_cstringv(texts[i]); argv[2] = janet_wrap_integer(0); argv[3] = janet_ckeywordv("arg");
        a2[0] = peg; a2[1] = janet_cstringv("r"); a2[2] = argv[1];
        for (int which = 0; which < 3; which++) {
            if (which > 0 && i >= 5) break;
            /* snapshot of what janet_try changes, restored by hand when the call is abandoned */
            JanetTryState snap;
            snap.stackn = janet_vm.stackn; snap.gc_handle = janet_vm.gc_suspend; snap.vm_fiber = janet_vm.fiber;
            snap.vm_jmp_buf = janet_vm.signal_buf; snap.vm_return_reg = janet_vm.return_reg; snap.coerce_error = janet_vm.coerce_error;
            if (sigsetjmp(peg_jmp, 1) == 0) {
                peg_ticks = 0; peg_armed = 1;
                if (which == 0 && peg_match_cfun) GUARDED({ Janet r = peg_match_cfun(4, argv); mix((uint32_t) janet_type(r)); });
                if (which == 1 && peg_findall_cfun) GUARDED({ Janet r = peg_findall_cfun(2, argv); mix((uint32_t) janet_type(r)); });
                if (which == 2 && peg_replace_cfun) GUARDED({ Janet r = peg_replace_cfun(3, a2); mix((uint32_t) janet_type(r)); });
                peg_armed = 0;
            } else {
                /* The call was abandoned by siglongjmp out of the tick handler, possibly in the middle of realloc / of an
                 * array update inside peg_rule: the heap of this process can no longer be trusted (a later collection would
                 * free a capture array twice).  Answer for this input, then restart the process: exit status 96 with the
                 * marker below tells checks/C10.py to continue with the next input - this is not a finding. */
                n_peg_timeouts++;
                printf("ok peg-budget\n");
                fflush(stdout);
                static const char msg[] = "\nPEG-BUDGET-RESTART\n";
                (void) !write(2, msg, sizeof msg - 1);
                _exit(96);
            }
        }
    }
}

/* walk a decoded value, exercising every function / fiber reachable through data containers (bounded) */
static int walk_budget;
static void exercise_value(Janet x, int variant, int depth) {
    if (walk_budget-- <= 0) return;
    switch (janet_type(x)) {
        case JANET_FUNCTION:
            exercise_function(janet_unwrap_function(x), variant, depth);
            break;
        case JANET_FIBER:
            exercise_fiber(janet_unwrap_fiber(x), variant, depth);
            break;
        case JANET_ABSTRACT:
            if (variant == 0 && is_channel(x)) exercise_channel(x);
            break;
        case JANET_ARRAY:
        case JANET_TUPLE: {
            const Janet *vals; int32_t len;
            janet_indexed_view(x, &vals, &len);
            for (int32_t i = 0; i < len && i < 8; i++)
                if (depth < 3 && janet_type(vals[i]) >= JANET_ARRAY) exercise_value(vals[i], variant, depth + 1);
            break;
        }
        case JANET_TABLE:
        case JANET_STRUCT: {
            const JanetKV *kvs; int32_t len, cap;
            janet_dictionary_view(x, &kvs, &len, &cap);
            int seen = 0;
            for (int32_t i = 0; i < cap && seen < 8; i++) {
                if (janet_checktype(kvs[i].key, JANET_NIL)) continue;
                seen++;
                if (depth < 3 && janet_type(kvs[i].key) >= JANET_ARRAY) exercise_value(kvs[i].key, variant, depth + 1);
                if (depth < 3 && janet_type(kvs[i].value) >= JANET_ARRAY) exercise_value(kvs[i].value, variant, depth + 1);
            }
            break;
        }
        default:
            break;
    }
}

static int has_code(Janet x, int depth) {
    switch (janet_type(x)) {
        case JANET_FUNCTION: case JANET_FIBER: return 1;
        case JANET_ABSTRACT: return is_channel(x);
        case JANET_ARRAY: case JANET_TUPLE: {
            const Janet *vals; int32_t len;
            janet_indexed_view(x, &vals, &len);
            for (int32_t i = 0; i < len && i < 8; i++) if (depth < 3 && has_code(vals[i], depth + 1)) return 1;
            return 0;
        }
        case JANET_TABLE: case JANET_STRUCT: {
            const JanetKV *kvs; int32_t len, cap;
            janet_dictionary_view(x, &kvs, &len, &cap);
            for (int32_t i = 0; i < cap; i++) {
                if (janet_checktype(kvs[i].key, JANET_NIL)) continue;
                if (depth < 3 && (has_code(kvs[i].key, depth + 1) || has_code(kvs[i].value, depth + 1))) return 1;
            }
            return 0;
        }
        default: return 0;
    }
}

static const char *tname(Janet x) { return janet_type_names[janet_type(x)]; }

static void emit_remarshal(Janet x) {
    JanetTryState ts;
    if (janet_try(&ts) == JANET_SIGNAL_OK) {
        JanetBuffer *b = janet_buffer(64);
        janet_marshal(b, x, rreg, 0);
        for (int32_t i = 0; i < b->count && i < 4096; i++) printf("%02x", b->data[i]);
    } else {
        printf("unmarshallable");
    }
    janet_restore(&ts);
}

static void do_unmarshal(const uint8_t *bytes, size_t len, int exercise) {
    Janet x;
    char cls[128];
    int ok = try_unmarshal(bytes, len, &x, cls, sizeof cls);
    if (!ok) {
        printf("rej %s\n", cls);
        if (gc_every && (n_inputs % gc_every) == 0) collect_now();
        return;
    }
    n_acc++;
    janet_gcroot(x);
    summary_hash = 2166136261u;
    printf("acc %s ", tname(x));
    if (!exercise) {
        emit_remarshal(x);
        printf("\n");
        janet_gcunroot(x);
        collect_now();
        return;
    }
    light_ops(x);
    /* collect right away: the marker walks every object the image created */
    collect_now();
    light_ops(x);
    int code = has_code(x, 0);
    if (is_peg(x)) { exercise_peg(x); collect_now(); }
    if (is_channel(x)) { exercise_channel(x); collect_now(); light_ops(x); }
    janet_gcunroot(x);
    if (code) {
        int nvar = 6;
        for (int v = 0; v < nvar; v++) {
            Janet y;
            if (!try_unmarshal(bytes, len, &y, NULL, 0)) break;
            janet_gcroot(y);
            walk_budget = 12;
            exercise_value(y, v, 0);
            janet_gcunroot(y);
            collect_now();
        }
    }
    collect_now();
    printf("ok\n");
}

/* m: what the byte-level Lean model predicts - accept / reject, the error class, bytes consumed, type of the value */
static void do_unmarshal_plain(const uint8_t *bytes, size_t len) {
    JanetTryState ts;
    volatile int ok = 0;
    const uint8_t *next = NULL;
    Janet x = janet_wrap_nil();
    if (janet_try(&ts) == JANET_SIGNAL_OK) {
        x = janet_unmarshal(bytes, len, 0, NULL, &next);
        ok = 1;
    }
    janet_restore(&ts);
    if (!ok) {
        char cls[128];
        errclass(ts.payload, cls, sizeof cls);
        printf("rej %s\n", cls);
    } else {
        n_acc++;
        printf("acc %ld %s\n", (long)(next - bytes), tname(x));
    }
    if (gc_every && (n_inputs % gc_every) == 0) collect_now();
}

/* e <hex>: unmarshal a function image, then run the real janet_env_valid on its first environment (an untrusted on-stack
 * environment has a negative offset) -> "env <offset before> <length before> -> <result> <offset> <length>" */
static void do_env_valid(const uint8_t *bytes, size_t len) {
    JanetTryState ts;
    volatile int ok = 0;
    Janet x = janet_wrap_nil();
    if (janet_try(&ts) == JANET_SIGNAL_OK) {
        x = janet_unmarshal(bytes, len, 0, NULL, NULL);
        ok = 1;
    }
    janet_restore(&ts);
    if (!ok) {
        char cls[128];
        errclass(ts.payload, cls, sizeof cls);
        printf("rej %s\n", cls);
    } else if (!janet_checktype(x, JANET_FUNCTION) || janet_unwrap_function(x)->def->environments_length < 1 ||
               janet_unwrap_function(x)->envs[0] == NULL) {
        printf("noenv\n");
    } else {
        JanetFuncEnv *env = janet_unwrap_function(x)->envs[0];
        int32_t o0 = env->offset, l0 = env->length;
        int r = janet_env_valid(env);
        printf("env %d %d -> %d %d %d\n", o0, l0, r, env->offset, env->length);
    }
    if (gc_every && (n_inputs % gc_every) == 0) collect_now();
}

static void do_asm(const uint8_t *text, size_t len) {
    JanetParser p;
    janet_parser_init(&p);
    for (size_t i = 0; i < len; i++) janet_parser_consume(&p, text[i]);
    janet_parser_eof(&p);
    if (!janet_parser_has_more(&p)) {
        printf("rej parse\n");
        janet_parser_deinit(&p);
        return;
    }
    Janet form = janet_parser_produce(&p);
    janet_parser_deinit(&p);
    janet_gcroot(form);
    JanetTryState ts;
    volatile int ok = 0;
    JanetAssembleResult res;
    memset(&res, 0, sizeof res);
    Janet fv = janet_wrap_nil();
    if (janet_try(&ts) == JANET_SIGNAL_OK) {
        /* the core function (asm x), exactly as janet code calls it */
        fv = asm_cfun(1, &form);
        ok = 1;
    }
    janet_restore(&ts);
    if (!ok) {
        char cls[128];
        errclass(ts.payload, cls, sizeof cls);
        printf("rej %s\n", cls);
        if (gc_every && (n_inputs % gc_every) == 0) collect_now();
        janet_gcunroot(form);
        return;
    }
    if (!janet_checktype(fv, JANET_FUNCTION)) {
        printf("rej not-a-function\n");
        janet_gcunroot(form);
        return;
    }
    n_acc++;
    JanetFunction *f = janet_unwrap_function(fv);
    res.funcdef = f->def;
    janet_gcroot(fv);
    summary_hash = 2166136261u;
    printf("acc function ");
    light_ops(fv);
    collect_now();
    if (do_exercise) {
        for (int v = 0; v < 6; v++) {
            walk_budget = 12;
            exercise_value(fv, v, 0);
            collect_now();
        }
    }
    /* disasm . asm round trip must itself be accepted */
    GUARDED({ Janet d = janet_disasm(res.funcdef); JanetAssembleResult r2 = janet_asm(d, 0); mix((uint32_t) r2.status); });
    janet_gcunroot(fv);
    janet_gcunroot(form);
    collect_now();
    printf("ok\n");
}

static char cur_op;
static const uint8_t *cur_bytes;
static size_t cur_len;
/* the body of one input runs as a cfunction on a real fiber, exactly like (unmarshal ...), (resume ...), (gccollect) called
 * from janet code: janet_vm.fiber / root_fiber are set */
static Janet harness_run(int32_t argc, Janet *argv) {
    (void) argc; (void) argv;
    if (cur_op == 'u') do_unmarshal(cur_bytes, cur_len, do_exercise);
    else if (cur_op == 'U') do_unmarshal(cur_bytes, cur_len, 0);
    else if (cur_op == 'a') do_asm(cur_bytes, cur_len);
    else if (cur_op == 'm') do_unmarshal_plain(cur_bytes, cur_len);
    else if (cur_op == 'e') do_env_valid(cur_bytes, cur_len);
    else printf("bad-op\n");
    return janet_wrap_nil();
}

/* v <sc> <arity> <vararg> <nconst> <ndefs> <nenvs> <hex u32 LE words>  ->  return code of the real janet_verify */
static void do_verify(const char *args) {
    long sc, ar, va, nc, nd, ne;
    int used = 0;
    if (sscanf(args, "%ld %ld %ld %ld %ld %ld %n", &sc, &ar, &va, &nc, &nd, &ne, &used) < 6) { printf("bad-op\n"); return; }
    const char *h = args + used;
    size_t hl = strlen(h), n = hl / 8;
    JanetFuncDef *def = janet_funcdef_alloc();
    uint32_t *bc = malloc(n ? n * 4 : 4);
    for (size_t i = 0; i < n; i++) {
        uint32_t w = 0;
        for (int k = 0; k < 4; k++) w |= (uint32_t)(hexval(h[8 * i + 2 * k]) * 16 + hexval(h[8 * i + 2 * k + 1])) << (8 * k);
        bc[i] = w;
    }
    def->slotcount = (int32_t) sc; def->arity = (int32_t) ar; def->min_arity = 0; def->max_arity = INT32_MAX;
    def->flags = va ? JANET_FUNCDEF_FLAG_VARARG : 0;
    def->constants_length = (int32_t) nc; def->defs_length = (int32_t) nd; def->environments_length = (int32_t) ne;
    def->bytecode = bc; def->bytecode_length = (int32_t) n;
    printf("%d\n", janet_verify(def));
    /* leave the def harmless for the collector */
    def->constants_length = 0; def->defs_length = 0; def->environments_length = 0; def->bytecode = NULL; def->bytecode_length = 0;
    free(bc);
}

int main(int argc, char **argv) {
    (void) argc; (void) argv;
    janet_init();
    build_registry();
    JanetTable *henv = janet_core_env(NULL);
    janet_def(henv, "harness-run", janet_wrap_cfunction(harness_run), "");
    Janet runner = janet_wrap_nil();
    janet_dostring(henv, "(fn runner [] (harness-run))", "harness", &runner);
    if (!janet_checktype(runner, JANET_FUNCTION)) { fprintf(stderr, "harness: cannot build runner\n"); return 3; }
    janet_gcroot(runner);
    struct sigaction sa;
    memset(&sa, 0, sizeof sa);
    sa.sa_handler = on_tick;
    sa.sa_flags = SA_RESTART;   /* the tick must not make getline() on stdin fail with EINTR */
    sigaction(SIGPROF, &sa, NULL);
    struct itimerval it;
    it.it_interval.tv_sec = 0; it.it_interval.tv_usec = 5000;
    it.it_value = it.it_interval;
    setitimer(ITIMER_PROF, &it, NULL);      /* CPU time (user + system) of this process */
    struct sigaction sw;
    memset(&sw, 0, sizeof sw);
    sw.sa_handler = on_wall_tick;
    sw.sa_flags = SA_RESTART;
    sigaction(SIGALRM, &sw, NULL);
    struct itimerval iw;
    iw.it_interval.tv_sec = 1; iw.it_interval.tv_usec = 0;
    iw.it_value = iw.it_interval;
    setitimer(ITIMER_REAL, &iw, NULL);

    char *line = NULL; size_t cap = 0; ssize_t n;
    for (;;) {
        errno = 0;
        n = getline(&line, &cap, stdin);
        if (n <= 0) {
            if (errno == EINTR) { clearerr(stdin); continue; }
            break;
        }
        while (n > 0 && (line[n - 1] == '\n' || line[n - 1] == '\r' || line[n - 1] == ' ')) line[--n] = 0;
        if (n < 1) { printf("bad-op\n"); fflush(stdout); continue; }
        char op = line[0];
        const char *h = line + 1;
        while (*h == ' ') h++;
        if (op == 'v') { do_verify(h); fflush(stdout); continue; }
        if (op == 'g') { gc_every = atoi(h); printf("ok\n"); fflush(stdout); continue; }
        if (op == 'x') { do_exercise = atoi(h); printf("ok\n"); fflush(stdout); continue; }
        size_t hl = strlen(h);
        size_t len = hl / 2;
        /* exact-size heap block so that ASan sees any read past the end of the input */
        uint8_t *bytes = malloc(len ? len : 1);
        int bad = hl & 1;
        for (size_t i = 0; i < len; i++) {
            int a = hexval(h[2 * i]), b = hexval(h[2 * i + 1]);
            if (a < 0 || b < 0) bad = 1;
            bytes[i] = (uint8_t)(a * 16 + b);
        }
        ticks = 0;
        wall_ticks = 0;
        n_inputs++;
        if (bad) printf("bad-op\n");
        else {
            Janet out;
            JanetFiber *rf = NULL;
            cur_op = op; cur_bytes = bytes; cur_len = len;
            JanetSignal sig = janet_pcall(janet_unwrap_function(runner), 0, NULL, &out, &rf);
            if (sig != JANET_SIGNAL_OK) printf("harness-signal %d %s\n", (int) sig, (const char *) janet_to_string(out));
        }
        fflush(stdout);
        free(bytes);
    }
    free(line);
    fprintf(stderr, "pegs=%ld peg_timeouts=%ld ", n_pegs, n_peg_timeouts);
    fprintf(stderr, "stats inputs=%ld accepted=%ld calls=%ld resumes=%ld interrupts=%ld\n", n_inputs, n_acc, n_calls, n_resumes, n_interrupts);
    janet_deinit();
    return 0;
}
