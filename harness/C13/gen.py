"""C13 generators and the direct oracle (exact integer/rational arithmetic, independent of the Lean model).

A *structured* literal is built from (sign, radix, integer digits, fraction digits, exponent) so its exact value is known
by construction as  M * radix^E * 2^P  (M integer);  no parser is involved on the oracle side.
"""
import struct

DIGS = "0123456789abcdefghijklmnopqrstuvwxyz"
DBL_MAX_BITS = 0x7FEFFFFFFFFFFFFF
INF_BITS = 0x7FF0000000000000


def to_radix(n, b, upper=False):
    if n == 0:
        return "0"
    s = []
    while n:
        s.append(DIGS[n % b])
        n //= b
    t = "".join(reversed(s))
    return t.upper() if upper else t


def bits_of_float(x):
    return struct.unpack(">Q", struct.pack(">d", x))[0]


def float_of_bits(u):
    return struct.unpack(">d", struct.pack(">Q", u))[0]


def decode(bits):
    """finite magnitude bits -> (m, e): value = m * 2^e"""
    ef = (bits >> 52) & 0x7FF
    f = bits & ((1 << 52) - 1)
    return (f, -1074) if ef == 0 else (f | (1 << 52), ef - 1075)


# ------------------------------------------------------------------------------------------------ oracle
def neighbours(num, den):
    """The two doubles adjacent to the positive rational num/den, as magnitude bit patterns (lo, hi, exact).
    lo = largest double <= v (DBL_MAX if v is beyond), hi = smallest double >= v (inf beyond DBL_MAX)."""
    assert num > 0 and den > 0
    # e = floor(log2 v)
    e = num.bit_length() - den.bit_length()
    # v >= 2^e ?
    if (num << max(0, -e)) < (den << max(0, e)):
        e -= 1
    if e >= 1024:
        return DBL_MAX_BITS, INF_BITS, False
    q = max(e - 52, -1074)
    if q >= 0:
        t, r = divmod(num, den << q)
    else:
        t, r = divmod(num << (-q), den)
    lo = (q + 1074) * (1 << 52) + t
    if r == 0:
        return lo, lo, True
    return lo, lo + 1, False


def nearest_up(num, den):
    """bit pattern of the double nearest to num/den with exact ties going up in magnitude (what the reader computes
    before ldexp), or None outside the normal range (there ldexp rounds a second time)"""
    e = num.bit_length() - den.bit_length()
    if (num << max(0, -e)) < (den << max(0, e)):
        e -= 1
    if e >= 1023 or e < -1022:
        return None
    q = e - 52
    if q >= 0:
        t, r, d = divmod(num, den << q) + (den << q,)
    else:
        t, r, d = divmod(num << (-q), den) + (den,)
    if 2 * r >= d:
        t += 1
    return (q + 1074) * (1 << 52) + t


def nearest_expected(M, b, E, P):
    if M == 0:
        return None
    lo, hi = log2_bounds(M, b, E, P)
    if lo > 1030 or hi < -1080:
        return None
    num, den = M, 1
    if E >= 0:
        num *= b ** E
    else:
        den *= b ** (-E)
    if P >= 0:
        num <<= P
    else:
        den <<= -P
    return nearest_up(num, den)


def log2_bounds(M, b, E, P):
    """cheap bounds on floor(log2(M * b^E * 2^P)) to avoid building astronomically large powers"""
    lb = (b.bit_length() - 1)          # floor(log2 b)
    ub = b.bit_length()                # > log2 b
    lo = (M.bit_length() - 1) + (E * lb if E >= 0 else E * ub) + P
    hi = M.bit_length() + (E * ub if E >= 0 else E * lb) + P
    return lo, hi


def expected(M, b, E, P):
    """(lo, hi, exact) magnitude bit patterns for the value M * b^E * 2^P (M >= 0)."""
    if M == 0:
        return 0, 0, True
    lo, hi = log2_bounds(M, b, E, P)
    if lo > 1030:
        return DBL_MAX_BITS, INF_BITS, False
    if hi < -1080:
        return 0, 1, False
    num, den = M, 1
    if E >= 0:
        num *= b ** E
    else:
        den *= b ** (-E)
    if P >= 0:
        num <<= P
    else:
        den <<= -P
    return neighbours(num, den)


def judge(res, neg, M, b, E, P):
    """res: 'err' or 'ok <bits16>' from the implementation. Returns None if fine, else a reason string."""
    if not res.startswith("ok "):
        return "valid literal rejected"
    bits = int(res[3:], 16)
    sign = bits >> 63
    mag = bits & ((1 << 63) - 1)
    if sign != (1 if neg else 0):
        return "wrong sign bit"
    lo, hi, exact = expected(M, b, E, P)
    if exact and mag != lo:
        return "value is representable (%016x) but result differs" % lo
    if mag != lo and mag != hi:
        return "result is neither adjacent double (%016x / %016x)" % (lo, hi)
    return None


# ------------------------------------------------------------------------------------------------ literal generator
def _underscores(rng, s, p_num, p_den):
    """insert '_' after some digit characters (never first)"""
    out = []
    for i, ch in enumerate(s):
        out.append(ch)
        if ch != "." and rng.chance(p_num, p_den):
            out.append("_" * (1 if rng.chance(3, 4) else 2))
    return "".join(out)


def pick_radix(rng):
    r = rng.below(100)
    if r < 35:
        return 10
    if r < 50:
        return 16
    if r < 58:
        return 2
    if r < 64:
        return 36
    if r < 68:
        return 8
    return rng.range(2, 36)


def rand_digits(rng, b, n, kind=None):
    kind = rng.below(10) if kind is None else kind
    if n <= 0:
        return ""
    if kind == 0:
        return DIGS[b - 1] * n                      # all max digits
    if kind == 1:
        return DIGS[rng.below(b)] + "0" * (n - 1)   # one digit then zeros
    if kind == 2:
        return "0" * (n - 1) + DIGS[rng.range(1, b - 1)]
    return "".join(DIGS[rng.below(b)] for _ in range(n))


def mant_len(rng, tier_long):
    r = rng.below(100)
    if r < 40:
        return rng.range(1, 8)
    if r < 70:
        return rng.range(9, 25)
    if r < 88:
        return rng.range(26, 120)
    if r < 97:
        return rng.range(121, 400)
    return rng.range(401, tier_long)


def render(rng, neg_sign, b, ip, fp, E, marker_pref=None, use_base_param=None, P=None):
    """Build the literal text. E is the exponent in radix b (None: no exponent part); P the binary exponent of a hex 'p'
    literal (only b == 16).  Returns (text, base_param)."""
    upper = rng.chance(1, 4)
    ip2, fp2 = (ip.upper(), fp.upper()) if upper else (ip, fp)
    body = ip2
    if fp2 != "" or rng.chance(1, 12):
        body += "." + fp2
    if rng.chance(1, 6):
        body = _underscores(rng, body, 1, 5)
        if body.startswith("_"):
            body = body[1:]
    # '_' must not come before the first digit (also not right after a leading '.')
    if body.startswith("._"):
        body = "." + body[2:].lstrip("_")
    use_param = rng.chance(1, 5) if use_base_param is None else use_base_param
    if use_param:
        prefix, param = "", b
    else:
        param = 0
        if b == 10 and rng.chance(9, 10):
            prefix = ""
        elif b == 16 and rng.chance(2, 3):
            prefix = "0x"
        elif b < 10 and rng.chance(1, 5):
            prefix = "0%dr" % b
        else:
            prefix = "%dr" % b
    exp = ""
    if P is not None:
        exp = rng.choice("pP") + rng.choice(["", "+", "-"][0:2] if P >= 0 else ["-"]) + "0" * (rng.below(3) if rng.chance(1, 4) else 0) + str(abs(P))
    elif E is not None:
        if b == 10 and (marker_pref != "&") and rng.chance(4, 5):
            mk = rng.choice("eE")
        else:
            mk = "&"
        sg = "-" if E < 0 else rng.choice(["", "+"])
        et = to_radix(abs(E), b, upper=rng.chance(1, 3))
        exp = mk + sg + "0" * (rng.below(3) if rng.chance(1, 4) else 0) + et
    return neg_sign + prefix + body + exp, param


def structured(rng, long_max=999):
    """one random structured literal: dict(text, base, neg, M, b, E, P)"""
    b = pick_radix(rng)
    n = mant_len(rng, long_max)
    nfrac = 0
    r = rng.below(10)
    if r < 4:
        nfrac = 0
    elif r < 8:
        nfrac = rng.below(n + 1)
    else:
        nfrac = n
    lead0 = rng.below(4) if rng.chance(1, 4) else 0
    trail0 = rng.below(30) if rng.chance(1, 8) else 0
    digs = rand_digits(rng, b, n)
    ip, fp = digs[:n - nfrac], digs[n - nfrac:]
    ip = "0" * lead0 + ip
    if nfrac or rng.chance(1, 2):
        fp = fp + "0" * trail0
    else:
        ip = ip + "0" * trail0
    if ip == "" and fp == "":
        ip = "0"
    M = int((ip + fp) or "0", b)
    fl = len(fp)
    sign = rng.choice(["", "", "-", "+"])
    # exponent: choose a target binary magnitude class, then derive E
    E = None
    P = None
    hexp = b == 16 and rng.chance(1, 3)
    cls = rng.below(20)
    if cls < 4:
        pass  # no exponent
    else:
        l2b = b.bit_length() - 0.5
        cur = (M.bit_length() if M else 1) - fl * l2b
        if cls < 9:
            tgt = rng.range(-60, 60)
        elif cls < 12:
            tgt = rng.choice([1024, 1023, 1025, 1000, 1030]) + rng.range(-3, 3)
        elif cls < 15:
            tgt = rng.choice([-1074, -1075, -1022, -1023, -1060, -1080, -1100]) + rng.range(-3, 3)
        elif cls < 17:
            tgt = rng.range(-1100, 1100)
        elif cls < 18:
            tgt = rng.choice([2000, -2000, 5000, -5000, 10 ** 6, -10 ** 6, 10 ** 9, -10 ** 9, 10 ** 12, -10 ** 12])
        else:
            tgt = rng.range(-40, 40) + cur
        if hexp:
            P = int(tgt - cur)
        else:
            E = int((tgt - cur) / l2b)
    text, param = render(rng, sign, b, ip, fp, E, P=P)
    if hexp:
        # 0x<ip>.<fp>p<P> = M * 16^-fl * 2^P
        return dict(text=text, base=param, neg=sign == "-", M=M, b=2, E=-4 * fl, P=(P or 0), kind="structured-hexp")
    return dict(text=text, base=param, neg=sign == "-", M=M, b=b, E=(E or 0) - fl, P=0, kind="structured")


def _exact_in_radix(num, den_pow2, b):
    """digits (ip, fp) of the dyadic rational num / 2^den_pow2 in an even radix b (finite expansion)"""
    ipart = num >> den_pow2
    frac = num - (ipart << den_pow2)
    fp = []
    den = 1 << den_pow2
    while frac:
        frac *= b
        d, frac = divmod(frac, den)
        fp.append(DIGS[d])
    return to_radix(ipart, b), "".join(fp)


def from_double(rng, bits=None, mode=None):
    """literal denoting exactly a double, or the midpoint of two adjacent doubles, or that +- one unit in the last
    written place: the hard cases for the rounding step.  Even radices only (finite expansions)."""
    if bits is None:
        r = rng.below(10)
        if r < 5:
            bits = rng.below(0x7FF0000000000000)
        elif r < 7:
            bits = rng.below(1 << 53)                       # subnormals and the smallest normals
        elif r < 8:
            bits = (rng.range(1, 2046) << 52) + rng.choice([0, 1, (1 << 52) - 1])   # powers of two and their neighbours
        else:
            bits = ((1023 + rng.range(-70, 70)) << 52) + rng.below(1 << 52)
    m, e = decode(bits)
    mode = rng.below(4) if mode is None else mode
    # value = (2m + k) * 2^(e-1), k = 0 exact, k = 1 midpoint to the next double
    k = 0 if mode == 0 else 1
    num2, e2 = 2 * m + k, e - 1
    b = rng.choice([10, 10, 10, 2, 4, 6, 8, 12, 16, 20, 32, 36])
    if e2 >= 0:
        ip, fp = to_radix(num2 << e2, b), ""
    else:
        ip, fp = _exact_in_radix(num2, -e2, b)
    if len(ip) + len(fp) > 1100:
        b = 16
        ip, fp = (to_radix(num2 << e2, b), "") if e2 >= 0 else _exact_in_radix(num2, -e2, b)
    if mode >= 2:
        # perturb: append a digit (just above) or decrement the last digit and append max digits (just below)
        if mode == 2:
            fp = fp + "0" * rng.below(3) + DIGS[rng.range(1, b - 1)]
        else:
            s = ip + fp
            v = int(s, b) - 1
            if v < 0:
                v = 0
            s2 = to_radix(v, b).rjust(len(s), "0")
            ip, fp = s2[:len(ip)], s2[len(ip):] + DIGS[b - 1] * rng.range(1, 4)
    # optionally move the point and compensate with an exponent:  value = int(ip+fp) * b^-fl
    E = None
    fl = len(fp)
    if rng.chance(1, 2):
        full = ip + fp
        t = full.lstrip("0")
        s0 = t if t else "0"
        cut = rng.below(len(s0) + 1)
        ip, fp = s0[:cut] or "0", s0[cut:]
        E = len(fp) - fl
    M = int((ip + fp) or "0", b)
    sign = rng.choice(["", "-"])
    text, param = render(rng, sign, b, ip, fp, E)
    return dict(text=text, base=param, neg=sign == "-", M=M, b=b, E=(E or 0) - len(fp), P=0, kind="from-double")


def near_overflow_long(rng, long_max=999):
    """long mantissa whose value is just inside / outside the double range (size estimate in convert())"""
    b = rng.choice([36, 36, 35, 32, 30, 24, 20, 16, 10, 2, rng.range(2, 36)])
    n = rng.range(max(2, long_max - 300), long_max)
    digs = DIGS[rng.range(1, b - 1)] + rand_digits(rng, b, n - 1, kind=rng.choice([1, 3, 3]))
    M = int(digs, b)
    tgt = rng.choice([1023, 1022, 1000, 900, 1024, 1025, -1070, -1074, -1076, -1022])
    # want log2(M * b^E) ~ tgt
    import math
    E = int((tgt - M.bit_length()) / math.log2(b))
    text, param = render(rng, "", b, digs, "", E, use_base_param=False)
    return dict(text=text, base=param, neg=False, M=M, b=b, E=E, P=0, kind="long-edge")


INVALID = ["", "-", "+", ".", "-.", "_1", "1..2", "1.2.3", "..", "e5", "1e", "1e+", "1e-", "1e_5", "1e5.", "1&", "0x", "0x.", "0xg", "0x1p", "0x1p+",
           "37r1", "1r1", "01r0", "00r0", "2r2", "8r8", "10ra", "16rg", "1e5e5", "1&5&5", "--1", "+-1", "1-", "1+", "1 ", " 1", "1\x00", "\xb1", "1\xb1",
           "12r1e5", "0x1.8p1.5", "1__e", "._1", "1e0x5", "0b101", "1,5", "1r", "r5", "5r", "36r", "1e\xb5", "0x1pa", "1_0e0_", "00012r10"]
# accepted although odd (documented behaviour of the scanner): value given as (neg, M, b, E, P)
ODD_VALID = [("0r5", False, 5, 10, 0, 0), ("1r0", False, 0, 10, 0, 0), ("0_", False, 0, 10, 0, 0), ("1__", False, 1, 10, 0, 0), ("-0", True, 0, 10, 0, 0),
             ("0.", False, 0, 10, 0, 0), (".0", False, 0, 10, 0, 0), ("1.", False, 1, 10, 0, 0), (".5", False, 5, 10, -1, 0), ("-.5e1", True, 5, 10, 0, 0),
             ("0x1p-1074", False, 1, 2, 0, -1074), ("0x.8p-1073", False, 8, 2, -4, -1073), ("0x1P+4", False, 1, 2, 0, 4), ("0x10&2", False, 16, 16, 2, 0),
             ("16r1p3", False, 1, 2, 0, 3), ("15re", False, 14, 15, 0, 0), ("1e00000000000000000000005", False, 1, 10, 5, 0),
             ("1e99999999999999999999", False, 1, 10, 10 ** 12, 0), ("1e-99999999999999999999", False, 1, 10, -10 ** 12, 0),
             ("0e99999999999999999999", False, 0, 10, 0, 0),
             ("9007199254740993", False, 9007199254740993, 10, 0, 0), ("1.7976931348623157e308", False, 17976931348623157, 10, 292, 0),
             ("1.7976931348623159e308", False, 17976931348623159, 10, 292, 0), ("4.9406564584124654e-324", False, 49406564584124654, 10, -340, 0),
             ("2.4703282292062327e-324", False, 24703282292062327, 10, -340, 0), ("2.4703282292062328e-324", False, 24703282292062328, 10, -340, 0),
             ("2.2250738585072011e-308", False, 22250738585072011, 10, -324, 0), ("2.2250738585072014e-308", False, 22250738585072014, 10, -324, 0)]


def malformed(rng, seed_texts):
    """mutations of valid literals and random strings over the scanner's alphabet: (bytes, base)"""
    alphabet = b"0123456789abcdefxXrR.&eEpP_+-zZ9 \x00\xb1g/:@[`{"
    r = rng.below(10)
    if r < 6 and seed_texts:
        s = bytearray(rng.choice(seed_texts).encode("latin-1"))
        for _ in range(rng.range(1, 3)):
            op = rng.below(4)
            pos = rng.below(len(s) + 1)
            if op == 0 and s:
                del s[min(pos, len(s) - 1)]
            elif op == 1:
                s.insert(pos, rng.choice(alphabet))
            elif op == 2 and s:
                s[min(pos, len(s) - 1)] = rng.choice(alphabet)
            elif s:
                s = s[:pos]
        return bytes(s), rng.choice([0, 0, 0, 10, 16, 2, 36, rng.range(2, 36)])
    n = rng.range(0, 12)
    return bytes(rng.choice(alphabet) for _ in range(n)), rng.choice([0, 0, 10, 16, rng.range(2, 36)])


# ------------------------------------------------------------------------------------------------ 64-bit integers
def int_case(rng):
    """dict(text, value) : value is the denoted integer (any size)"""
    r = rng.below(12)
    if r < 4:
        v = rng.choice([0, 1, 2 ** 63 - 1, 2 ** 63, 2 ** 63 + 1, 2 ** 64 - 1, 2 ** 64, 2 ** 64 + 1, 2 ** 32, 2 ** 53, 10 ** 19, 10 ** 18, 2 ** 65, 2 ** 70, 36 ** 12, 36 ** 13]) + rng.range(-2, 2)
        v = abs(v)
    elif r < 8:
        v = rng.below(1 << rng.range(1, 64))
    elif r < 10:
        v = rng.below(1 << rng.range(62, 66))
    else:
        v = rng.below(1 << rng.range(64, 80))
    b = rng.choice([10, 10, 10, 16, 2, 36, 8, rng.range(2, 36)])
    neg = rng.chance(2, 5)
    if b == 10 and rng.chance(4, 5):
        prefix = ""
    elif b == 16 and rng.chance(1, 2):
        prefix = "0x"
    else:
        prefix = "%dr" % b
    body = "0" * (rng.below(4) if rng.chance(1, 4) else 0) + to_radix(v, b, upper=rng.chance(1, 3))
    if rng.chance(1, 5):
        body = _underscores(rng, body, 1, 4)
    if rng.chance(1, 60):
        body = "0" * rng.range(100, 160) + body
    sign = "-" if neg else rng.choice(["", "", "+"])
    return dict(text=sign + prefix + body, value=-v if neg else v, neg=neg)


INT_INVALID = ["", "-", "+", "_1", "1.0", "1e5", "0x", "37r1", "1r1", "2r2", "1 ", "\xb1", "1\xb1", "0x1p3", "12:s", "1&2"]


def judge_int(res, text, value, neg, signed):
    """res from janet_scan_int64 / janet_scan_uint64 on a *valid* integer literal text"""
    if signed:
        inrange = -2 ** 63 <= value <= 2 ** 63 - 1
    else:
        inrange = 0 <= value <= 2 ** 64 - 1 and not neg       # "-0" is rejected by the unsigned scanner (sign test), allowed: rejected
    if res.startswith("ok "):
        got = int(res[3:])
        if got != value:
            return "accepted with wrong value %d (denoted %d)" % (got, value)
        if not inrange:
            return "out-of-range text accepted"
        return None
    # rejected
    if inrange and len(text) <= 150 and not (not signed and neg):
        return "in-range text rejected"
    return None


# ------------------------------------------------------------------------------------------------ doubles for printing
def print_doubles(rng, n):
    out = [0, 1 << 63, 1, 2, (1 << 52) - 1, 1 << 52, (1 << 52) + 1, DBL_MAX_BITS, DBL_MAX_BITS - 1, bits_of_float(1.0), bits_of_float(0.1), bits_of_float(1e22), bits_of_float(1e23),
           bits_of_float(5e-324), bits_of_float(2.2250738585072014e-308), bits_of_float(9007199254740992.0), bits_of_float(9007199254740991.0), bits_of_float(1.0 + 2.0 ** -17),
           bits_of_float(1e16), bits_of_float(1e17), bits_of_float(123456789012345678.0), bits_of_float(1e-4), bits_of_float(1e-5), bits_of_float(0.0001234), bits_of_float(99999999999999990.0)]
    for ex in range(1, 2047):
        out += [ex << 52, (ex << 52) - 1, (ex << 52) + 1]
    out += [u | (1 << 63) for u in out[:40]]
    while len(out) < n:
        r = rng.below(10)
        if r < 4:
            u = rng.below(0x7FF0000000000000)
        elif r < 6:
            u = rng.below(1 << 52) >> rng.below(52)        # subnormals of every width
        elif r < 8:
            u = ((1023 + rng.range(-60, 80)) << 52) + (rng.below(1 << 52) >> rng.below(52) << rng.below(20)) % (1 << 52)
        elif r < 9:
            u = bits_of_float(float(rng.below(1 << rng.range(1, 63))))
        else:
            # short decimals (the doubles people write): d.ddd e x
            u = bits_of_float(float("%de%d" % (rng.below(10 ** rng.range(1, 17)), rng.range(-330, 300))))
        if rng.chance(1, 3):
            u |= 1 << 63
        out.append(u & 0xFFFFFFFFFFFFFFFF)
    return [u for u in out if (u >> 52) & 0x7FF != 0x7FF]


def int_doubles(rng, n):
    """integer-valued doubles with |x| <= 2^53 (bit patterns)"""
    vals = [0, 1, 2, 10, 2 ** 53, 2 ** 53 - 1, 2 ** 53 - 2, 2 ** 52, 2 ** 52 + 1, 2 ** 31, 2 ** 32, 10 ** 15, 10 ** 15 + 1, 999999999999999, 9007199254740990]
    while len(vals) < n:
        vals.append(rng.below(1 << rng.range(1, 53)))
        if rng.chance(1, 4):
            vals.append(2 ** 53 - rng.below(1000))
    out = []
    for v in vals:
        out.append(bits_of_float(float(v)))
        out.append(bits_of_float(-float(v)))
    return out
