/* C13 correspondence / oracle harness: wrapper TU around the real strtod.c (so the file-static BigNat functions are
 * reachable too).  Same line protocol as lean/Driver/C13.lean.  Literals travel hex-encoded (any byte allowed) and are
 * copied into an exact-size heap block so that ASan sees any read past the end.
 *
 *   num <base> <hex>     janet_scan_number_base (base 0: janet_scan_number)   -> "ok <bits16>" | "err"
 *   i64 <hex>            janet_scan_int64                                      -> "ok <dec>" | "err"
 *   u64 <hex>            janet_scan_uint64                                     -> "ok <dec>" | "err"
 *   p17 <bits16>         janet_buffer_dtostr, %j, %.17g (formatc and buffer_format)  -> "<text> x5 <bits16 read back>"
 *   pint <bits16>        string / describe / %v %q %p %j %V %d of an integer-valued double -> "<text> x12 <bits16 read back>"
 *   pstr <bits16>        number_to_string_b (string, describe) on any finite double -> "<text> <text>"
 *   s64rt <dec> / u64rt <dec>   tostring of a boxed int, then scan back        -> "<text> ok <dec>" | "<text> err"
 *   big <base> <ex> <hex>   internal state after the scaling loops of convert() -> "n first d0 d1 ..." (digit array dump)
 *   st <base> <hex>         scanner plumbing state: what janet_scan_number_base hands to convert()
 *                           -> "ok <neg> <base> <ex> <n> <first> d0 d1 ..." | "err"   (captured at the log2(base) call,
 *                           the first statement of convert() that reads its arguments, before any scaling)
 *   bigz <nzeros> <headhex> <tailhex>   janet_scan_number on head + '0'*nzeros + tail (multi-megabyte literals) -> as num
 */
#include <math.h>
#include <stdint.h>
#include <stdlib.h>
#include <string.h>
struct BigNat;
static double c13_log2_spy(double x, struct BigNat *m, int32_t exponent, int negative);
#define log2(x) c13_log2_spy((x), mant, exponent, negative)
#include "strtod.c"
#undef log2
static int c13_neg, c13_seen;
static int32_t c13_base, c13_ex, c13_n;
static uint32_t c13_first;
static uint32_t *c13_digits;
static double c13_log2_spy(double x, struct BigNat *m, int32_t exponent, int negative) {
    c13_seen = 1; c13_neg = negative; c13_base = (int32_t) x; c13_ex = exponent; c13_n = m->n; c13_first = m->first_digit;
    free(c13_digits);
    c13_digits = malloc(sizeof(uint32_t) * (m->n ? m->n : 1));
    if (m->n) memcpy(c13_digits, m->digits, sizeof(uint32_t) * m->n);
    return log2(x);
}
#ifndef C13_SHAMT_BASE
#define C13_SHAMT_BASE 5
#define C13_SHAMT_DIV 4
#endif
#include <stdio.h>
#include <stdlib.h>
#include <string.h>
#include <inttypes.h>

static int hexval(int c) {
    if (c >= '0' && c <= '9') return c - '0';
    if (c >= 'a' && c <= 'f') return c - 'a' + 10;
    if (c >= 'A' && c <= 'F') return c - 'A' + 10;
    return -1;
}

static uint8_t *unhex(const char *h, int32_t *len) {
    size_t hl = strlen(h);
    uint8_t *bytes = malloc(hl / 2 ? hl / 2 : 1);
    *len = (int32_t)(hl / 2);
    for (size_t i = 0; i < hl / 2; i++) bytes[i] = (uint8_t)(hexval(h[2 * i]) * 16 + hexval(h[2 * i + 1]));
    return bytes;
}

static uint64_t bits_of(double d) { uint64_t u; memcpy(&u, &d, 8); return u; }
static double of_bits(uint64_t u) { double d; memcpy(&d, &u, 8); return d; }

static void readback(const uint8_t *s, int32_t len) {
    double d;
    uint8_t *copy = malloc(len ? len : 1);
    memcpy(copy, s, len);
    if (janet_scan_number(copy, len, &d)) printf("err"); else printf("%016" PRIx64, bits_of(d));
    free(copy);
}

int main(void) {
    janet_init();
    char *line = NULL; size_t cap = 0; ssize_t n;
    while ((n = getline(&line, &cap, stdin)) > 0) {
        while (n > 0 && (line[n-1] == '\n' || line[n-1] == '\r' || line[n-1] == ' ')) line[--n] = 0;
        if (!strncmp(line, "num ", 4)) {
            char *p = line + 4;
            long base = strtol(p, &p, 10);
            while (*p == ' ') p++;
            int32_t len; uint8_t *b = unhex(p, &len);
            double d = 0;
            int rc = base == 0 ? janet_scan_number(b, len, &d) : janet_scan_number_base(b, len, (int32_t) base, &d);
            if (rc) printf("err\n"); else printf("ok %016" PRIx64 "\n", bits_of(d));
            free(b);
        } else if (!strncmp(line, "st ", 3)) {
            char *p = line + 3;
            long base = strtol(p, &p, 10);
            while (*p == ' ') p++;
            int32_t len; uint8_t *b = unhex(p, &len);
            double d = 0;
            c13_seen = 0;
            int rc = janet_scan_number_base(b, len, (int32_t) base, &d);
            if (rc || !c13_seen) printf("err\n");
            else {
                printf("ok %d %d %d %d %u", c13_neg ? 1 : 0, c13_base, c13_ex, c13_n, c13_first);
                for (int32_t i = 0; i < c13_n; i++) printf(" %u", c13_digits[i]);
                printf("\n");
            }
            free(b);
        } else if (!strncmp(line, "bigz ", 5)) {
            char *p = line + 5;
            long nz = strtol(p, &p, 10);
            while (*p == ' ') p++;
            char *sp = strchr(p, ' ');
            if (sp) *sp = 0;
            int32_t hl, tl; uint8_t *hd = unhex(p, &hl); uint8_t *tlb = unhex(sp ? sp + 1 : "", &tl);
            uint8_t *b = malloc((size_t) hl + nz + tl + 1);
            memcpy(b, hd, hl); memset(b + hl, '0', nz); memcpy(b + hl + nz, tlb, tl);
            double d = 0;
            int rc = janet_scan_number(b, (int32_t)(hl + nz + tl), &d);
            if (rc) printf("err\n"); else printf("ok %016" PRIx64 "\n", bits_of(d));
            free(b); free(hd); free(tlb);
        } else if (!strncmp(line, "i64 ", 4) || !strcmp(line, "i64")) {
            int32_t len; uint8_t *b = unhex(line + 3 + (line[3] == ' '), &len);
            int64_t v = 0;
            if (janet_scan_int64(b, len, &v)) printf("ok %" PRId64 "\n", v); else printf("err\n");
            free(b);
        } else if (!strncmp(line, "u64 ", 4) || !strcmp(line, "u64")) {
            int32_t len; uint8_t *b = unhex(line + 3 + (line[3] == ' '), &len);
            uint64_t v = 0;
            if (janet_scan_uint64(b, len, &v)) printf("ok %" PRIu64 "\n", v); else printf("err\n");
            free(b);
        } else if (!strncmp(line, "p17 ", 4)) {
            /* every 17-significant-digit printing path: janet_buffer_dtostr, %j and %.17g through janet_formatc
             * (janet_formatbv) and through janet_buffer_format (string/format, printf) */
            uint64_t u = strtoull(line + 4, NULL, 16);
            double d = of_bits(u);
            JanetBuffer *buf = janet_buffer(0);
            janet_buffer_dtostr(buf, d);
            fwrite(buf->data, 1, buf->count, stdout);
            const char *fmts[2] = {"%j", "%.17g"};
            for (int k = 0; k < 2; k++) {
                const uint8_t *sj = k == 0 ? janet_formatc("%j", janet_wrap_number(d)) : janet_formatc("%.17g", d);
                printf(" ");
                fwrite(sj, 1, janet_string_length(sj), stdout);
            }
            for (int k = 0; k < 2; k++) {
                Janet argv[2] = { janet_cstringv(fmts[k]), janet_wrap_number(d) };
                JanetBuffer *b2 = janet_buffer(0);
                janet_buffer_format(b2, fmts[k], 0, 2, argv);
                printf(" ");
                fwrite(b2->data, 1, b2->count, stdout);
            }
            printf(" ");
            readback(buf->data, buf->count);
            printf("\n");
        } else if (!strncmp(line, "pint ", 5)) {
            /* every printing path of an integer-valued double: string (janet_to_string), describe (janet_description),
             * %v %q %p %j via janet_formatc, %v %V %q %p %j %d via janet_buffer_format */
            uint64_t u = strtoull(line + 5, NULL, 16);
            double d = of_bits(u);
            Janet x = janet_wrap_number(d);
            const uint8_t *s = janet_to_string(x);
            fwrite(s, 1, janet_string_length(s), stdout);
            const uint8_t *t = janet_description(x);
            printf(" "); fwrite(t, 1, janet_string_length(t), stdout);
            const char *f1[4] = {"%v", "%q", "%p", "%j"};
            for (int k = 0; k < 4; k++) {
                const uint8_t *sj = janet_formatc(f1[k], x);
                printf(" "); fwrite(sj, 1, janet_string_length(sj), stdout);
            }
            const char *f2[6] = {"%v", "%V", "%q", "%p", "%j", "%d"};
            for (int k = 0; k < 6; k++) {
                Janet argv[2] = { janet_cstringv(f2[k]), x };
                JanetBuffer *b2 = janet_buffer(0);
                janet_buffer_format(b2, f2[k], 0, 2, argv);
                printf(" "); fwrite(b2->data, 1, b2->count, stdout);
            }
            printf(" ");
            readback(s, janet_string_length(s));
            printf("\n");
        } else if (!strncmp(line, "pstr ", 5)) {
            /* number_to_string_b on any finite double: string and describe */
            uint64_t u = strtoull(line + 5, NULL, 16);
            Janet x = janet_wrap_number(of_bits(u));
            const uint8_t *s = janet_to_string(x);
            const uint8_t *t = janet_description(x);
            fwrite(s, 1, janet_string_length(s), stdout);
            printf(" ");
            fwrite(t, 1, janet_string_length(t), stdout);
            printf("\n");
        } else if (!strncmp(line, "s64rt ", 6)) {
            int64_t x = (int64_t) strtoll(line + 6, NULL, 10);
            const uint8_t *s = janet_to_string(janet_wrap_s64(x));
            int32_t len = janet_string_length(s);
            uint8_t *copy = malloc(len ? len : 1); memcpy(copy, s, len);
            int64_t v = 0;
            fwrite(s, 1, len, stdout);
            if (janet_scan_int64(copy, len, &v)) printf(" ok %" PRId64 "\n", v); else printf(" err\n");
            free(copy);
        } else if (!strncmp(line, "u64rt ", 6)) {
            uint64_t x = (uint64_t) strtoull(line + 6, NULL, 10);
            const uint8_t *s = janet_to_string(janet_wrap_u64(x));
            int32_t len = janet_string_length(s);
            uint8_t *copy = malloc(len ? len : 1); memcpy(copy, s, len);
            uint64_t v = 0;
            fwrite(s, 1, len, stdout);
            if (janet_scan_uint64(copy, len, &v)) printf(" ok %" PRIu64 "\n", v); else printf(" err\n");
            free(copy);
        } else if (!strncmp(line, "big ", 4)) {
            /* replicate the scaling part of convert() with the real static BigNat functions; dump the digit array */
            char *p = line + 4;
            long base = strtol(p, &p, 10);
            long ex = strtol(p, &p, 10);
            while (*p == ' ') p++;
            int32_t len; uint8_t *b = unhex(p, &len);
            struct BigNat mant; bignat_zero(&mant);
            for (int32_t i = 0; i < len; i++) bignat_muladd(&mant, (uint32_t) base, digit_lookup[b[i] & 0x7f]);
            int32_t exponent = (int32_t) ex;
            for (; exponent > 3; exponent -= 4) bignat_muladd(&mant, base * base * base * base, 0);
            for (; exponent > 1; exponent -= 2) bignat_muladd(&mant, base * base, 0);
            for (; exponent > 0; exponent -= 1) bignat_muladd(&mant, base, 0);
            if (exponent < 0) {
                /* shift amount as read from the current source by tools/gen/strtod.py (passed with -D) */
                int32_t shamt = C13_SHAMT_BASE - exponent / C13_SHAMT_DIV;
                bignat_lshift_n(&mant, shamt);
                for (; exponent < -3; exponent += 4) bignat_div(&mant, base * base * base * base);
                for (; exponent < -1; exponent += 2) bignat_div(&mant, base * base);
                for (; exponent <  0; exponent += 1) bignat_div(&mant, base);
            }
            printf("%d %u", mant.n, mant.first_digit);
            for (int32_t i = 0; i < mant.n; i++) printf(" %u", mant.digits[i]);
            printf("\n");
            janet_free(mant.digits);
            free(b);
        } else {
            printf("bad-op\n");
        }
    }
    free(line);
    janet_deinit();
    return 0;
}
