/* C08 - LD_PRELOAD shim: seeded perturbation of OS interleavings at the points where janet threads hand work to each
 * other: pthread_mutex_lock (channel lock acquisition, janet_chan_lock -> janet_os_mutex_lock) and write() on a pipe
 * (janet_ev_post_event / thread completion).  With probability ~1/4 the calling thread yields, with ~1/8 it sleeps
 * 20..400 us.  C08_PSEED selects the sequence (per thread: seed ^ thread ordinal).  Used with the plain build only
 * (sanitizer runtimes intercept the same symbols).  Same role as the proposed hook patches/hook-C08-sched-point.diff. */
#define _GNU_SOURCE
#include <dlfcn.h>
#include <pthread.h>
#include <sched.h>
#include <stdint.h>
#include <stdlib.h>
#include <unistd.h>
#include <sys/stat.h>

static int (*real_lock)(pthread_mutex_t *);
static ssize_t (*real_write)(int, const void *, size_t);
static uint64_t base_seed;
static int inited;
static int thread_counter;
static __thread uint64_t st;
static __thread int st_init;

static void init(void) {
    if (inited) return;
    real_lock = dlsym(RTLD_NEXT, "pthread_mutex_lock");
    real_write = dlsym(RTLD_NEXT, "write");
    const char *s = getenv("C08_PSEED");
    base_seed = s ? strtoull(s, NULL, 10) : 1;
    inited = 1;
}

static uint64_t next(void) {
    if (!st_init) {
        st = base_seed * 0x9E3779B97F4A7C15ull + (uint64_t) __sync_add_and_fetch(&thread_counter, 1) * 0xBF58476D1CE4E5B9ull + 1;
        st_init = 1;
    }
    st ^= st << 13; st ^= st >> 7; st ^= st << 17;
    return st;
}

static void perturb(void) {
    uint64_t r = next();
    unsigned k = (unsigned)(r >> 33) & 7;
    if (k < 2) sched_yield();
    else if (k == 2) usleep(20 + (unsigned)((r >> 40) % 380));
}

int pthread_mutex_lock(pthread_mutex_t *m) {
    init();
    perturb();
    return real_lock(m);
}

ssize_t write(int fd, const void *buf, size_t n) {
    init();
    if (n >= 32 && n <= 128) { /* self-pipe events are small fixed-size records */
        struct stat sb;
        if (fstat(fd, &sb) == 0 && S_ISFIFO(sb.st_mode)) perturb();
    }
    return real_write(fd, buf, n);
}
