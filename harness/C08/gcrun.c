/* C08 - janet runner with forced collections: like `janet script.janet`, but installs the verification call-out
 * janet_verif_gc_safepoint (gc.c / vm.c, guard JANET_VERIF) so that a collection is forced at a seeded fraction of the
 * interpreter safepoints in EVERY thread (the pointer is process-wide).  Used with the ASan build: a message that is kept
 * alive only by the run queue / a pipe event and is not marked there is freed before its receiver looks at it.
 *   C08_GCN   force a collection at about 1 of N safepoints (default 40)      C08_PSEED  seed */
#include <janet.h>
#include <stdint.h>
#include <stdio.h>
#include <stdlib.h>

extern int (*janet_verif_gc_safepoint)(void) __attribute__((weak));

static uint64_t base_seed = 1;
static unsigned gcn = 40;
static int thread_counter;
static __thread uint64_t st;

static int hook(void) {
    if (!st) st = base_seed * 0x9E3779B97F4A7C15ull + (uint64_t) __sync_add_and_fetch(&thread_counter, 1) * 0xBF58476D1CE4E5B9ull + 1;
    st ^= st << 13; st ^= st >> 7; st ^= st << 17;
    return ((st >> 33) % gcn) == 0;
}

int main(int argc, char **argv) {
    const char *s = getenv("C08_PSEED");
    if (s) base_seed = strtoull(s, NULL, 10) + 1;
    s = getenv("C08_GCN");
    if (s && atoi(s) > 0) gcn = (unsigned) atoi(s);
    if (&janet_verif_gc_safepoint) {
        janet_verif_gc_safepoint = hook;
        fprintf(stderr, "gcrun: safepoint hook installed (1/%u)\n", gcn);
    } else {
        fprintf(stderr, "gcrun: no safepoint hook in this build\n");
    }
    janet_init();
    JanetTable *env = janet_core_env(NULL);
    JanetArray *args = janet_array(argc);
    for (int i = 1; i < argc; i++) janet_array_push(args, janet_cstringv(argv[i]));
    janet_table_put(env, janet_ckeywordv("executable"), janet_cstringv(argv[0]));
    Janet mainfun;
    janet_resolve(env, janet_csymbol("cli-main"), &mainfun);
    Janet mainargs[1] = {janet_wrap_array(args)};
    JanetFiber *fiber = janet_fiber(janet_unwrap_function(mainfun), 64, 1, mainargs);
    janet_gcroot(janet_wrap_fiber(fiber));
    fiber->env = env;
    int status = janet_loop_fiber(fiber);
    janet_deinit();
    return status == JANET_STATUS_DEAD ? 0 : 1;
}
