"""C08 - producer/consumer topology generator, janet script renderer and direct oracle.

A *scenario* is a JSON-able dict (see gen_scenario).  render(scn) gives one janet program that
  * creates the thread channels, a control channel `ctl` and a supervisor channel `sup`,
  * starts every consumer (own OS thread, or a fiber of the main thread), lets it run its scripted
    "abandon" phase (waits given up by ev/with-deadline, ev/cancel or by a select that fired on another channel,
    on channels that are known to be empty: no timing-dependent outcome), waits for all of them to be ready,
  * starts every producer in its own OS thread through `ev/thread` (the calling fiber is suspended until the body ends),
  * counts receipts through `ctl`, then checks the channels are empty, closes them (consumers blocked in take/select must
    wake up: close-while-blocked) and drains the supervisor channel.
Every thread logs what it saw to its own file (no channel involved), flushing each line; oracle(scn, dir) reads those.

Nothing in the oracle depends on wall-clock time: timeouts are hang detectors only (a stalled run is diagnosed from the
logs: which message never arrived)."""
import json
import os
import shutil
import subprocess
import tempfile

GEN_VERSION = 4

# ----------------------------------------------------------------------------------------------- payloads


def gen_payload(rng, depth=0, allow_abs=True):
    """-> python description of a janet value:  ("num", x) ("str", bytes) ("kw", bytes) ("buf", bytes) ("nil",) ("bool", b)
    ("tuple", [..]) ("array", [..]) ("struct", [(k, v)..]) ("table", [(k, v)..]) ("chan", token_payload) ("lock",)"""
    k = rng.below(100)
    if depth >= 3:
        k = k % 40
    if k < 14:
        c = rng.below(8)
        if c == 0:
            return ("num", float(rng.choice([0, 1, -1, 2**31 - 1, -2**31, 2**53, -(2**53), 255, 256, 65535])))
        if c == 1:
            return ("num", rng.choice([0.5, -0.0, 1e100, -1e-300, 3.141592653589793, float("inf"), float("-inf"), 1 / 3.0]))
        return ("num", float(rng.range(-100000, 100000)))
    if k < 26:
        n = rng.choice([0, 1, 2, 5, 9, 10, 11, 40, 300, 3000]) if not rng.chance(1, 40) else 70000
        if rng.chance(1, 2):
            return ("str", bytes(rng.range(97, 122) for _ in range(min(n, 3000))) * (1 if n <= 3000 else 24))
        return ("str", bytes(rng.below(256) for _ in range(min(n, 400))))
    if k < 32:
        return ("kw", bytes(rng.range(97, 122) for _ in range(rng.range(1, 12))))
    if k < 36:
        return ("buf", bytes(rng.below(256) for _ in range(rng.range(0, 50))))
    if k < 38:
        return ("nil",)
    if k < 40:
        return ("bool", rng.chance(1, 2))
    if k < 52:
        return ("tuple", [gen_payload(rng, depth + 1, allow_abs) for _ in range(rng.range(0, 5))])
    if k < 62:
        return ("array", [gen_payload(rng, depth + 1, allow_abs) for _ in range(rng.range(0, 5))])
    if k < 72 or not allow_abs and k >= 82:
        keys = {}
        for _ in range(rng.range(0, 4)):
            kk = ("kw", bytes(rng.range(97, 122) for _ in range(rng.range(1, 6)))) if rng.chance(2, 3) else ("num", float(rng.range(0, 50)))
            keys[canon(kk)] = (kk, gen_payload(rng, depth + 1, allow_abs))
        kind = "struct" if rng.chance(1, 2) else "table"
        # nil values vanish from janet tables/structs: do not generate them as values
        return (kind, [(a, b) for a, b in keys.values() if b != ("nil",)])
    if k < 82:
        return ("tuple", [("num", float(i)) for i in range(rng.range(0, 30))])
    if k < 94:
        return ("chan", gen_payload(rng, 3, False))
    return ("lock",)


def _hex(b):
    return b.hex()


def fmt_num(x):
    # janet's `=` does not distinguish -0.0 from 0.0 (and marshal sends it as the integer 0): canonicalise
    return "%.17g" % (0.0 if x == 0 else x)


def canon(p):
    t = p[0]
    if t == "num":
        return fmt_num(p[1])
    if t == "str":
        return "s:" + _hex(p[1])
    if t == "kw":
        return "k:" + _hex(p[1])
    if t == "buf":
        return "b:" + _hex(p[1])
    if t == "nil":
        return "nil"
    if t == "bool":
        return "true" if p[1] else "false"
    if t == "tuple":
        return "(" + " ".join(canon(x) for x in p[1]) + ")"
    if t == "array":
        return "[" + " ".join(canon(x) for x in p[1]) + "]"
    if t in ("struct", "table"):
        body = " ".join(sorted(canon(k) + "=" + canon(v) for k, v in p[1]))
        return ("{" if t == "struct" else "@{") + body + "}"
    if t == "chan":
        return "<chan " + canon(p[1]) + ">"
    if t == "lock":
        return "<lock>"
    raise ValueError(t)


def _jstr(b):
    return '"' + "".join("\\x%02x" % c for c in b) + '"'


def janet_expr(p):
    t = p[0]
    if t == "num":
        x = p[1]
        if x != x:
            return "math/nan"
        if x == float("inf"):
            return "math/inf"
        if x == float("-inf"):
            return "math/-inf"
        if x == int(x) and abs(x) < 2**62:
            return ("-0.0" if str(x) == "-0.0" else str(int(x)))
        return repr(x)
    if t == "str":
        return _jstr(p[1])
    if t == "kw":
        return "(keyword " + _jstr(p[1]) + ")"
    if t == "buf":
        return "(buffer " + _jstr(p[1]) + ")"
    if t == "nil":
        return "nil"
    if t == "bool":
        return "true" if p[1] else "false"
    if t == "tuple":
        return "[" + " ".join(janet_expr(x) for x in p[1]) + "]"
    if t == "array":
        return "@[" + " ".join(janet_expr(x) for x in p[1]) + "]"
    if t == "struct":
        return "(struct " + " ".join(janet_expr(k) + " " + janet_expr(v) for k, v in p[1]) + ")"
    if t == "table":
        return "(table " + " ".join(janet_expr(k) + " " + janet_expr(v) for k, v in p[1]) + ")"
    if t == "chan":
        return "(let [c (ev/thread-chan 1)] (ev/give c " + janet_expr(p[1]) + ") c)"
    if t == "lock":
        return "(ev/lock)"
    raise ValueError(t)


def shape_of(p):
    t = p[0]
    if t in ("tuple", "array", "struct", "table"):
        return "nested"
    if t in ("chan", "lock"):
        return "abstract"
    if t in ("str", "kw", "buf"):
        return "string"
    return "scalar"

# ----------------------------------------------------------------------------------------------- scenarios


def gen_scenario(rng, size="small", features=None):
    """features: set of {"abandon", "abort", "select", "sgive", "mainfiber"} allowed in this scenario (None = any)."""
    allow = (lambda f: True) if features is None else (lambda f: f in features)
    big = size == "big"
    nch = rng.range(1, 4)
    caps = [rng.choice([0, 0, 1, 1, 2, 3, 4, 8]) for _ in range(nch)]
    nthreads_budget = rng.range(1, 8)
    ncons = rng.range(1, max(1, min(5, nthreads_budget)))
    nprod = rng.range(1, max(1, min(5, nthreads_budget - ncons + 1)))
    # make sure every channel that gets traffic has at least one consumer: assign consumers first
    cons = []
    covered = set()
    for j in range(ncons):
        k = rng.below(10)
        if allow("select") and nch >= 2 and k < 4:
            cs = list(range(nch))
            rng.shuffle(cs)
            cs = sorted(cs[:rng.range(2, nch)])
            mode = "rselect" if rng.chance(1, 3) else "select"
        else:
            cs = [rng.below(nch)]
            mode = "take"
        c = {"id": j, "chans": cs, "mode": mode, "in_main": bool(allow("mainfiber") and rng.chance(1, 6)), "abandon": [], "aborts": []}
        if allow("abandon") and rng.chance(1, 3):
            for _ in range(rng.range(1, 3)):
                c["abandon"].append([rng.choice(cs), rng.choice(["deadline", "cancel", "select"])])
        if allow("abort") and rng.chance(1, 4):
            # racing abandonment during traffic: a timer-driven fiber gives on a thread-local channel the consumer selects on too
            c["aborts"] = [rng.range(1, 30) for _ in range(rng.range(1, 12))]  # sleeps in units of 0.1 ms
            if c["mode"] == "take":
                c["mode"] = "select"
        if allow("gc") and not c["aborts"] and rng.chance(1, 3):
            c["gc"] = True
            c["fibers"] = rng.range(2, 6)
        covered.update(cs)
        cons.append(c)
    # ev/select takes the locks of all its thread channels in clause order and holds them: two threads selecting on the same
    # two channels in different orders dead-lock (known finding "deadlock-select-lock-order", corpus/C08/select_lock_order.janet).
    # The generated topologies keep one global clause order; ev/rselect (random order) only where no other multi-channel
    # selector shares two channels with it.
    for c in cons:
        if c["mode"] == "rselect":
            for d in cons:
                if d is not c and len(d["chans"]) > 1 and len(set(d["chans"]) & set(c["chans"])) > 1:
                    c["mode"] = "select"
    used = sorted(covered)
    stale_possible = {}
    for ci in range(nch):
        stale_possible[ci] = any(ci in c["chans"] and (len(c["chans"]) > 1 or c["abandon"] or c["aborts"]) for c in cons)
    prods = []
    for i in range(nprod):
        n = rng.range(1, 40 if big else 12)
        msgs = []
        burst_chan = rng.choice(used)
        for s in range(n):
            ci = burst_chan if rng.chance(2, 3) else rng.choice(used)
            msgs.append([ci, gen_payload(rng)])
        mode = "give"
        if allow("sgive") and rng.chance(1, 5) and all(caps[ci] > 0 and not stale_possible[ci] for ci, _ in msgs):
            mode = "sgive"
        gab = {}
        if mode == "give" and allow("gabandon") and rng.chance(1, 3):
            # blocked givers that give up (cancel / deadline / a select whose give clause lost): the item is already queued
            for s in range(n):
                if rng.chance(1, 3):
                    gab[str(s)] = rng.choice(["cancel", "deadline", "select"])
        prods.append({"id": i, "msgs": msgs, "mode": mode, "notes": rng.range(0, 3), "gc": rng.chance(1, 2),
                      "ret": rng.range(0, 1000), "gab": gab})
    # use after close: once everything is delivered and the channels are closed, a further OS thread tries ev/give on some of
    # them (must raise), then ANOTHER OS thread uses the same channels (ev/count, ev/take -> nil): a failed operation must
    # leave the channel usable for every other thread
    late = sorted(set(rng.below(nch) for _ in range(rng.range(1, nch)))) if rng.chance(1, 2) else []
    # failed select: when everything is delivered (channels empty, consumers parked on them) one more OS thread calls ev/select /
    # ev/rselect with 1..2 valid READ clauses followed by a malformed clause (must raise); then ANOTHER OS thread uses those
    # channels (ev/count): an operation that fails must leave no channel locked
    bad_sel = []
    if rng.chance(1, 2):
        for _ in range(rng.range(1, 2)):
            if rng.chance(1, 3):
                # a give whose value cannot be marshalled (abstract without marshal hooks) must raise and leave the channel usable
                fn = rng.choice(["give", "select-give", "select-give-multi"])
                # select-give-multi: valid read clause(s) first, then the give clause with the unpackable value
                bad_sel.append({"chans": [rng.below(nch) for _ in range(2 if fn == "select-give-multi" else 1)],
                                "bad": rng.choice(["unpackable", "unpackable-nested"]), "fn": fn})
                continue
            bad_sel.append({"chans": [rng.below(nch) for _ in range(rng.range(1, 2))], "bad": rng.choice(["keyword", "triple", "badgive", "number"]),
                            "fn": rng.choice(["select", "select", "rselect"])})
    return {"v": GEN_VERSION, "caps": caps, "cons": cons, "prods": prods,
            "stale_possible": [stale_possible[ci] for ci in range(nch)], "late_give": late, "bad_select": bad_sel}


PRELUDE = r'''
(def outdir (os/getenv "C08_OUT"))
(defn hex [s] (def b @"") (each c (string/bytes s) (buffer/format b "%02x" c)) (string b))
(defn logf [name] (file/open (string outdir "/" name) :w))
(defn wr [f & xs] (file/write f (string ;xs "\n")) (file/flush f))
(defn msg? [m] (and (tuple? m) (= 3 (length m)) (number? (m 0)) (number? (m 1))))
(defn shape [x] (def s (string/format "%q" x)) (string (type x) " " (if (> (length s) 300) (string/slice s 0 300) s)))
(defn give-shape [r] (cond (= (type r) :core/channel) "core/channel" (and (tuple? r) (= (get r 0) :give)) "give" (string "MALFORMED " (shape r))))
(defn churn []
  (gccollect)
  (def keep @[])
  (for j 0 30 (array/push keep [-1 -2 (string "garbage-" j "-" j) @{:round -1 :tag "none"} @[-3 -3 -3] (buffer "junkjunkjunk")]))
  # stay out of the event loop for a moment so that several hand-offs are picked up in one turn
  (def t0 (os/clock :monotonic))
  (while (< (- (os/clock :monotonic) t0) 0.0002))
  (length keep))
(defn canon [x]
  (case (type x)
    :number (string/format "%.17g" (if (= x 0) 0 x))
    :string (string "s:" (hex x))
    :keyword (string "k:" (hex x))
    :buffer (string "b:" (hex x))
    :nil "nil"
    :boolean (if x "true" "false")
    :tuple (string "(" (string/join (map canon x) " ") ")")
    :array (string "[" (string/join (map canon x) " ") "]")
    :struct (string "{" (string/join (sort (map (fn [[k v]] (string (canon k) "=" (canon v))) (pairs x))) " ") "}")
    :table (string "@{" (string/join (sort (map (fn [[k v]] (string (canon k) "=" (canon v))) (pairs x))) " ") "}")
    :core/channel (string "<chan " (if (= 1 (ev/count x)) (canon (ev/take x)) (string "EMPTY" (ev/count x))) ">")
    :core/lock (do (ev/acquire-lock x) (ev/release-lock x) "<lock>")
    (string "<?" (type x) ">")))
'''


def render(scn, stall=8):
    caps = scn["caps"]
    o = [PRELUDE]
    o.append("(def chans [%s])" % " ".join("(ev/thread-chan %d)" % c for c in caps))
    o.append("(def ctl (ev/thread-chan 100000))")
    o.append("(def sup (ev/thread-chan 100000))")
    o.append("(def fin (ev/thread-chan 1))")
    o.append("(defn chan-index [c] (index-of c chans))")
    total = sum(len(p["msgs"]) for p in scn["prods"])
    # ---- consumers
    for c in scn["cons"]:
        j = c["id"]
        b = []
        b.append('(def f (logf "cons-%d.txt"))' % j)
        for ci, kind in c["abandon"]:
            if kind == "deadline":
                b.append('(try (ev/with-deadline 0.002 (ev/take (chans %d))) ([e] (wr f "abandon %d deadline")))' % (ci, ci))
            elif kind == "cancel":
                b.append('(let [r (ev/spawn (ev/take (chans %d)))] (ev/sleep 0.001) (ev/cancel r "abandon") (ev/sleep 0) (wr f "abandon %d cancel"))' % (ci, ci))
            else:
                b.append('(let [lc (ev/chan 1)] (ev/spawn (ev/sleep 0.001) (ev/give lc :x)) (ev/select (chans %d) lc) (wr f "abandon %d select"))' % (ci, ci))
        mych = " ".join("(chans %d)" % ci for ci in c["chans"])
        if c["aborts"]:
            b.append("(def abortc (ev/chan 64))")
            b.append("(ev/spawn (each t [%s] (ev/sleep (* t 0.0001)) (ev/give abortc :abort)))" % " ".join(str(t) for t in c["aborts"]))
            mych += " abortc"
        b.append("(ev/give ctl [:ready %d])" % j)
        b.append("(defn consume []")
        b.append("(var alive true)")
        b.append("(while alive")
        if c["mode"] == "take":
            b.append("  (def m (ev/take (chans %d)))" % c["chans"][0])
            b.append("  (def ci %d)" % c["chans"][0])
            b.append("  (def kind (cond (nil? m) :close (msg? m) :take :malformed))")
        else:
            b.append("  (def r (ev/%s %s))" % (c["mode"], mych))
            # a select woken by a close issued from ANOTHER thread is resumed with nil (not [:close chan]); accept both
            b.append("  (def sel-ok (and (tuple? r) (>= (length r) 2) (or (= (r 0) :take) (= (r 0) :close)) (= (type (r 1)) :core/channel)))")
            b.append("  (def kind (cond (nil? r) :close (not sel-ok) :malformed (r 0)))")
            b.append("  (def ci (if sel-ok (chan-index (r 1)) (if (nil? r) :nil-from-select :malformed)))")
            b.append("  (def m (if sel-ok (get r 2) r))")
        b.append("  (cond")
        b.append('    (= kind :close) (do (wr f "closed " ci) (set alive false))')
        # a value of the wrong shape for this kind of wait: logged, counted as a receipt so that the run can complete
        b.append('    (= kind :malformed) (do (wr f "malformed " (shape m)) (ev/give ctl [:got]))')
        b.append('    (nil? ci) (wr f "abort")')
        b.append('    (not (msg? m)) (do (wr f "malformed " (shape m)) (ev/give ctl [:got]))')
        # gc-pressure receivers: collect and allocate same-shaped junk between the hand-off and the first look at the message
        pre = "(churn) " if c.get("gc") else ""
        b.append('    (do %s(wr f "got " (m 0) " " (m 1) " " ci " " (canon (m 2))) (ev/give ctl [:got])))))' % pre)
        k = c.get("fibers", 1)
        if k > 1:
            b.append("(def joinc (ev/chan %d))" % k)
            b.append("(repeat %d (ev/spawn (consume) (ev/give joinc true)))" % k)
            b.append("(repeat %d (ev/take joinc))" % k)
        else:
            b.append("(consume)")
        b.append('(wr f "end")')
        b.append("(file/close f)")
        b.append("(ev/give ctl [:cons-end %d])" % j)
        # stay alive until every data channel has been closed: a pending entry must never outlive its thread
        b.append("(ev/take fin)")
        body = "\n  ".join(b)
        if c["in_main"]:
            o.append("(ev/spawn\n  %s)" % body)
        else:
            o.append("(ev/thread (fn [&]\n  %s) nil :n)" % body)
    # ---- main: wait for consumers to be ready
    o.append('(def mainlog (logf "main.txt"))')
    # hang detector (diagnosis only): a watchdog fiber of the main thread; the run counts as stalled only when, for `stall`
    # seconds, main received NOTHING and the whole process (all threads) consumed no CPU time - a slow run on a loaded machine
    # is not a stall.  The takes themselves carry no deadline: the harness never abandons a wait on its own control channels.
    o.append("(var progress 0)")
    o.append('(var waiting-for "start")')
    o.append("(def watchdog (ev/spawn (var last -1) (var lastcpu (os/clock :cputime)) (var idle 0)")
    o.append("  (forever (ev/sleep %s)" % (stall / 4.0))
    o.append("    (def cpu (os/clock :cputime))")
    o.append("    (if (or (not= progress last) (> (- cpu lastcpu) 0.02)) (set idle 0) (++ idle))")
    o.append("    (set last progress) (set lastcpu cpu)")
    o.append('    (when (>= idle 4) (wr mainlog "stall " waiting-for) (os/exit 3)))))')
    o.append("(defn ctl-take [what] (set waiting-for what) (def m (ev/take ctl)) (++ progress) m)")
    o.append("(repeat %d (def m (ctl-take \"ready\")) (assert (= (m 0) :ready)))" % len(scn["cons"]))
    o.append('(wr mainlog "all-ready")')
    # ---- producers
    for p in scn["prods"]:
        i = p["id"]
        b = ['(def f (logf "prod-%d.txt"))' % i]
        for s, (ci, pay) in enumerate(p["msgs"]):
            msg = "[%d %d %s]" % (i, s, janet_expr(pay))
            ab = p.get("gab", {}).get(str(s))
            if ab == "cancel":
                b.append('(let [gf (ev/spawn (try (ev/give (chans %d) %s) ([e] nil)))] (ev/sleep 0.001) (if (fiber/can-resume? gf) (ev/cancel gf "abandon")) (ev/sleep 0) (wr f "sent %d %d core/channel"))' % (ci, msg, s, ci))
            elif ab == "deadline":
                b.append('(try (ev/with-deadline 0.002 (ev/give (chans %d) %s)) ([e] nil)) (wr f "sent %d %d core/channel")' % (ci, msg, s, ci))
            elif ab == "select":
                b.append('(let [lc (ev/chan 1)] (ev/spawn (ev/sleep 0.001) (ev/give lc :x)) (ev/select [(chans %d) %s] lc) (wr f "sent %d %d core/channel"))' % (ci, msg, s, ci))
            elif p["mode"] == "give":
                b.append('(wr f "sent %d %d " (give-shape (ev/give (chans %d) %s)))' % (s, ci, ci, msg))
            else:
                b.append('(wr f "sent %d %d " (give-shape (ev/select [(chans %d) %s])))' % (s, ci, ci, msg))
            if p["gc"] and s % 3 == 0:
                b.append("(gccollect)")
        for k in range(p["notes"]):
            b.append("(ev/give-supervisor :note %d %d)" % (i, k))
        b.append("(ev/give ctl [:done %d])" % i)
        b.append('(wr f "end")')
        b.append("(file/close f)")
        if p.get("gab"):
            # a parked-writer entry that was given up must not outlive its thread: stay until the channels are closed
            b.append("(ev/take fin)")
        b.append("%d" % p["ret"])
        body = "\n    ".join(b)
        o.append("(ev/spawn\n  (ev/thread (fn [&]\n    %s) %d :t sup)\n"
                 '  (def s (slurp (string outdir "/prod-%d.txt")))\n'
                 '  (wr mainlog "returned %d " (if (string/has-suffix? "end\\n" s) "after-end" "BEFORE-END"))\n'
                 "  (ev/give ctl [:returned %d]))" % (body, i, i, i, i))
    np = len(scn["prods"])
    o.append("(var got 0) (var done 0) (var returned 0)")
    o.append("(def done-set @{})")
    late = sum(1 for p in scn["prods"] if p.get("gab"))
    o.append("(while (or (< got %d) (< done %d) (< returned %d))" % (total, np, np - late))
    o.append('  (def m (ctl-take (string "got=" got " done=" done " returned=" returned)))')
    o.append("  (case (m 0)")
    o.append("    :got (++ got)")
    o.append("    :done (do (++ done) (put done-set (m 1) true))")
    o.append('    :returned (do (++ returned) (wr mainlog "order " (m 1) " " (if (done-set (m 1)) "done-before-returned" "RETURNED-BEFORE-DONE")))))')
    bad_sel = scn.get("bad_select") or []
    if bad_sel:
        badx = {"keyword": ":not-a-channel", "triple": "[(chans 0) 1 2]", "badgive": "[:no-chan 1]", "number": "42"}
        unp = {"unpackable": "(parser/new)", "unpackable-nested": "[1 @{:p (parser/new)} 2]"}

        def badcall(b):
            if b["fn"] == "give":
                return "(ev/give (chans %d) %s)" % (b["chans"][0], unp[b["bad"]])
            if b["fn"] == "select-give":
                return "(ev/select [(chans %d) %s])" % (b["chans"][0], unp[b["bad"]])
            if b["fn"] == "select-give-multi":
                return "(ev/select (chans %d) [(chans %d) %s])" % (b["chans"][0], b["chans"][1], unp[b["bad"]])
            return "(ev/%s %s %s)" % (b["fn"], " ".join("(chans %d)" % ci for ci in b["chans"]), badx[b["bad"]])
        calls = " ".join('(wr f "badselect %d " (try (do %s "returned") ([e] "raised")))' % (k, badcall(b)) for k, b in enumerate(bad_sel))
        used = sorted(set(ci for b in bad_sel for ci in b["chans"]))
        o.append('(set waiting-for "bad-select")')
        o.append('(ev/thread (fn [&] (def f (logf "bad-select.txt")) %s (file/close f)))' % calls)
        o.append("(++ progress)")
        o.append('(set waiting-for "use-after-bad-select")')
        o.append('(ev/thread (fn [&] (def f (logf "bad-select-use.txt")) (each ci [%s] (wr f "use " ci " " (ev/count (chans ci)))) (file/close f)))'
                 % " ".join(str(ci) for ci in used))
        o.append("(++ progress)")
    o.append('(wr mainlog "counts " (string/join (map (fn [c] (string (ev/count c))) chans) " "))')
    o.append("(each c chans (ev/chan-close c))")
    o.append('(repeat %d (def m (ctl-take "cons-end")) (if (= (m 0) :got) (wr mainlog "EXTRA-GOT") (assert (= (m 0) :cons-end))))' % len(scn["cons"]))
    o.append("(ev/chan-close fin)")
    o.append('(repeat %d (def m (ctl-take "late-returned")) (if (= (m 0) :returned) (wr mainlog "order " (m 1) " " (if (done-set (m 1)) "done-before-returned" "RETURNED-BEFORE-DONE")) (wr mainlog "EXTRA-GOT")))' % late)
    # helper fibers of abandoned gives (cancel / select) inherit the supervisor channel: one [:ok ..] event each
    nsup = sum(p["notes"] + 1 + sum(1 for k in p.get("gab", {}).values() if k in ("cancel", "select")) for p in scn["prods"])
    o.append("(repeat %d" % nsup)
    o.append('  (set waiting-for "sup") (def m (ev/take sup)) (++ progress)')
    o.append('  (wr mainlog "sup " (canon m)))')
    o.append('(wr mainlog "supcount " (ev/count sup) " ctlcount " (ev/count ctl))')
    late_give = scn.get("late_give") or []
    if late_give:
        cis = " ".join(str(ci) for ci in late_give)
        o.append('(set waiting-for "give-on-closed")')
        o.append('(ev/thread (fn [&] (def f (logf "late-give.txt"))\n'
                 '  (each ci [%s] (wr f "lategive " ci " " (try (do (ev/give (chans ci) [:late ci]) "returned") ([e] "raised"))))\n'
                 '  (file/close f)))' % cis)
        o.append("(++ progress)")
        o.append('(set waiting-for "use-after-give-on-closed")')
        o.append('(ev/thread (fn [&] (def f (logf "late-use.txt"))\n'
                 '  (each ci [%s] (wr f "postclose " ci " " (ev/count (chans ci)) " " (type (ev/take (chans ci)))))\n'
                 '  (file/close f)))' % cis)
        o.append("(++ progress)")
    o.append('(wr mainlog "ok")')
    o.append('(ev/cancel watchdog "done")')
    return "\n".join(o) + "\n"

# ----------------------------------------------------------------------------------------------- running


def run_scenario(janet, scn, env=None, timeout=120, keep=False, preload=None, workdir=None):
    """-> dict(rc, stderr, logs{name: [lines]}, dir)"""
    d = tempfile.mkdtemp(prefix="c08-", dir=workdir or "/var/tmp")
    try:
        script = os.path.join(d, "scn.janet")
        with open(script, "w") as f:
            f.write(render(scn))
        e = dict(env or os.environ)
        e["C08_OUT"] = d
        if preload:
            e["LD_PRELOAD"] = preload
        cpu_s = None
        pr = subprocess.Popen([janet, script], stdout=subprocess.PIPE, stderr=subprocess.PIPE, env=e, cwd=d)
        try:
            so, se = pr.communicate(timeout=timeout)
            rc, err, out = pr.returncode, se.decode(errors="replace"), so.decode(errors="replace")
        except subprocess.TimeoutExpired:
            # CPU time the process consumed before it is killed: tells a blocked process (dead-lock, lost wake-up) from a slow one
            try:
                with open("/proc/%d/stat" % pr.pid) as f:
                    w = f.read().rsplit(")", 1)[1].split()
                cpu_s = (int(w[11]) + int(w[12])) / float(os.sysconf("SC_CLK_TCK"))
            except Exception:
                cpu_s = None
            pr.kill()
            so, se = pr.communicate()
            rc, err, out = None, (se or b"").decode(errors="replace"), (so or b"").decode(errors="replace")
        logs = {}
        for fn in sorted(os.listdir(d)):
            if fn.endswith(".txt"):
                with open(os.path.join(d, fn), errors="replace") as f:
                    logs[fn[:-4]] = f.read().splitlines()
        if len(err) > 9000:  # keep the head (sanitizer report header + first stack) and the tail
            err = err[:5000] + "\n...\n" + err[-4000:]
        return {"rc": rc, "stderr": err, "stdout": out[-2000:], "logs": logs, "cpu_s": cpu_s, "timeout": timeout}
    finally:
        if not keep:
            shutil.rmtree(d, ignore_errors=True)


def oracle(scn, res):
    """Direct statement of the property on one run.  -> list of (signature, description)."""
    bad = []
    logs = res["logs"]
    sent = {}
    for p in scn["prods"]:
        for s, (ci, pay) in enumerate(p["msgs"]):
            sent[(p["id"], s)] = (ci, canon(tuple_fix(pay)))
    got = {}
    dup = []
    per_cons_order = []
    for c in scn["cons"]:
        last = {}
        for line in logs.get("cons-%d" % c["id"], []):
            w = line.split(" ", 4)
            if w[0] == "malformed":
                bad.append(("malformed-receipt", "consumer %d (%s on %r) was resumed with a value of the wrong shape for its wait: %s"
                            % (c["id"], c["mode"], c["chans"], line[10:300])))
                continue
            if w[0] != "got":
                continue
            try:
                pid, seq, ci, cn = int(w[1]), int(w[2]), int(w[3]), w[4] if len(w) > 4 else ""
            except (ValueError, IndexError):
                bad.append(("malformed-receipt", "consumer %d logged an unparsable receipt: %s" % (c["id"], line[:300])))
                continue
            key = (pid, seq)
            if key in got:
                dup.append(key)
            got.setdefault(key, []).append((c["id"], ci, cn))
            if key not in sent:
                bad.append(("phantom", "consumer %d received message %r that was never sent" % (c["id"], key)))
                continue
            if sent[key][0] != ci:
                bad.append(("wrong-channel", "message %r sent on channel %d arrived on channel %d" % (key, sent[key][0], ci)))
            if sent[key][1] != cn:
                bad.append(("not-equal", "message %r arrived structurally different: sent %s got %s" % (key, sent[key][1][:200], cn[:200])))
            # several receiver fibers in one thread log after their own (yielding) canonicalisation: no order claim there
            if last.get((pid, ci), -1) > seq and c.get("fibers", 1) == 1:
                per_cons_order.append((c["id"], pid, ci, last[(pid, ci)], seq))
            last[(pid, ci)] = max(last.get((pid, ci), -1), seq)
    for c in scn["cons"]:
        if any(l == "closed nil-from-select" for l in logs.get("cons-%d" % c["id"], [])) and not c["in_main"]:
            bad.append(("select-close-cross-thread-nil", "consumer %d blocked in ev/%s on thread channels %r was woken by a close from another thread "
                        "with nil instead of [:close chan]" % (c["id"], c["mode"], c["chans"])))
            break
    for key in dup:
        bad.append(("duplicate", "message %r delivered %d times: %r" % (key, len(got[key]), [(a, b) for a, b, _ in got[key]])))
    missing = sorted(k for k in sent if k not in got)
    # a message whose give never returned was not "sent" (the producer is stuck): only possible if the run stalled
    main = logs.get("main", [])
    completed = "ok" in main
    if missing:
        given = set()
        for p in scn["prods"]:
            for line in logs.get("prod-%d" % p["id"], []):
                w = line.split()
                if len(w) >= 2 and w[0] == "sent" and w[1].isdigit():
                    given.add((p["id"], int(w[1])))
        lost = [k for k in missing if k in given]
        stale = any(scn["stale_possible"][sent[k][0]] for k in missing)
        if lost:
            bad.append(("lost-stale-reader" if stale else "lost",
                        "%d message(s) were given successfully (ev/give returned) but never arrived at any receiver, e.g. producer %d seq %d on channel %d%s"
                        % (len(lost), lost[0][0], lost[0][1], sent[lost[0]][0],
                           " (a reader on that channel had abandoned an earlier wait)" if stale else "")))
        elif not completed:
            bad.append(("stuck", "run stalled with %d message(s) not given and not received; main log tail %r" % (len(missing), main[-2:])))
    for cid, pid, ci, a, b in per_cons_order:
        stale = scn["stale_possible"][ci]
        bad.append(("reorder-stale-reader" if stale else "reorder",
                    "consumer %d saw producer %d's messages on channel %d out of order (seq %d before %d)%s"
                    % (cid, pid, ci, a, b, " (a reader on that channel had abandoned an earlier wait)" if stale else "")))
    for p in scn["prods"]:
        want = "core/channel" if p["mode"] == "give" else "give"
        for line in logs.get("prod-%d" % p["id"], []):
            w = line.split(" ", 3)
            if w[0] == "sent" and (len(w) < 4 or w[3] != want):
                bad.append(("malformed-give-result", "producer %d: %s resumed with a value of the wrong shape: %s" % (p["id"], "ev/give" if p["mode"] == "give" else "ev/select [chan x]", line[:300])))
                break
    # ev/thread resumes caller only after body finished
    for line in main:
        if "BEFORE-END" in line or "RETURNED-BEFORE-DONE" in line:
            bad.append(("thread-returned-early", "ev/thread resumed its caller before the thread body had finished: " + line))
        if line.startswith("EXTRA-GOT"):
            bad.append(("duplicate", "a receipt was reported after every sent message had been accounted for"))
    bad_sel = scn.get("bad_select") or []
    if bad_sel and not missing and (completed or any(l.startswith("stall bad-select") or l.startswith("stall use-after-bad-select") for l in main)):
        bl = logs.get("bad-select", [])
        bu = logs.get("bad-select-use", [])
        used = sorted(set(ci for b in bad_sel for ci in b["chans"]))
        if any(l.endswith(" returned") for l in bl):
            bad.append(("select-bad-clause-accepted", "ev/select with a malformed clause returned normally: %r" % bl))
        elif bl == ["badselect %d raised" % k for k in range(len(bad_sel))] and bu != ["use %d 0" % ci for ci in used]:
            gv = any(b["fn"] in ("give", "select-give") for b in bad_sel)
            gm = any(b["fn"] == "select-give-multi" for b in bad_sel)
            bad.append(("give-unpackable-keeps-lock" if gv else "select-unpackable-give-keeps-locks" if gm else "select-bad-clause-keeps-locks",
                        "an OS thread's failing channel operation(s) %r raised (malformed select clause / value that cannot be marshalled); another OS thread that then "
                        "used the same thread channels (ev/count on %r) got %r%s" % (
                            [(b["fn"], b["chans"], b["bad"]) for b in bad_sel], used, bu,
                            " and never came back (blocked in janet_chan_lock: the failed select left those channels locked)" if not completed else "")))
    late_give = scn.get("late_give") or []
    if late_give and (completed or any(l.startswith("stall give-on-closed") or l.startswith("stall use-after-give-on-closed") for l in main)):
        lg = logs.get("late-give", [])
        lu = logs.get("late-use", [])
        for ci in late_give:
            if "lategive %d returned" % ci in lg:
                bad.append(("give-on-closed-accepted", "ev/give on thread channel %d after it was closed returned normally" % ci))
        want_use = ["postclose %d 0 nil" % ci for ci in late_give]
        if lg == ["lategive %d raised" % ci for ci in late_give] and lu != want_use:
            bad.append(("give-closed-keeps-lock", "after an OS thread's ev/give on closed thread channel(s) %r raised, another OS thread using the same "
                        "channels (ev/count, ev/take) got %r instead of %r%s" % (late_give, lu, want_use,
                        " and never came back (blocked in janet_chan_lock: the failed give left the channel mutex locked)" if not completed else "")))
        elif completed and lg != ["lategive %d raised" % ci for ci in late_give]:
            bad.append(("give-on-closed-accepted", "ev/give on closed thread channels %r: log %r" % (late_give, lg)))
    if completed:
        for line in main:
            if line.startswith("counts "):
                if any(x != "0" for x in line.split()[1:]):
                    bad.append(("leftover", "all messages accounted for but channels still hold items: " + line))
            if line.startswith("supcount "):
                w = line.split()
                if len(w) < 4 or w[1] != "0" or w[3] != "0":
                    bad.append(("supervisor-extra", "extra message on supervisor/control channel: " + line))
        # supervisor messages: exactly once, per-thread order (notes 0..n-1 then the terminal event)
        exp = {}
        for p in scn["prods"]:
            exp[p["id"]] = [canon(("tuple", [("kw", b"note"), ("num", float(p["id"])), ("num", float(k))])) for k in range(p["notes"])] + \
                           [canon(("tuple", [("kw", b"ok"), ("num", float(p["ret"])), ("num", float(p["id"]))]))]
        seen = {p["id"]: [] for p in scn["prods"]}
        helpers_left = {p["id"]: sum(1 for k in p.get("gab", {}).values() if k in ("cancel", "select")) for p in scn["prods"]}
        for line in main:
            if line.startswith("sup "):
                cn = line[4:]
                hit = [pid for pid, es in exp.items() if cn in es]
                helper = [p["id"] for p in scn["prods"] if cn.startswith("(k:6f6b ") and cn.endswith(" %d)" % p["id"])
                          and helpers_left.get(p["id"], 0) > 0]
                if not hit and helper:
                    helpers_left[helper[0]] -= 1
                    continue
                if not hit:
                    bad.append(("supervisor-phantom", "unexpected supervisor message " + cn[:200]))
                else:
                    seen[hit[0]].append(cn)
        for pid in exp:
            if seen[pid] != exp[pid]:
                bad.append(("supervisor", "supervisor messages of thread %d: expected %r, saw %r" % (pid, exp[pid], seen[pid])))
        for c in scn["cons"]:
            l = logs.get("cons-%d" % c["id"], [])
            if not l or l[-1] != "end":
                bad.append(("consumer-not-ended", "consumer %d did not end after close: %r" % (c["id"], l[-2:])))
    elif not missing:
        bad.append(("stuck", "all messages arrived but the run did not complete: rc=%r main tail %r" % (res["rc"], main[-3:])))
    if res["rc"] not in (0, 3, None) or (res["rc"] == 0 and not completed):
        bad.append(("crash", "janet exited with status %r: %s" % (res["rc"], res["stderr"][-600:])))
    elif res["rc"] is None and not bad:
        bad.append(("hang", "run did not finish (hang detector); main tail %r" % (main[-3:],)))
    return bad


def tuple_fix(p):
    """JSON round trip turns tuples into lists and bytes into ...: payloads are kept as python tuples in memory; after a JSON
    load use from_json()."""
    return p


def to_json(p):
    t = p[0]
    if t in ("str", "kw", "buf"):
        return [t, p[1].hex()]
    if t in ("tuple", "array"):
        return [t, [to_json(x) for x in p[1]]]
    if t in ("struct", "table"):
        return [t, [[to_json(k), to_json(v)] for k, v in p[1]]]
    if t == "chan":
        return [t, to_json(p[1])]
    if t == "num":
        return [t, repr(p[1])]
    return list(p)


def from_json(j):
    t = j[0]
    if t in ("str", "kw", "buf"):
        return (t, bytes.fromhex(j[1]))
    if t in ("tuple", "array"):
        return (t, [from_json(x) for x in j[1]])
    if t in ("struct", "table"):
        return (t, [(from_json(k), from_json(v)) for k, v in j[1]])
    if t == "chan":
        return (t, from_json(j[1]))
    if t == "num":
        return (t, float(j[1]))
    return tuple(j)


def scn_to_json(scn):
    s = json.loads(json.dumps({k: v for k, v in scn.items() if k != "prods"}))
    s["prods"] = [dict(p, msgs=[[ci, to_json(pay)] for ci, pay in p["msgs"]]) for p in scn["prods"]]
    return s


def scn_from_json(s):
    scn = {k: v for k, v in s.items() if k != "prods"}
    scn["prods"] = [dict(p, msgs=[[ci, from_json(pay)] for ci, pay in p["msgs"]]) for p in s["prods"]]
    return scn


def describe(scn):
    return {"chans": len(scn["caps"]), "caps": scn["caps"], "producers": len(scn["prods"]), "consumers": len(scn["cons"]),
            "messages": sum(len(p["msgs"]) for p in scn["prods"]),
            "consumer_modes": sorted(set(c["mode"] for c in scn["cons"])),
            "abandon": sorted(set(k for c in scn["cons"] for _, k in c["abandon"])),
            "aborts": sum(len(c["aborts"]) for c in scn["cons"]),
            "gc_consumers": sum(1 for c in scn["cons"] if c.get("gc")),
            "giver_abandon": sorted(set(k for p in scn["prods"] for k in p.get("gab", {}).values())),
            "late_give": len(scn.get("late_give") or []),
            "bad_select": sorted(set(b["bad"] for b in (scn.get("bad_select") or []))),
            "shapes": sorted(set(shape_of(pay) for p in scn["prods"] for _, pay in p["msgs"]))}
