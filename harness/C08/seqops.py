"""C08 correspondence (D): deterministic single-loop histories on one thread channel, implementation vs Lean model driver.

ops:  g<f>:<x> give item x (by the main fiber; limit is large so it never blocks)   t<f> fresh fiber f does ev/take
      a<f> cancel fiber f (it abandons its wait if it is still waiting)              c close
After every op the event loop is run until the self-pipe is drained (several (ev/sleep 0)), so janet_thread_chan_cb
has processed every posted message - the model driver does the same (`handle 0` until nothing is in flight).
Observation after each op: ev/count, the log of (fiber, item) resumptions in order, the set of fibers resumed by close.
Also the property itself on each history (independent of the model): every given item is either still counted in the channel
or was delivered exactly once (at the end of a history without close)."""
import os
import subprocess
import tempfile

impl_oracle_failures = []

JANET = r'''
(def lines (string/split "\n" (string/trim (slurp (os/getenv "C08_SEQ")))))
(each line lines
  (def toks (filter |(not (empty? $)) (string/split " " line)))
  (def c (ev/thread-chan 100000))
  (def fibers @{})
  (def dlog @[])
  (def wlog @[])
  (def out @[])
  (each op toks
    (def k (string/slice op 0 1))
    (case k
      "g" (let [[f x] (string/split ":" (string/slice op 1))] (try (ev/give c (scan-number x)) ([e] nil)))
      "t" (let [f (scan-number (string/slice op 1))]
            (put fibers f (ev/spawn (try (let [v (ev/take c)] (if (nil? v) (array/push wlog f) (array/push dlog [f v]))) ([e] nil)))))
      "a" (let [fb (get fibers (scan-number (string/slice op 1)))] (if (and fb (fiber/can-resume? fb)) (ev/cancel fb "abandon")))
      "c" (ev/chan-close c))
    (repeat 10 (ev/sleep 0))
    (array/push out (string (ev/count c) " d=" (string/join (map (fn [[f v]] (string f ":" v)) dlog) ",")
                            " w=" (string/join (map string (sort (array/slice wlog))) ","))))
  (print (string/join out " ; "))
  # release whoever still waits so the loop can end
  (ev/chan-close c)
  (repeat 3 (ev/sleep 0)))
'''


def corpus_sequences():
    return [
        ["t0", "a0", "g9:7", "t1"],                       # the lost-message witness (exactly_once_counterexample)
        ["t0", "a0", "g9:1", "g9:2", "t5", "t6"],         # the reorder witness
        ["t0", "t1", "a0", "g9:1", "g9:2", "t2"],         # stale head, live reader behind it: re-dispatch
        ["t0", "t1", "t2", "a0", "a1", "g9:1", "g9:2", "t3", "t4"],
        ["g9:1", "g9:2", "t0", "t1", "t2", "c", "t3"],
        ["t0", "t1", "a1", "c", "g9:1", "t2"],
        ["t0", "a0", "g9:1", "c", "t1"],
    ]


def gen_sequence(rng):
    n = rng.range(3, 14)
    ops, nf, nx, waiting = [], 0, 0, []
    closed = False
    for _ in range(n):
        k = rng.below(100)
        if k < 35:
            ops.append("t%d" % nf)
            waiting.append(nf)
            nf += 1
        elif k < 70:
            nx += 1
            ops.append("g9:%d" % nx)
        elif k < 92 and waiting:
            f = rng.choice(waiting)
            ops.append("a%d" % f)
        elif k < 96 and not closed:
            ops.append("c")
            closed = True
        else:
            nx += 1
            ops.append("g9:%d" % nx)
    return ops


def compare(ctx, janet, exe, seqs, flags):
    """-> (diffs, number of compared lines, coverage dict)"""
    global impl_oracle_failures
    impl_oracle_failures = []
    cfgtok = "%d %d %d %d 100000" % (int(flags["requeueOnNoReader"]), int(flags["requeueAtHead"]), int(flags["redispatchToNext"]),
                                     int(flags["cbChecksSchedId"]))
    d = tempfile.mkdtemp(prefix="c08seq-", dir="/var/tmp")
    try:
        sp, jp = os.path.join(d, "seqs.txt"), os.path.join(d, "run.janet")
        with open(sp, "w") as f:
            f.write("\n".join(" ".join(s) for s in seqs) + "\n")
        with open(jp, "w") as f:
            f.write(JANET)
        r = subprocess.run([janet, jp], env=dict(os.environ, C08_SEQ=sp), stdout=subprocess.PIPE, stderr=subprocess.PIPE, timeout=900)
        impl = r.stdout.decode(errors="replace").splitlines()
        if r.returncode != 0 or len(impl) != len(seqs):
            raise RuntimeError("op-sequence harness: rc=%r, %d/%d lines, stderr %s" % (r.returncode, len(impl), len(seqs), r.stderr.decode(errors="replace")[-400:]))
    finally:
        import shutil
        shutil.rmtree(d, ignore_errors=True)
    model = ctx.model([cfgtok + " " + " ".join(s) for s in seqs], exe=exe)
    diffs = []
    cov = {"ops": 0, "abandon": 0, "close": 0, "stale_hits": 0}
    for s, a, b in zip(seqs, impl, model):
        cov["ops"] += len(s)
        cov["abandon"] += sum(1 for o in s if o[0] == "a")
        cov["close"] += sum(1 for o in s if o == "c")
        if a != b:
            diffs.append({"ops": " ".join(s), "impl": a, "model": b})
        # direct oracle on the implementation trace (no model involved)
        if "c" not in s and a != b:
            pass
        if "c" not in s:
            try:
                int(a.split(" ; ")[-1].split(" ")[0]); a.split(" ; ")[-1].split(" d=")[1]
            except (ValueError, IndexError):
                impl_oracle_failures.append({"sig": "malformed-receipt", "ops": " ".join(s), "observed": a, "why": "single-loop history `%s`: unparsable observation %r" % (" ".join(s), a[:200])})
                continue
            given = [o.split(":")[1] for o in s if o[0] == "g"]
            last = a.split(" ; ")[-1]
            cnt = int(last.split(" ")[0])
            dl = last.split(" d=")[1].split(" w=")[0]
            deliv = [p.split(":")[1] for p in dl.split(",") if p]
            if len(set(deliv)) != len(deliv):
                impl_oracle_failures.append({"sig": "duplicate", "ops": " ".join(s), "observed": a, "why": "an item was delivered twice in single-loop history `%s`" % " ".join(s)})
            elif cnt + len(deliv) != len(given):
                impl_oracle_failures.append({"sig": "lost-stale-reader", "ops": " ".join(s), "observed": a,
                                             "why": "single-loop history `%s`: %d item(s) given, %d delivered, ev/count %d: %d item(s) vanished after being handed to a reader that had abandoned its wait"
                                                    % (" ".join(s), len(given), len(deliv), cnt, len(given) - cnt - len(deliv))})
                cov["stale_hits"] += 1
    return diffs, len(seqs), cov
