"""C08 correspondence (D): deterministic single-loop histories on one thread channel, implementation vs Lean model driver.

ops:  g<f>:<x> give item x (by the main fiber; limit is large so it never blocks)   t<f> fresh fiber f does ev/take
      a<f> cancel fiber f (it abandons its wait if it is still waiting)              c close
After every op the event loop is run until the self-pipe is drained (several (ev/sleep 0)), so janet_thread_chan_cb
has processed every posted message - the model driver does the same (`handle 0` until nothing is in flight).
Observation after each op: ev/count, the log of (fiber, item) resumptions in order, the set of fibers resumed by close.
Also the property itself on each history (independent of the model): every given item is either still counted in the channel
or was delivered exactly once (at the end of a history without close)."""
import os
import subprocess
import tempfile

impl_oracle_failures = []

JANET = r'''
(def lines (string/split "\n" (string/trim (slurp (os/getenv "C08_SEQ")))))
(each line lines
  (def toks0 (filter |(not (empty? $)) (string/split " " line)))
  (def c (ev/thread-chan (scan-number (string/slice (toks0 0) 1))))
  (def toks (array/slice toks0 1))
  (def glog @[])
  (def fibers @{})
  (def dlog @[])
  (def wlog @[])
  (def out @[])
  (each op0 toks
    # burst: `op+ op+ ... op!` - the fibers of a burst start without pre-sleep, so their channel operations run back to back in
    # ONE run phase of the loop (the self pipe is not polled in between); one observation after the `!` op
    (def burst (string/has-suffix? "+" op0))
    (def nosleep (or burst (string/has-suffix? "!" op0)))
    (def op (if nosleep (string/slice op0 0 -2) op0))
    (def k (string/slice op 0 1))
    (case k
      # fibers sleep a different number of turns first, so that their sched_id counters differ
      "g" (let [[fs x] (string/split ":" (string/slice op 1)) f (scan-number fs)]
            (put fibers f (ev/spawn (repeat (if nosleep 0 (% f 3)) (ev/sleep 0)) (try (do (ev/give c (scan-number x)) (array/push glog f)) ([e] nil)))))
      # supervisor event: a fiber supervised by the channel finishes; janet_loop1 pushes [:ok x nil] with mode 2 (never parks)
      "s" (let [[fs x] (string/split ":" (string/slice op 1)) f (scan-number fs) xv (scan-number x)]
            (put fibers f (ev/go (fn [&] (repeat (if nosleep 0 (% f 2)) (ev/sleep 0)) xv) nil c)))
      "t" (let [f (scan-number (string/slice op 1))]
            (put fibers f (ev/spawn (repeat (if nosleep 0 (% f 2)) (ev/sleep 0))
                            (try (let [v0 (ev/take c) v (if (tuple? v0) (v0 1) v0)] (if (nil? v) (array/push wlog f) (array/push dlog [f v]))) ([e] nil)))))
      "a" (let [fb (get fibers (scan-number (string/slice op 1)))] (if (and fb (fiber/can-resume? fb)) (ev/cancel fb "abandon")))
      "c" (ev/chan-close c))
    (unless burst
      (repeat 16 (ev/sleep 0))
      (array/push out (string (ev/count c) " d=" (string/join (map (fn [[f v]] (string f ":" v)) dlog) ",")
                              " w=" (string/join (map string (sort (array/slice wlog))) ",")
                              " g=" (string/join (map string (sort (array/slice glog))) ",")))))
  (print (string/join out " ; "))
  (flush)
  # release whoever still waits so the loop can end
  (ev/chan-close c)
  (repeat 3 (ev/sleep 0))
  # a fiber that is still parked here lost its wake-up (already recorded in the observation): do not let it keep the loop alive
  (eachp [_ fb] fibers (if (fiber/can-resume? fb) (ev/cancel fb "end of history")))
  (ev/sleep 0))
# every history has been observed and printed: do not wait for the loop to run dry (events that were posted but never read
# keep it alive for ever - that loss is already in the observations above)
(flush)
(os/exit 0)
'''


def corpus_sequences():
    big = [["L100000"] + q for q in _corpus_big()]
    return big + [
        # parked writers: an earlier one gives up, the wake-up must be forwarded to the later one with ITS sched_id
        ["L1", "g1:10", "g2:20", "g3:30", "a2", "t4", "t5"],
        ["L0", "g1:10", "g2:20", "g4:30", "a1", "a2", "t5", "t6", "t7"],
        ["L1", "g1:10", "g2:20", "g3:30", "g4:40", "a2", "a3", "t5", "t6", "c"],
        ["L2", "g1:1", "g2:2", "g3:3", "g5:4", "a3", "t6", "t7", "t8", "t9"],
        # supervisor events: over capacity they neither park nor get lost; order kept
        ["L1", "s1:10", "s2:20", "s3:30", "t4", "t5", "t6", "g7:40", "t8"],
        ["L0", "t1", "t2", "s3:10", "s4:20", "s5:30", "t6"],
        # bursts: several hand-offs in the self pipe / several tasks in the run queue at once
        # two fibers of one thread: 8 takes item 2 directly before the loop looks at the pipe that carries item 1 for fiber 7
        # (per_thread_order_counterexample: got 8:2 before 7:1; each fiber still sees send order)
        ["L100000", "t7", "g1:1+", "g2:2+", "t8!"],
        # 24 pending readers, 24 gives in one run phase: 24 events in the self pipe at one poll (more than one batch of any
        # plausible batched read), 24 resumptions queued in one turn
        ["L100000"] + ["t%d+" % i for i in range(1, 24)] + ["t24!"] + ["g%d:%d+" % (100 + i, i) for i in range(1, 24)] + ["g124:24!"],
        ["L2"] + ["g%d:%d+" % (i, i) for i in range(1, 8)] + ["g8:8!"] + ["t%d+" % (20 + i) for i in range(1, 8)] + ["t28!"],
        # REQUEUE path (session 4c, seed C08-8): one stale hand-off, no other reader pending, 2 / 5 later gives of the same
        # sender queued behind it in the same run phase, nothing taken before the loop handles the stale message; then ONE
        # receiver (label 5, sequential takes) must see give order (per_sender_order_requeue)
        ["L100000", "t0", "a0", "g9:1+", "g9:2+", "g9:3!", "t5", "t5", "t5"],
        ["L100000", "g9:1", "t5", "t0", "a0", "g9:2+", "g9:3+", "g8:4+", "g9:5+", "g9:6+", "g9:7!", "t5", "t5", "t5", "t5", "t5", "t5"],
        # the classification cases that the unchanged tree does NOT keep in order (known finding reorder-stale-reader):
        # two stale hand-offs in flight at once, both requeued at the head in pipe order (2 overtakes 1) ...
        ["L100000", "t0", "t1", "a0", "a1", "g9:1+", "g9:2+", "g9:3!", "t5", "t5", "t5"],
        # ... and a later item taken before the stale message is handled
        ["L100000", "t0", "a0", "g9:1+", "g9:2+", "t5+", "g9:3!", "t5", "t5"],
    ]


def _corpus_big():
    return [
        ["t0", "a0", "g9:7", "t1"],                       # the lost-message witness (exactly_once_counterexample)
        ["t0", "a0", "g9:1", "g9:2", "t5", "t6"],         # the reorder witness
        ["t0", "t1", "a0", "g9:1", "g9:2", "t2"],         # stale head, live reader behind it: re-dispatch
        ["t0", "t1", "t2", "a0", "a1", "g9:1", "g9:2", "t3", "t4"],
        ["g9:1", "g9:2", "t0", "t1", "t2", "c", "t3"],
        ["t0", "t1", "a1", "c", "g9:1", "t2"],
        ["t0", "a0", "g9:1", "c", "t1"],
    ]


def gen_sequence(rng, s_after_close=False):
    n = rng.range(3, 16)
    limit = rng.choice([0, 1, 1, 2, 3, 100000, 100000])
    ops, nf, nx, waiting = ["L%d" % limit], 0, 0, []
    closed = False
    # with a small limit start with a burst of givers so that several writers are parked
    if limit < 100 and rng.chance(1, 2):
        for _ in range(limit + rng.range(1, 4)):
            nx += 1
            ops.append("g%d:%d" % (nf, nx))
            waiting.append(nf)
            nf += 1 + rng.below(2)
    def burst(kind, cnt):
        nonlocal nf, nx
        out = []
        for j in range(cnt):
            suffix = "!" if j == cnt - 1 else "+"
            k2 = kind if kind != "m" else ("t" if rng.chance(1, 2) else "g")
            if k2 == "t":
                out.append("t%d%s" % (nf, suffix))
            else:
                nx += 1
                out.append("g%d:%d%s" % (nf, nx, suffix))
            waiting.append(nf)
            nf += 1
        return out
    for _ in range(n):
        k = rng.below(100)
        if not closed and rng.chance(1, 6):
            # burst of 2..24 operations in one run phase (takers, givers or mixed)
            ops += burst(rng.choice(["t", "g", "m", "m"]), rng.choice([2, 3, 4, 6, 9, 17, 24]))
            continue
        if k < 35:
            ops.append("t%d" % nf)
            waiting.append(nf)
            nf += 1 + rng.below(2)
        elif k < 55:
            nx += 1
            ops.append("g%d:%d" % (nf, nx))
            waiting.append(nf)
            nf += 1 + rng.below(2)
        elif k < 65 and (not closed or s_after_close):
            # supervisor event (mode-2 push); after a close only on trees where janet_loop1 skips the push (repo 046c08b) -
            # before that fix the push panicked outside any fiber ("cannot write to closed channel")
            nx += 1
            ops.append("s%d:%d" % (nf, nx))
            nf += 1 + rng.below(2)
        elif k < 92 and waiting:
            f = rng.choice(waiting)
            ops.append("a%d" % f)
        elif k < 95 and not closed:
            ops.append("c")
            closed = True
        else:
            ops.append("t%d" % nf)
            waiting.append(nf)
            nf += 1
    return ops


def gen_requeue_sequence(rng):
    """family `requeue` (session 4c): reaches the requeue branch of janet_thread_chan_cb (stale read message, no other reader
    pending) with >= 2 later gives of the same sender queued behind the returned item; one receiver label takes everything
    sequentially afterwards.  Optional clean traffic before, a second sender interleaved in the burst."""
    ops = ["L100000"]
    nx = 0
    recv = 50 + rng.below(5)
    stale = 10 + rng.below(5)
    sender = 30 + rng.below(5)
    other = 40 + rng.below(5)
    for _ in range(rng.below(4)):           # clean traffic first: give + take, drained
        nx += 1
        ops.append("g%d:%d" % (rng.choice([sender, other]), nx))
        ops.append("t%d" % recv)
    ops += ["t%d" % stale, "a%d" % stale]
    later = rng.range(2, 9)
    burst = ["g%d:%d" % (sender, nx + 1)]
    nx += 1
    n_same = 0
    while n_same < later:
        nx += 1
        if rng.chance(1, 5):
            burst.append("g%d:%d" % (other, nx))
        else:
            burst.append("g%d:%d" % (sender, nx))
            n_same += 1
    ops += [b + "+" for b in burst[:-1]] + [burst[-1] + "!"]
    ops += ["t%d" % recv] * len(burst)
    return ops


def order_oracle(s0, a):
    """Per-sender order per receiver LABEL on one single-loop history (implementation trace only, no model), and the
    classification of a reorder by the branch of janet_thread_chan_cb that handled the stale hand-off, reconstructed from
    the history by a book-keeping mirror (who was pending, what was in the pipe at each drain).
    Only for histories of g/t/a ops with a large capacity in which receiver labels are reused sequentially only.
    -> list of (sig, why)"""
    s = [o.rstrip("+!") for o in s0]
    if s[0] != "L100000" or any(o[0] not in "gta" for o in s[1:]):
        return []
    try:
        last = a.split(" ; ")[-1]
        dl = last.split(" d=")[1].split(" w=")[0]
        deliv = [(p.split(":")[0], int(p.split(":")[1])) for p in dl.split(",") if p]
    except (ValueError, IndexError):
        return []
    # give order per sender
    gidx, sender_of = {}, {}
    for k, o in enumerate(s[1:]):
        if o[0] == "g":
            f, x = o[1:].split(":")
            gidx[int(x)] = k
            sender_of[int(x)] = f
    # mirror: pending readers, pipe, per item: how did it come back
    pending, pipe, qn = [], [], 0
    inflight_stale = set()
    dirty = set()          # items for which a later hand-out happened while they were in flight to a stale reader
    branch = {}            # item -> "requeue" | "redispatch"
    nrequeue = 0
    multi = set()          # items requeued while an earlier requeued item may still be queued / several in one drain

    def handout():
        dirty.update(inflight_stale)

    def drain():
        nonlocal qn, nrequeue
        i = 0
        while i < len(pipe):
            e, x = pipe[i]
            i += 1
            if not e["stale"]:
                inflight_stale.discard(x)
                continue
            if pending:
                e2 = pending.pop(0)
                pipe.append((e2, x))
                branch[x] = "redispatch"
            else:
                branch.setdefault(x, "requeue")
                if nrequeue:
                    multi.add(x)
                nrequeue += 1
                inflight_stale.discard(x)
                qn += 1
        del pipe[:]

    labels_busy = {}
    for o0 in s0[1:]:
        o = o0.rstrip("+!")
        k = o[0]
        if k == "t":
            f = o[1:]
            if labels_busy.get(f):
                return []      # two live fibers under one receiver label: no per-label order claim
            if qn > 0:
                qn -= 1
                handout()
            else:
                e = {"f": f, "stale": False}
                pending.append(e)
                labels_busy[f] = e
        elif k == "a":
            f = o[1:]
            e = labels_busy.get(f)
            if e:
                e["stale"] = True
                labels_busy[f] = None
        else:
            x = int(o[1:].split(":")[1])
            if pending:
                e = pending.pop(0)
                pipe.append((e, x))
                if e["stale"]:
                    inflight_stale.add(x)
                else:
                    handout()
                    labels_busy[e["f"]] = None
            else:
                qn += 1
        if not o0.endswith("+"):
            # a live entry whose fiber is cancelled after the dispatch is stale at the drain as well (same dict)
            drain()
    out = []
    has_ab = any(o[0] == "a" for o in s)
    seen = {}
    for f, x in deliv:
        if x not in gidx:
            continue
        key = (f, sender_of[x])
        prev = seen.get(key)
        if prev is not None and gidx[prev] > gidx[x]:
            # x was given BEFORE prev by the same sender, receiver f got it after prev
            if branch.get(x) == "requeue" and x not in dirty and x not in multi and prev not in branch:
                out.append(("reorder-requeued-item",
                            "single-loop history `%s`: sender %s gave %d before %d, receiver %s took %d first.  Item %d had been handed to a reader "
                            "that abandoned its wait; when janet_thread_chan_cb found the hand-off stale NO other reader was pending (requeue "
                            "branch, not re-dispatch), no later item had left the channel yet and no other stale hand-off was outstanding: the item "
                            "must go back to the FRONT of channel->items (per_sender_order_requeue), it was queued behind the later gives"
                            % (" ".join(s0), sender_of[x], x, prev, f, prev, x)))
            else:
                why = ("re-dispatched to another pending reader" if branch.get(x) == "redispatch" else
                       "requeued after a later item had already left the channel" if x in dirty else
                       "several stale hand-offs outstanding, each requeued at the head in pipe order" if (x in multi or prev in branch) else "no stale hand-off involved")
                out.append(("reorder-stale-reader" if has_ab else "reorder",
                            "single-loop history `%s`: sender %s gave %d before %d, receiver %s took %d first (%s)" % (" ".join(s0), sender_of[x], x, prev, f, prev, why)))
            break
        if prev is None or gidx[x] > gidx[prev]:
            seen[key] = x
    return out


def run_impl(janet, jp, sp, timeout=240):
    """-> (output lines, rc or None if killed by the hang detector, stderr tail)"""
    try:
        r = subprocess.run([janet, jp], env=dict(os.environ, C08_SEQ=sp), stdout=subprocess.PIPE, stderr=subprocess.PIPE, timeout=timeout)
        return r.stdout.decode(errors="replace").splitlines(), r.returncode, r.stderr.decode(errors="replace")[-400:]
    except subprocess.TimeoutExpired as e:
        out = (e.stdout or b"").decode(errors="replace")
        lines = out.splitlines()
        if out and not out.endswith("\n"):
            lines = lines[:-1]
        return lines, None, (e.stderr or b"").decode(errors="replace")[-400:]


def compare(ctx, janet, exe, seqs, flags):
    """-> (diffs, number of compared lines, coverage dict)"""
    global impl_oracle_failures
    impl_oracle_failures = []
    cfgtok = "%d %d %d %d %d %d" % (int(flags["requeueOnNoReader"]), int(flags["requeueAtHead"]), int(flags["redispatchToNext"]),
                                    int(flags["cbChecksSchedId"]), int(flags.get("forwardOwnSchedId", True)),
                                    int(flags.get("loopBumpsSchedAtResume", False)))
    d = tempfile.mkdtemp(prefix="c08seq-", dir="/var/tmp")
    try:
        sp, jp = os.path.join(d, "seqs.txt"), os.path.join(d, "run.janet")
        with open(sp, "w") as f:
            f.write("\n".join(" ".join(s) for s in seqs) + "\n")
        with open(jp, "w") as f:
            f.write(JANET)
        impl, rc, err = run_impl(janet, jp, sp)
        if len(impl) < len(seqs):
            # the implementation stopped (crash) or hung inside a history: that history is a failing input of its own; the
            # histories before it are still compared
            k = len(impl)
            impl_oracle_failures.append({"sig": "opseq-crash" if rc is not None else "opseq-hang", "ops": " ".join(seqs[k]), "observed": "rc=%r stderr %s" % (rc, err[-300:]),
                                         "why": "single-loop history `%s`: the implementation %s before the history was over (rc=%r)" % (
                                             " ".join(seqs[k]), "stopped" if rc is not None else "did not come back from a non-blocking step (hang detector)", rc)})
            seqs = seqs[:k]
        elif rc != 0 or len(impl) != len(seqs):
            raise RuntimeError("op-sequence harness: rc=%r, %d/%d lines, stderr %s" % (rc, len(impl), len(seqs), err[-400:]))
    finally:
        import shutil
        shutil.rmtree(d, ignore_errors=True)
    model = ctx.model([cfgtok + " " + s[0][1:] + " " + " ".join(s[1:]) for s in seqs], exe=exe)
    diffs = []
    cov = {"ops": 0, "abandon": 0, "close": 0, "stale_hits": 0}
    for s0, a, b in zip(seqs, impl, model):
        s = [o.rstrip("+!") for o in s0]
        nb = sum(1 for o in s0 if o.endswith("!"))
        cov["bursts"] = cov.get("bursts", 0) + nb
        cov["burst_ops"] = cov.get("burst_ops", 0) + sum(1 for o in s0 if o.endswith("+") or o.endswith("!"))
        cov["max_burst"] = max(cov.get("max_burst", 0), max([0] + [len(g) for g in " ".join("B" if (o.endswith("+") or o.endswith("!")) else "." for o in s0).replace(" ", "").split(".")]))
        cov["ops"] += len(s) - 1
        cov["parked_writer_histories"] = cov.get("parked_writer_histories", 0) + (1 if " g=" in a and s[0] != "L100000" else 0)
        cov["abandon"] += sum(1 for o in s if o[0] == "a")
        cov["supervisor_pushes"] = cov.get("supervisor_pushes", 0) + sum(1 for o in s if o[0] == "s")
        cov["close"] += sum(1 for o in s if o == "c")
        if a != b:
            diffs.append({"ops": " ".join(s0), "impl": a, "model": b})
        # direct oracle on the implementation trace (no model involved)
        for osig, owhy in order_oracle(s0, a):
            cov["order_" + osig] = cov.get("order_" + osig, 0) + 1
            impl_oracle_failures.append({"sig": osig, "ops": " ".join(s0), "observed": a, "why": owhy})
        if s[0] == "L100000" and any(o.startswith("t") for o in s[1:]) and len(set(o for o in s[1:] if o[0] == "t")) < sum(1 for o in s[1:] if o[0] == "t"):
            cov["order_checked_histories"] = cov.get("order_checked_histories", 0) + 1
        if "c" not in s:
            try:
                int(a.split(" ; ")[-1].split(" ")[0]); a.split(" ; ")[-1].split(" d=")[1]
            except (ValueError, IndexError):
                impl_oracle_failures.append({"sig": "malformed-receipt", "ops": " ".join(s0), "observed": a, "why": "single-loop history `%s`: unparsable observation %r" % (" ".join(s0), a[:200])})
                continue
            given = [o.split(":")[1] for o in s if o[0] in "gs"]
            cnt = 0
            last = a.split(" ; ")[-1]
            cnt = int(last.split(" ")[0])
            dl = last.split(" d=")[1].split(" w=")[0]
            deliv = [p.split(":")[1] for p in dl.split(",") if p]
            if len(set(deliv)) != len(deliv):
                impl_oracle_failures.append({"sig": "duplicate", "ops": " ".join(s0), "observed": a, "why": "an item was delivered twice in single-loop history `%s`" % " ".join(s0)})
            elif cnt + len(deliv) != len(given):
                has_ab = any(o[0] == "a" for o in s)
                impl_oracle_failures.append({"sig": "lost-stale-reader" if has_ab else "lost-handoff", "ops": " ".join(s0), "observed": a,
                                             "why": ("single-loop history `%s`: %d item(s) given, %d delivered, ev/count %d: %d item(s) vanished after being handed to a reader that had abandoned its wait"
                                                     if has_ab else
                                                     "single-loop history `%s`: %d item(s) given, %d delivered, ev/count %d: %d item(s) handed to waiting readers never arrived although the loop ran 16 more turns (no wait was abandoned)")
                                                    % (" ".join(s0), len(given), len(deliv), cnt, len(given) - cnt - len(deliv))})
                cov["stale_hits"] += 1
            else:
                # liveness at quiescence: every item beyond the capacity accounts for at most one parked writer, and every
                # pop wakes one: a giver that is still parked (and did not give up) needs count > limit
                try:
                    limit = int(s[0][1:])
                    gdone = set(x for x in last.split(" g=")[1].split(",") if x)
                    dl2 = last.split(" d=")[1].split(" w=")[0]
                    gave_up = set(o[1:] for o in s if o[0] == "a")
                    parked = [o[1:].split(":")[0] for o in s if o[0] == "g" and o[1:].split(":")[0] not in gdone and o[1:].split(":")[0] not in gave_up]
                    if len(parked) > max(0, cnt - limit):
                        impl_oracle_failures.append({"sig": "writer-never-resumed", "ops": " ".join(s0), "observed": a,
                                                     "why": "single-loop history `%s`: giver fiber(s) %s still blocked in ev/give although the channel holds %d item(s) (capacity %d): "
                                                            "the wake-up was lost after an earlier parked giver abandoned its wait" % (" ".join(s0), ",".join(parked), cnt, limit)})
                except (ValueError, IndexError):
                    pass
    return diffs, len(seqs), cov
