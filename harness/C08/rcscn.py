"""C08 - reference-count / finalizer scenarios for harness/C08/rcprobe.c.

Shared objects (finalizer-counting probes, locks, thread channels, and the reply channel of every worker) are sent again and
again to threads that ALREADY hold them (echo through a worker and back, worker keeps it, give+take inside one thread, reply
channel travelling with every request).  At quiescent points (every worker has answered and collected, main has collected)
the real reference count of every watched object must equal  1 (C side) + number of threads that hold it + number of
UNDELIVERED messages that contain it and sit in a thread channel that is still alive;  after all workers are gone and main
dropped everything: 1; every probe finalized exactly once, before janet_deinit.

Undelivered messages ("strand" ops): a fresh carrier thread channel gets 1..3 messages that nobody takes; they carry watched
objects, fresh probes / locks / channels and NESTED carriers (a fresh channel with its own undelivered message).  The carrier is
dropped at once, kept by main until a later "release", or handed to a worker that keeps it until its next "drop" (then the
finalizer - janet_chan_deinit -> janet_chan_unpack(.., is_cleanup) -> JANET_MARSHAL_DECREF - runs in that worker's collector or at
its thread exit).  "takekept" delivers the oldest message of a kept carrier after all.  The in-transit reference of every
object in an undelivered message must be given back exactly once when the carrier is finalized, and an object whose LAST
reference was such a message must be finalized then."""
import os
import shutil
import subprocess
import tempfile

PRE = r'''
# every thread that can reach a lock USES it (acquire + release on the OS primitive that lives inside the shared abstract): the
# memory must be valid for as long as any thread reaches it (ASan build: heap-use-after-free otherwise)
(defn touch [x]
  (case (type x)
    :core/lock (do (ev/acquire-lock x) (ev/release-lock x))
    :core/rwlock (do (ev/acquire-rlock x) (ev/release-rlock x) (ev/acquire-wlock x) (ev/release-wlock x))
    nil)
  x)
(defn worker-main [[req back]]
  (def held @[])
  (forever
    (def msg (ev/take req))
    (if (nil? msg) (break))
    (case (msg 0)
      :echo (ev/give back [:echo (touch (msg 1))])
      :hold (do (array/push held (touch (msg 1))) (ev/give back [:held]))
      :drop (do (each h held (touch h)) (array/clear held) (gccollect) (ev/give back [:dropped]))
      :gc (do (gccollect) (ev/give back [:gcd])))))
'''


FRESH = ["probe", "probe", "lock", "rwlock", "chan"]


def gen_msg(rng, nobj, depth=0):
    items = []
    for _ in range(rng.range(1, 3)):
        k = rng.below(100)
        if k < 40:
            items.append(["obj", rng.below(nobj)])
        elif k < 75 or depth >= 2:
            items.append(["fresh", rng.choice(FRESH)])
        else:
            items.append(["nest", gen_msg(rng, nobj, depth + 1)])
    return items


def msg_count(items, i):
    """number of marshalled messages (this one + nested carriers' messages) that contain watched object i"""
    n = 1 if any(it[0] == "obj" and it[1] == i for it in items) else 0
    return n + sum(msg_count(it[1], i) for it in items if it[0] == "nest")


def gen(rng):
    nobj = rng.range(1, 5)
    kinds = [rng.choice(["probe", "probe", "lock", "lock", "rwlock", "chan"]) for _ in range(nobj)]
    nw = rng.range(1, 3)
    ops = []
    holds = [set() for _ in range(nw)]
    expect = []  # per check: list of expected counts for objects then reply channels
    carriers = []  # live carrier channels with undelivered messages: {"holder": "keep" | worker index, "msgs": [[item..]..]}
    kept = []      # carriers in main's `kept` array, by position

    def counts():
        tr = [sum(msg_count(m, i) for c in carriers for m in c["msgs"]) for i in range(nobj)]
        return [2 + sum(1 for h in holds if i in h) + tr[i] for i in range(nobj)] + [3] * nw

    for _ in range(rng.range(4, 25)):
        k = rng.below(100)
        o, w = rng.below(nobj), rng.below(nw)
        if k < 30:
            ops.append(("echo", w, o))
        elif k < 42:
            ops.append(("hold", w, o))
            holds[w].add(o)
        elif k < 52:
            ops.append(("drop", w))
            holds[w] = set()
            carriers = [c for c in carriers if c["holder"] != w]
        elif k < 57:
            ops.append(("self", o))
        elif k < 62:
            # a give that FAILS to pack after the object has already been marshalled into the transit buffer (an unmarshalable
            # value comes later in the message): the reference taken for the transit must be given back
            ops.append(("failgive", o, rng.choice(["flat", "nested", "select", "worker"]), w))
        elif k < 78:
            msgs = [gen_msg(rng, nobj) for _ in range(rng.range(1, 3))]
            hk = rng.below(3)
            holder = "now" if hk == 0 else ("keep" if hk == 1 else w)
            # the carrier may be CLOSED before it is let go (closing does not drain: the messages stay undelivered)
            closed = rng.chance(1, 4)
            ops.append(("strand", holder, msgs, closed))
            if holder != "now":
                c = {"holder": holder, "msgs": [list(m) for m in msgs], "closed": closed}
                carriers.append(c)
                if holder == "keep":
                    kept.append(c)
        elif k < 82:
            ops.append(("release",))
            carriers = [c for c in carriers if c["holder"] != "keep"]
            kept = []
        elif k < 89:
            # (ev/take on a closed channel gives nil without popping: only open carriers deliver late)
            live = [j for j, c in enumerate(kept) if c["msgs"] and not c["closed"]]
            if live:
                j = rng.choice(live)
                kept[j]["msgs"].pop(0)
                ops.append(("takekept", j))
        else:
            ops.append(("check",))
            expect.append(counts())
    ops.append(("check",))
    expect.append(counts())
    # after the workers ended only main's kept carriers still hold messages
    carriers = [c for c in carriers if c["holder"] == "keep"]
    holds = [set() for _ in range(nw)]
    end = [x - (1 if j < nobj and kinds[j] == "probe" else 0) for j, x in enumerate(counts())]
    end = end[:nobj] + [2] * nw
    return {"kinds": kinds, "nw": nw, "ops": ops, "expect": expect, "expect_end": end}


MK = {"probe": "(rc/probe)", "lock": "(ev/lock)", "rwlock": "(ev/rwlock)", "chan": "(ev/thread-chan 2)"}


def render_items(items):
    out = []
    for it in items:
        if it[0] == "obj":
            out.append("(objs %d)" % it[1])
        elif it[0] == "fresh":
            out.append("(touch %s)" % MK[it[1]])
        else:
            out.append("(let [n (ev/thread-chan 2)] (ev/give n [%s]) n)" % render_items(it[1]))
    return " ".join(out)


def render(scn):
    mk = MK
    # an error in the scenario script itself must end the process at once (worker threads would keep the loop alive for ever)
    o = [PRE, "(defn run-body []"]
    o.append("  (def objs [%s])" % " ".join((mk[k] if k == "probe" else "(rc/watch %s)" % mk[k]) for k in scn["kinds"]))
    o.append("  (def reqs @[]) (def backs @[]) (def done (ev/chan 8))")
    o.append("  (def loopc (ev/thread-chan 4)) (def kept @[])")
    for w in range(scn["nw"]):
        o.append("  (let [req (ev/thread-chan 2) back (rc/watch (ev/thread-chan 2))] (array/push reqs req) (array/push backs back)")
        o.append("    (ev/spawn (ev/thread worker-main [req back]) (ev/give done %d)))" % w)
    o.append("  (defn call [w msg] (ev/give (reqs w) msg) (ev/take (backs w)))")
    nchk = 0
    for op in scn["ops"]:
        if op[0] == "echo":
            o.append("  (let [r (call %d [:echo (objs %d) (backs %d)])] (if (not= (get r 1) (objs %d)) (print \"ECHO-MISMATCH %d\")))" % (op[1], op[2], op[1], op[2], op[2]))
        elif op[0] == "hold":
            o.append("  (call %d [:hold (objs %d) (backs %d)])" % (op[1], op[2], op[1]))
        elif op[0] == "drop":
            o.append("  (call %d [:drop nil (backs %d)])" % (op[1], op[1]))
        elif op[0] == "self":
            o.append("  (do (ev/give loopc [(objs %d)]) (if (not= ((ev/take loopc) 0) (objs %d)) (print \"SELF-MISMATCH\")))" % (op[1], op[1]))
        elif op[0] == "failgive":
            tgt = "(reqs %d)" % op[3] if op[2] == "worker" else "loopc"
            val = {"flat": "[(objs %d) (parser/new)]", "nested": "[1 @{:a (objs %d)} [(objs %d) \"s\" (parser/new)] (objs %d)]",
                   "select": "[(objs %d) @[(parser/new)]]", "worker": "[:echo (objs %d) (parser/new)]"}[op[2]].replace("%d", str(op[1]))
            call = "(ev/select [%s %s])" % (tgt, val) if op[2] == "select" else "(ev/give %s %s)" % (tgt, val)
            o.append("  (if (= :returned (try (do %s :returned) ([e] :raised))) (print \"FAILGIVE-RETURNED\"))" % call)
        elif op[0] == "strand":
            # the carrier and the fresh objects live only in the frame of this call (popped on return: no stale stack slot keeps them)
            gives = " ".join("(ev/give m [%s])" % render_items(m) for m in op[2])
            if op[1] == "now":
                fate = ""
            elif op[1] == "keep":
                fate = "(array/push kept m)"
            else:
                fate = "(call %d [:hold m (backs %d)])" % (op[1], op[1])
            if len(op) > 3 and op[3]:
                gives += " (ev/chan-close m)"
            o.append("  ((fn [] (def m (ev/thread-chan 4)) %s %s nil))" % (gives, fate))
        elif op[0] == "release":
            o.append("  (array/clear kept)")
        elif op[0] == "takekept":
            o.append("  ((fn [] (each x (ev/take (kept %d)) (touch x)) nil))" % op[1])
        else:
            o.append("  (for w 0 %d (call w [:gc nil (backs w)]))" % scn["nw"])
            o.append("  (gccollect)")
            o.append("  (each x objs (touch x))")
            o.append("  (print \"RC %d \" (string/join (map |(string (rc/count $)) [;objs ;backs]) \" \"))" % nchk)
            nchk += 1
    o.append("  (each r reqs (ev/chan-close r))")
    o.append("  (repeat %d (ev/take done))" % scn["nw"])
    o.append("  (gccollect)")
    o.append("  (each x objs (touch x))")
    o.append("  (print \"RCEND \" (string/join (map |(string (rc/count $)) [;objs ;backs]) \" \"))")
    o.append("  :finished)")
    o.append('(defn run [] (try (run-body) ([e] (print "SCRIPT-ERROR " e) (flush) (os/exit 3))))')
    o.append("(defn collect [] (gccollect) (gccollect) :collected)")
    return "\n".join(o) + "\n"


def run_one(exe, scn, env=None, timeout=120):
    d = tempfile.mkdtemp(prefix="c08rc-", dir="/var/tmp")
    try:
        p = os.path.join(d, "rc.janet")
        with open(p, "w") as f:
            f.write(render(scn))
        try:
            r = subprocess.run([exe, p], stdout=subprocess.PIPE, stderr=subprocess.PIPE, timeout=timeout, env=env, cwd=d)
            return r.returncode, r.stdout.decode(errors="replace"), r.stderr.decode(errors="replace")[-3000:]
        except subprocess.TimeoutExpired as e:
            return None, (e.stdout or b"").decode(errors="replace"), (e.stderr or b"").decode(errors="replace")[-3000:]
    finally:
        shutil.rmtree(d, ignore_errors=True)


def oracle(scn, rc, out, err):
    """-> list of (signature, description); never raises on malformed output"""
    bad = []
    nobj, nw = len(scn["kinds"]), scn["nw"]
    lines = out.splitlines()
    try:
        if rc != 0:
            bad.append(("refcount-run-failed", "refcount scenario did not run to completion: rc=%r out tail %r stderr %s" % (rc, lines[-3:], err[-400:])))
        for l in lines:
            if l.startswith(("ECHO-MISMATCH", "SELF-MISMATCH", "NOT-FINISHED", "SCRIPT-ERROR", "FAILGIVE-RETURNED")):
                bad.append(("shared-object-identity", "shared object came back as a different object / script failed: " + l))
        checks = [l.split()[1:] for l in lines if l.startswith("RC ")]
        for chk in checks:
            i = int(chk[0])
            got = [int(x) for x in chk[1:]]
            exp = [e - (1 if j < nobj and scn["kinds"][j] == "probe" else 0) for j, e in enumerate(scn["expect"][i])]
            if got != exp:
                bad.append(("refcount-mismatch", "quiescent point %d: reference counts %r, live references (C side + holding threads) %r "
                            "[objects %r then %d reply channels]" % (i, got, exp, scn["kinds"], nw)))
                break
        if rc == 0 and len(checks) != len(scn["expect"]):
            bad.append(("refcount-run-failed", "expected %d quiescent reports, saw %d" % (len(scn["expect"]), len(checks))))
        end = [l for l in lines if l.startswith("RCEND ")]
        if end:
            got = [int(x) for x in end[0].split()[1:]]
            exp_end = scn.get("expect_end") or ([1 if k == "probe" else 2 for k in scn["kinds"]] + [2] * nw)
            if got != exp_end:
                bad.append(("refcount-mismatch", "after all worker threads ended: reference counts %r, expected %r (C side + main thread "
                            "+ undelivered messages in carriers main still keeps; probes have no C side)" % (got, exp_end)))
        fin = [l.split() for l in lines if l.startswith("FINAL ")]
        stuck = [(int(a), int(b)) for _, a, b in fin if int(b) != 1]
        if stuck:
            bad.append(("refcount-not-released", "after the last reference was dropped and collected, %d shared object(s) still have references "
                        "(index, count) %r - never finalized" % (len(stuck), stuck[:6])))
        pr = [l.split() for l in lines if l.startswith("PROBES ")]
        if pr:
            c, b, a = int(pr[0][1]), int(pr[0][2]), int(pr[0][3])
            if b != c or a != c:
                bad.append(("refcount-not-released" if a <= c else "finalized-twice",
                            "%d probe object(s) created, %d finalized after the last drop + collection, %d after janet_deinit (each must be finalized exactly once)" % (c, b, a)))
        elif rc == 0:
            bad.append(("refcount-run-failed", "no PROBES line"))
    except (ValueError, IndexError) as e:
        bad.append(("refcount-run-failed", "unparsable harness output (%r): %r" % (e, lines[-5:])))
    return bad
