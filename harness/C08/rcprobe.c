/* C08 - reference-count / finalizer probe.  Links libjanet.a of the build under test, adds
 *   (rc/probe)      new threaded abstract whose finalizer counts its invocations
 *   (rc/watch x)    take one C-side reference on threaded abstract x and remember it (memory stays readable); returns x
 *   (rc/count x)    current reference count of threaded abstract x
 *   (rc/finalized)  [probes created, finalizer runs so far]
 * runs the janet program given as argv[1] (all event loops included), then reports
 *   FINAL <i> <refcount>      for every watched object (expected 1 = the C side's own reference)
 *   PROBES <created> <finalized-before-deinit> <finalized-after-deinit>
 * Every shared object must be finalized exactly once after the last reference is dropped. */
#include <janet.h>
#include <stdio.h>
#include <stdlib.h>
#include <string.h>

static volatile int created = 0, finalized = 0;

static int probe_gc(void *p, size_t s) {
    (void) s;
    int *ip = p;
    if (*ip != 0x5eed) __sync_fetch_and_add(&finalized, 1000); /* finalized twice / corrupted */
    *ip = 0;
    __sync_fetch_and_add(&finalized, 1);
    return 0;
}
static const JanetAbstractType probe_type = {"c08/probe", probe_gc, JANET_ATEND_GC};

static Janet cfun_probe(int32_t argc, Janet *argv) {
    (void) argv;
    janet_fixarity(argc, 0);
    int *p = janet_abstract_threaded(&probe_type, sizeof(int));
    *p = 0x5eed;
    __sync_fetch_and_add(&created, 1);
    return janet_wrap_abstract(p);
}

static void *watched[256];
static volatile int nwatched = 0;
static Janet cfun_watch(int32_t argc, Janet *argv) {
    janet_fixarity(argc, 1);
    if (!janet_checktype(argv[0], JANET_ABSTRACT)) janet_panic("abstract expected");
    void *a = janet_unwrap_abstract(argv[0]);
    int i = __sync_fetch_and_add(&nwatched, 1);
    if (i >= 256) janet_panic("too many watched objects");
    janet_abstract_incref(a);
    watched[i] = a;
    return argv[0];
}
static Janet cfun_count(int32_t argc, Janet *argv) {
    janet_fixarity(argc, 1);
    if (!janet_checktype(argv[0], JANET_ABSTRACT)) janet_panic("abstract expected");
    return janet_wrap_integer(janet_abstract_head(janet_unwrap_abstract(argv[0]))->gc.data.refcount);
}
/* (rc/finalized): [probes created, probe finalizer runs so far] */
static Janet cfun_finalized(int32_t argc, Janet *argv) {
    (void) argv;
    janet_fixarity(argc, 0);
    Janet tup[2] = {janet_wrap_integer(created), janet_wrap_integer(finalized)};
    return janet_wrap_tuple(janet_tuple_n(tup, 2));
}
/* A second OS thread (own VM) touches thread channel `p` through the C API (mode 0: janet_channel_give 7, mode 1: janet_channel_take).
 * If the channel mutex was left locked by the thread under test, the second thread blocks for ever in pthread_mutex_lock.
 * The verdict is logical, not a wall-clock limit: the helper is declared blocked only when the kernel reports it SLEEPING
 * (state S in /proc/self/task/<tid>/stat: parked in the futex) on 40 consecutive samples after it entered the call;
 * a thread that is merely starved on a loaded machine is runnable (state R) and is waited for. */
#include <pthread.h>
#include <unistd.h>
#include <sys/syscall.h>
static volatile int touch_done, touch_entered, touch_mode;
static volatile long touch_tid;
static void *touch_thread(void *p) {
    touch_tid = (long) syscall(SYS_gettid);
    janet_init();
    touch_entered = 1;
    if (touch_mode == 0) {
        janet_channel_give((JanetChannel *) p, janet_wrap_integer(7));
    } else {
        Janet out;
        janet_channel_take((JanetChannel *) p, &out);
    }
    touch_done = 1;
    janet_deinit();
    return NULL;
}
static char thread_state(long tid) {
    char path[64], buf[512];
    snprintf(path, sizeof path, "/proc/self/task/%ld/stat", tid);
    FILE *f = fopen(path, "r");
    if (!f) return '?';
    size_t n = fread(buf, 1, sizeof buf - 1, f);
    fclose(f);
    buf[n] = 0;
    char *q = strrchr(buf, ')');
    return (q && q[1] == ' ') ? q[2] : '?';
}
/* -> 1 if the other thread completed its channel operation, 0 if it is blocked */
static int other_thread_touch(JanetChannel *ch, int mode) {
    touch_done = 0; touch_entered = 0; touch_tid = 0; touch_mode = mode;
    pthread_t t;
    pthread_create(&t, NULL, touch_thread, ch);
    pthread_detach(t);
    int asleep = 0;
    while (!touch_done) {
        usleep(5000);
        if (touch_entered && thread_state(touch_tid) == 'S') {
            if (++asleep >= 40) break;
        } else {
            asleep = 0;
        }
    }
    return touch_done;
}
/* (rc/capi-take c): janet_channel_take on thread channel c from C; then a second OS thread does janet_channel_give on the same
 * channel.  Returns [take-result give-completed]. */
static Janet cfun_capi_take(int32_t argc, Janet *argv) {
    janet_fixarity(argc, 1);
    JanetChannel *ch = janet_getchannel(argv, 0);
    Janet out;
    int r = janet_channel_take(ch, &out);
    int done = other_thread_touch(ch, 0);
    Janet tup[2] = {janet_wrap_integer(r), janet_wrap_boolean(done)};
    return janet_wrap_tuple(janet_tuple_n(tup, 2));
}
/* (rc/other-thread-take c): a second OS thread does janet_channel_take on thread channel c; true if it completed */
static Janet cfun_other_take(int32_t argc, Janet *argv) {
    janet_fixarity(argc, 1);
    return janet_wrap_boolean(other_thread_touch(janet_getchannel(argv, 0), 1));
}
/* (rc/capi-make-threaded n): janet_channel_make_threaded from C */
static Janet cfun_capi_make(int32_t argc, Janet *argv) {
    janet_fixarity(argc, 1);
    return janet_wrap_abstract(janet_channel_make_threaded((uint32_t) janet_getinteger(argv, 0)));
}
static const JanetReg cfuns[] = {
    {"rc/capi-take", cfun_capi_take, NULL}, {"rc/other-thread-take", cfun_other_take, NULL}, {"rc/capi-make-threaded", cfun_capi_make, NULL},
    {"rc/probe", cfun_probe, NULL}, {"rc/finalized", cfun_finalized, NULL}, {"rc/watch", cfun_watch, NULL}, {"rc/count", cfun_count, NULL}, {NULL, NULL, NULL}
};

int main(int argc, char **argv) {
    if (argc < 2) return 2;
    FILE *f = fopen(argv[1], "rb");
    if (!f) return 2;
    fseek(f, 0, SEEK_END);
    long n = ftell(f);
    fseek(f, 0, SEEK_SET);
    char *src = malloc(n + 1);
    if (fread(src, 1, n, f) != (size_t) n) return 2;
    src[n] = 0;
    fclose(f);
    janet_init();
    JanetTable *env = janet_core_env(NULL);
    janet_cfuns(env, NULL, cfuns);
    Janet out;
    /* the program only defines `run` and `collect` (janet_dobytes does not drive the event loop form by form) */
    int rc = janet_dobytes(env, (const uint8_t *) src, (int32_t) n, argv[1], &out);
    const char *phases[] = {"run", "collect"};
    for (int ph = 0; ph < 2 && !rc; ph++) {
        Janet fv;
        janet_resolve(env, janet_csymbol(phases[ph]), &fv);
        if (!janet_checktype(fv, JANET_FUNCTION)) { rc = 4; break; }
        JanetFiber *fiber = janet_fiber(janet_unwrap_function(fv), 64, 0, NULL);
        fiber->env = env;
        janet_gcroot(janet_wrap_fiber(fiber));
        janet_schedule(fiber, janet_wrap_nil());
        janet_loop();
        if (janet_fiber_status(fiber) != JANET_STATUS_DEAD || !janet_checktype(fiber->last_value, JANET_KEYWORD)) rc = 5;
        janet_gcunroot(janet_wrap_fiber(fiber));
    }
    fflush(stdout);
    if (rc) {
        printf("SCRIPT-ERROR %d\n", rc);
    }
    int before = finalized;
    for (int i = 0; i < nwatched; i++)
        printf("FINAL %d %d\n", i, (int) janet_abstract_head(watched[i])->gc.data.refcount);
    janet_deinit();
    printf("PROBES %d %d %d\n", created, before, finalized);
    return rc ? 3 : 0;
}
