/* C08 - reference-count / finalizer probe.  Links libjanet.a of the build under test, adds
 *   (rc/probe)      new threaded abstract whose finalizer counts its invocations
 *   (rc/watch x)    take one C-side reference on threaded abstract x and remember it (memory stays readable); returns x
 *   (rc/count x)    current reference count of threaded abstract x
 * runs the janet program given as argv[1] (all event loops included), then reports
 *   FINAL <i> <refcount>      for every watched object (expected 1 = the C side's own reference)
 *   PROBES <created> <finalized-before-deinit> <finalized-after-deinit>
 * Every shared object must be finalized exactly once after the last reference is dropped. */
#include <janet.h>
#include <stdio.h>
#include <stdlib.h>
#include <string.h>

static volatile int created = 0, finalized = 0;

static int probe_gc(void *p, size_t s) {
    (void) s;
    int *ip = p;
    if (*ip != 0x5eed) __sync_fetch_and_add(&finalized, 1000); /* finalized twice / corrupted */
    *ip = 0;
    __sync_fetch_and_add(&finalized, 1);
    return 0;
}
static const JanetAbstractType probe_type = {"c08/probe", probe_gc, JANET_ATEND_GC};

static Janet cfun_probe(int32_t argc, Janet *argv) {
    (void) argv;
    janet_fixarity(argc, 0);
    int *p = janet_abstract_threaded(&probe_type, sizeof(int));
    *p = 0x5eed;
    __sync_fetch_and_add(&created, 1);
    return janet_wrap_abstract(p);
}

static void *watched[256];
static volatile int nwatched = 0;
static Janet cfun_watch(int32_t argc, Janet *argv) {
    janet_fixarity(argc, 1);
    if (!janet_checktype(argv[0], JANET_ABSTRACT)) janet_panic("abstract expected");
    void *a = janet_unwrap_abstract(argv[0]);
    int i = __sync_fetch_and_add(&nwatched, 1);
    if (i >= 256) janet_panic("too many watched objects");
    janet_abstract_incref(a);
    watched[i] = a;
    return argv[0];
}
static Janet cfun_count(int32_t argc, Janet *argv) {
    janet_fixarity(argc, 1);
    if (!janet_checktype(argv[0], JANET_ABSTRACT)) janet_panic("abstract expected");
    return janet_wrap_integer(janet_abstract_head(janet_unwrap_abstract(argv[0]))->gc.data.refcount);
}
/* (rc/capi-take c): janet_channel_take on thread channel c from C; then a second OS thread (own VM) does janet_channel_give on
 * the same channel.  Returns [take-result give-completed]: if janet_channel_take returned with the channel mutex held, the
 * second thread blocks for ever (3 s hang detector). */
#include <pthread.h>
#include <unistd.h>
static volatile int give_done;
static void *give_thread(void *p) {
    janet_init();
    janet_channel_give((JanetChannel *) p, janet_wrap_integer(7));
    give_done = 1;
    janet_deinit();
    return NULL;
}
static Janet cfun_capi_take(int32_t argc, Janet *argv) {
    janet_fixarity(argc, 1);
    JanetChannel *ch = janet_getchannel(argv, 0);
    Janet out;
    int r = janet_channel_take(ch, &out);
    give_done = 0;
    pthread_t t;
    pthread_create(&t, NULL, give_thread, ch);
    pthread_detach(t);
    for (int i = 0; i < 300 && !give_done; i++) usleep(10000);
    Janet tup[2] = {janet_wrap_integer(r), janet_wrap_boolean(give_done)};
    return janet_wrap_tuple(janet_tuple_n(tup, 2));
}
/* (rc/capi-make-threaded n): janet_channel_make_threaded from C */
static Janet cfun_capi_make(int32_t argc, Janet *argv) {
    janet_fixarity(argc, 1);
    return janet_wrap_abstract(janet_channel_make_threaded((uint32_t) janet_getinteger(argv, 0)));
}
static const JanetReg cfuns[] = {
    {"rc/capi-take", cfun_capi_take, NULL}, {"rc/capi-make-threaded", cfun_capi_make, NULL},
    {"rc/probe", cfun_probe, NULL}, {"rc/watch", cfun_watch, NULL}, {"rc/count", cfun_count, NULL}, {NULL, NULL, NULL}
};

int main(int argc, char **argv) {
    if (argc < 2) return 2;
    FILE *f = fopen(argv[1], "rb");
    if (!f) return 2;
    fseek(f, 0, SEEK_END);
    long n = ftell(f);
    fseek(f, 0, SEEK_SET);
    char *src = malloc(n + 1);
    if (fread(src, 1, n, f) != (size_t) n) return 2;
    src[n] = 0;
    fclose(f);
    janet_init();
    JanetTable *env = janet_core_env(NULL);
    janet_cfuns(env, NULL, cfuns);
    Janet out;
    /* the program only defines `run` and `collect` (janet_dobytes does not drive the event loop form by form) */
    int rc = janet_dobytes(env, (const uint8_t *) src, (int32_t) n, argv[1], &out);
    const char *phases[] = {"run", "collect"};
    for (int ph = 0; ph < 2 && !rc; ph++) {
        Janet fv;
        janet_resolve(env, janet_csymbol(phases[ph]), &fv);
        if (!janet_checktype(fv, JANET_FUNCTION)) { rc = 4; break; }
        JanetFiber *fiber = janet_fiber(janet_unwrap_function(fv), 64, 0, NULL);
        fiber->env = env;
        janet_gcroot(janet_wrap_fiber(fiber));
        janet_schedule(fiber, janet_wrap_nil());
        janet_loop();
        if (janet_fiber_status(fiber) != JANET_STATUS_DEAD || !janet_checktype(fiber->last_value, JANET_KEYWORD)) rc = 5;
        janet_gcunroot(janet_wrap_fiber(fiber));
    }
    fflush(stdout);
    if (rc) {
        printf("SCRIPT-ERROR %d\n", rc);
    }
    int before = finalized;
    for (int i = 0; i < nwatched; i++)
        printf("FINAL %d %d\n", i, (int) janet_abstract_head(watched[i])->gc.data.refcount);
    janet_deinit();
    printf("PROBES %d %d %d\n", created, before, finalized);
    return rc ? 3 : 0;
}
