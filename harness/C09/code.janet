# C09 harness, code objects and abstract types: closures sharing captured variables, suspended fibers, compiled PEGs,
# channels with queued items, boxed 64-bit integers, and asm(disasm f).  These are compared *behaviourally*: the
# original and the copy are driven with the same argument sequences and every observable result must agree.
#   janet code.janet <seed> <rounds>
# prints one line per scenario instance:  <name> ok | <name> FAIL:<detail>

(def args (dyn :args))
(def seed (scan-number (get args 1 "1")))
(def rounds (scan-number (get args 2 "5")))
(def rng (math/rng seed))
(defn rnd [n] (math/rng-int rng n))
(defn chance [p] (< (rnd 100) p))

(def mdict make-image-dict)
(def ldict load-image-dict)
(defn copy-with-dict [x] (unmarshal (marshal x mdict) ldict))
(defn copy-plain [x] (unmarshal (marshal x)))

(defn same [x y]
  (cond
    (and (number? x) (number? y)) (or (= x y) (and (nan? x) (nan? y)))
    (and (indexed? x) (indexed? y)) (and (= (type x) (type y)) (= (length x) (length y)) (all same x y))
    (and (dictionary? x) (dictionary? y)) (and (= (type x) (type y)) (= (length x) (length y))
                                               (all (fn [k] (same (get x k) (get y k))) (keys x)))
    (and (buffer? x) (buffer? y)) (= (string x) (string y))
    (deep= x y)))

(var nfail 0)
(defn report [name detail]
  (if detail
    (do (++ nfail) (print name " FAIL:" detail))
    (print name " ok")))

(defn call-p [f & as]
  (def fib (fiber/new (fn [] (f ;as)) :e))
  (def r (resume fib))
  [(fiber/status fib) (if (= (fiber/status fib) :error) (string (peg/replace-all '(* "0x" (some (range "09" "AF" "af"))) "0x?" (string r))) r)])

(defn rand-int [] (case (rnd 6) 0 0 1 1 2 -1 3 (rnd 1000) 4 (- (rnd 100000) 50000) (rnd 7)))
(defn rand-args [n] (seq [_ :range [0 n]] (rand-int)))

# ------------------------------------------------------------------ closures sharing mutable captured variables
(defn make-closures [init step]
  (var n init)
  (var log @[])
  {:inc (fn [] (set n (+ n step)))
   :get (fn [] n)
   :add (fn [x] (set n (+ n x)) (array/push log x) n)
   :log (fn [] (array/slice log))
   :reset (fn [] (set log @[]) (set n init))
   :nested (fn [k] (fn [] (set n (+ n k))))})

(defn drive-closures [cl ops]
  (def out @[])
  (each [op arg] ops
    (array/push out
      (case op
        :inc ((cl :inc))
        :get ((cl :get))
        :add ((cl :add) arg)
        :log ((cl :log))
        :reset (do ((cl :reset)) nil)
        :nested (((cl :nested) arg)))))
  out)

(defn scenario-closures [round]
  (def cl (make-closures (rand-int) (+ 1 (rnd 5))))
  # warm up so that the captured state is not the initial one
  (drive-closures cl (seq [_ :range [0 (rnd 4)]] [(in [:inc :add :nested] (rnd 3)) (rand-int)]))
  (def cl2 (copy-with-dict cl))
  (def ops (seq [_ :range [0 (+ 3 (rnd 12))]] [(in [:inc :get :add :log :reset :nested] (rnd 6)) (rand-int)]))
  (def a (drive-closures cl ops))
  (def b (drive-closures cl2 ops))
  (report (string "closures-shared-env/" round)
          (cond
            (not (same a b)) (string/format "results differ: %q vs %q ops %q" a b ops)
            # the copy must not alias the original's variables
            (do ((cl :reset)) ((cl :add) 12345) (= ((cl :get)) ((cl2 :get)))) (string "copy aliases the original after " (string/format "%q" ops)))))

# closures whose environment is still on the stack of a suspended fiber
(defn scenario-onstack-env [round]
  (def start (rand-int))
  (def nyield (+ 2 (rnd 4)))
  (defn body []
    (var x start)
    (var y (* 2 start))
    (def bump (fn [k] (set x (+ x k)) (set y (- y 1)) [x y]))
    (def peek (fn [] [x y]))
    (yield [bump peek])
    (for i 0 nyield
      (set x (+ x (or (yield [x y]) 0))))
    [:done x y])
  (def f (fiber/new body :yi))
  (def [bump peek] (resume f))
  (repeat (rnd 3) (bump (rand-int)))
  (repeat (rnd 2) (resume f (rand-int)))
  (def [f2 bump2 peek2] (copy-with-dict [f bump peek]))
  (def script (seq [_ :range [0 (+ 4 (rnd 8))]] [(rnd 3) (rand-int)]))
  (defn drive [f bump peek]
    (def out @[])
    (each [op arg] script
      (array/push out
        (case op
          0 (bump arg)
          1 (peek)
          2 (if (fiber/can-resume? f) [(resume f arg) (fiber/status f)] [:not-resumable (fiber/status f)]))))
    (array/push out (peek))
    (array/push out (fiber/status f))
    out)
  (def a (drive f bump peek))
  (def b (drive f2 bump2 peek2))
  (report (string "closure-env-on-fiber-stack/" round)
          (if (not (same a b)) (string/format "results differ: %q vs %q script %q" a b script))))

# closures marshalled while their environment lives on the stack of the *running* fiber (early detach path)
(defn scenario-alive-env [round]
  (def k (rand-int))
  (defn run []
    (var x k)
    (def g (fn [d] (set x (+ x d)) x))
    (def h (fn [] x))
    (g 1)
    (def [g2 h2] (copy-with-dict [g h]))
    (def ds (rand-args 5))
    (def x0 (h))
    (def b (map g2 ds))
    (def b-final (h2))
    (def untouched (= (h) x0))
    (def a (map g ds))
    [a (h) b b-final untouched])
  (def [a af b bf untouched] (run))
  (report (string "closure-env-on-running-fiber/" round)
          (cond
            (not untouched) "calling the copy changed the original's variable"
            (not (same a b)) (string/format "results differ: %q vs %q" a b)
            (not (same af bf)) (string/format "final values differ: %q vs %q" af bf))))

# ------------------------------------------------------------------ closures over big frames (closure bitset word boundaries)
# The owner has P parameters (slots 0..P-1) followed by a few vars; the closures capture slots at and around the
# 32-slot word boundaries of def->closure_bitset (31, 32, 33, 63, 64, 65 ...).  Three ways to marshal them:
#   :running   from inside the still-running owner (env on the stack of a fiber that cannot be marshalled: early detach)
#   :suspended the owner is a suspended fiber, marshalled together with the closures (env on the fiber's stack)
#   :detached  after the owner returned
(defn scenario-bigframe [round]
  (def sizes [31 32 33 34 40 63 64 65 66 80 1 2 16 96])
  (def P (if (< round (length sizes)) (in sizes round) (+ 1 (rnd 100))))
  (def nvars (+ 1 (rnd 4)))
  (def params (seq [i :range [0 P]] (symbol "p" i)))
  (def vars (seq [i :range [0 nvars]] (symbol "c" i)))
  (def all (array/concat @[] params vars))
  (def n (length all))
  (def idxs (distinct (filter |(and (>= $ 0) (< $ n)) [0 1 30 31 32 33 62 63 64 65 95 96 (- P 1) P (- n 1) (rnd n) (rnd n)])))
  (def cap (map |(in all $) idxs))
  (def capvars (filter |(index-of $ vars) cap))
  (def varinit (map (fn [v i] ~(var ,v ,(+ 5000 (* 7 i)))) vars (range nvars)))
  (def getter ~(fn [] [,;cap]))
  (def bump ~(fn [d] ,;(map (fn [v] ~(set ,v (+ ,v d))) capvars) nil))
  (def args (seq [i :range [0 P]] (+ 1 (* 3 i))))
  (def problems @[])
  (defn check [mode res]
    (def [a b c d] res)
    (unless (same a b) (array/push problems (string/format "%s: P=%d captured slots %q: original sees %q, copy sees %q" mode P idxs a b)))
    (unless (same c d) (array/push problems (string/format "%s: P=%d after bump: original %q, copy %q" mode P d c))))
  # running owner
  (def f-running (eval ~(fn [,;params] ,;varinit
                          (def getter ,getter) (def bump ,bump)
                          (def [g2 b2] (,unmarshal (,marshal [getter bump] (quote ,mdict)) (quote ,ldict)))
                          (def a (getter)) (def b (g2))
                          (if (not (,deep= a b))
                            [a b :skipped :skipped]
                            (do (b2 7) (def c (g2))
                                (bump 7) (def d (getter))
                                [a b c d])))))
  (check :running (f-running ;args))
  # detached
  (def f-detached (eval ~(fn [,;params] ,;varinit [,getter ,bump])))
  (let [[g b] (f-detached ;args)
        [g2 b2] (copy-with-dict [g b])]
    (def a (g)) (def bb (g2))
    (if (not (deep= a bb)) (check :detached [a bb :skipped :skipped])
      (do (b2 7) (def c (g2)) (b 7) (def d (g))
          (check :detached [a bb c d]))))
  # suspended fiber
  (def f-susp (eval ~(fn [,;params] ,;varinit (yield [,getter ,bump]) (yield (,tuple ,;cap)) :done)))
  (let [fib (fiber/new (fn [] (f-susp ;args)) :yi)
        [g b] (resume fib)
        [g2 b2 fib2] (copy-with-dict [g b fib])]
    (def a (g)) (def bb (g2))
    (if (not (deep= a bb)) (check :suspended [a bb :skipped :skipped])
      (do (b2 7) (def c [(g2) (resume fib2)]) (b 7) (def d [(g) (resume fib)])
          (check :suspended [a bb c d]))))
  (report (string "closure-bigframe/P" P "/" round) (if (empty? problems) nil (string/join problems "; "))))

# ------------------------------------------------------------------ suspended fibers
(defn gen-fiber-body [kind p q]
  (case kind
    0 (fn [] (var acc p) (for i 0 (+ 2 q) (set acc (+ acc (or (yield [i acc]) 1)))) acc)
    1 (fn [] (def inner (fiber/new (fn [] (for j 0 (+ 1 q) (yield (* j p))) :inner-done) :yi))
        (var tot 0)
        (while (fiber/can-resume? inner)
          (def v (resume inner))
          (set tot (+ tot (if (number? v) v 0)))
          (yield [v tot]))
        tot)
    2 (fn [] (def t @{:count p}) (def b @"")
        (forever
          (def v (yield (table/clone t)))
          (when (= v :stop) (break))
          (put t :count (+ (t :count) 1))
          (put t (t :count) v)
          (buffer/push b (string v)))
        [(string b) t])
    3 (fn [] (defn rec [n] (if (<= n 0) (yield :bottom) (+ 1 (rec (- n 1))))) (def r (rec (+ 1 (% q 6)))) (yield r) (error (string "boom" p)))
    4 (fn [] (try (do (yield 1) (error "inside")) ([e] (yield [:caught e]))) (yield p) :end)
    (fn [] (var s [p]) (loop [i :range [0 (+ 1 q)]] (set s [i s (yield s)])) s)))

(defn drive-fiber [f inputs]
  (def out @[])
  (each v inputs
    (if (fiber/can-resume? f)
      (let [r (try (resume f v) ([e] [:error (string e)]))]
        (array/push out [r (fiber/status f)]))
      (array/push out [:dead (fiber/status f)])))
  out)

(defn scenario-fiber [round]
  (def kind (rnd 6))
  (def body (gen-fiber-body kind (rand-int) (rnd 6)))
  (def f (fiber/new body :yie))
  (def pre (seq [_ :range [0 (rnd 4)]] (if (chance 10) :stop (rand-int))))
  (drive-fiber f pre)
  (def f2 (copy-with-dict f))
  (def st-same (= (fiber/status f) (fiber/status f2)))
  (def inputs (seq [_ :range [0 (+ 2 (rnd 8))]] (if (chance 10) :stop (rand-int))))
  (def a (drive-fiber f inputs))
  (def b (drive-fiber f2 inputs))
  (report (string "suspended-fiber/kind" kind "/" round)
          (cond
            (not st-same) "status differs right after unmarshal"
            (not (same a b)) (string/format "traces differ: %q vs %q pre %q inputs %q" a b pre inputs))))

# ------------------------------------------------------------------ suspended fibers over several generations
# A marshalable suspended fiber must round-trip at EVERY point of its life, not only once: the copy is resumed and copied
# again (copy of the copy of the copy ...), and the original is marshalled again after it has moved on.  Both directions
# matter: unmarshal must not leave image-only bits in the copy (seed C09-8: HASCHILD kept, the next image of the copy
# promises a child that is not written), and marshal must not leave anything in the original (the frame's HASENV bit was
# stored in the live frame; a tail call clears frame->env and keeps frame->flags).
# `make` builds a fresh state deterministically (a fiber, or a tuple [fiber closure closure] marshalled as one unit);
# a never-marshalled twin gives the reference trace.
(defn scrub [s] (string (peg/replace-all '(* "0x" (some (range "09" "AF" "af"))) "0x?" (string s))))

(defn mg-step [s [op arg]]
  (def f (if (fiber? s) s (in s 0)))
  (if (or (fiber? s) (= op 2))
    (if (fiber/can-resume? f)
      (let [r (try (resume f arg) ([e] [:error (scrub e)]))]
        [(if (= (fiber/status f) :error) (scrub r) r) (fiber/status f)])
      [:not-resumable (fiber/status f)])
    (if (= op 0) ((in s 1) arg) ((in s 2)))))

(defn mg-rt [s] (try [true (copy-with-dict s)] ([e] [false (scrub e)])))

(defn multi-gen [name make inputs]
  (def n (length inputs))
  (def ref (let [s (make)] (map |(mg-step s $) inputs)))
  (var bad nil)
  (defn fail [& xs] (unless bad (set bad (string ;xs (string/format " [inputs %q]" inputs)))))
  # copy of the copy: the state is replaced by its round trip before the steps listed in `at`
  (each [mode at] [[:every-step (range n)]
                   [:first-3 (range (min 3 n))]
                   [:random (filter (fn [_] (chance 50)) (range n))]
                   [:late (range (min n (+ 1 (rnd 3))) n)]
                   [:twice-per-step (range n)]]
    (unless bad
      (var s (make))
      (var gen 0)
      (def out @[])
      (for k 0 n
        (when (and (not bad) (index-of k at))
          (repeat (if (= mode :twice-per-step) 2 1)
            (unless bad
              (def [ok c] (mg-rt s))
              (++ gen)
              (if ok
                (set s c)
                (fail mode ": generation " gen " (copy of the copy, before step " k "): marshal/unmarshal raised: " c)))))
        (unless bad (array/push out (mg-step s (in inputs k)))))
      (unless (or bad (same out ref))
        (fail mode (string/format ": copies taken before steps %q behave differently: %q vs never-marshalled %q" at out ref)))))
  # the original is marshalled before every step and goes on itself; every copy is driven over the rest of the script
  (unless bad
    (def s (make))
    (for k 0 n
      (unless bad
        (def [ok c] (mg-rt s))
        (if (not ok)
          (fail "original-remarshalled: marshal number " (+ k 1) " of the same live fiber (before step " k ") raised: " c)
          (let [rest (map |(mg-step c $) (array/slice inputs k))]
            (unless (same rest (array/slice ref k))
              (fail (string/format "original-remarshalled: copy taken before step %d behaves differently: %q vs %q" k rest (array/slice ref k))))))
        (def r (mg-step s (in inputs k)))
        (unless (same r (in ref k))
          (fail (string/format "original-remarshalled: the original itself behaves differently at step %d after having been marshalled: %q vs %q" k r (in ref k)))))))
  (report name bad))

# reached by a tail call from a frame that had an on-stack environment; yields, then may tail-call again
(defn tail-yielder [x n]
  (var acc x)
  (def peek (fn [] acc))
  (for i 0 n (set acc (+ acc (or (yield [:t i (peek)]) 1))))
  (if (> n 1) (tail-yielder (peek) (- n 2)) [:tail-done acc]))

# the same without any closure of its own: the frame it inherits by the tail call has no environment any more
(defn tail-plain [x n]
  (var acc x)
  (for i 0 n (set acc (+ acc (let [v (yield [:p i acc])] (if (number? v) v 1)))))
  (if (> n 1) (if (odd? n) (tail-yielder acc (- n 2)) (tail-plain acc (- n 2))) [:plain-done acc]))
(defn tail-any [x n] (if (odd? n) (tail-plain x n) (tail-yielder x n)))

# non-tail recursion: every frame of the suspended fiber has an on-stack environment; they are detached one by one on the way up
(defn env-levels [n p]
  (var loc (+ n p))
  (def cl (fn [d] (set loc (+ loc d))))
  (def v (yield [:lvl n (cl 1)]))
  (def below (if (> n 0) (env-levels (- n 1) (+ p (if (number? v) v 0))) 0))
  (def w (yield [:up n (cl below)]))
  (+ loc (if (number? w) w 0)))

# child chains: the child's mask (:e) does not contain yield, so its yields pass through the parent, which is then suspended
# with a child link; ys gives the number of own yields per level, so the children finish at different generations
(defn chain-body [depth p ys]
  (fn []
    (var acc p)
    (def bump (fn [d] (set acc (+ acc (if (number? d) d 1)))))
    (when (> depth 0)
      (def c (fiber/new (chain-body (- depth 1) (+ p 1) (tuple/slice ys 1)) :e))
      (bump (resume c))
      (when (odd? p)
        (def c2 (fiber/new (chain-body (- depth 1) (+ p 2) (tuple/slice ys 1)) :e))
        (bump (resume c2 acc))))
    (for i 0 (get ys 0 1)
      (bump (yield [:lvl depth i acc])))
    (if (= 3 (% (math/abs p) 5)) (error (string "boom" acc)) acc)))

(defn mg-make [kind p q ys]
  (case kind
    # 0..5: the single-generation bodies
    6 (fn [] (fiber/new (chain-body 1 p ys) :ye))
    7 (fn [] (fiber/new (chain-body 2 p ys) :ye))
    8 (fn [] (fiber/new (chain-body 3 p ys) :ye))
    # frame with an on-stack env that is tail-called away after the first yield
    9 (fn [] (fiber/new (fn [] (var x p) (def c (fn [] (set x (+ x 1)))) (def v (yield (c))) (c) (tail-any (+ x (if (number? v) v 0)) (+ 1 q))) :ye))
    # the same below other frames: the tail call happens in a callee, the caller's env stays
    10 (fn [] (fiber/new (fn [] (var y q) (def d (fn [] (++ y)))
                           (def inner (fn [a] (var x a) (def c (fn [] (++ x))) (yield [(c) (d)]) (tail-any x (% q 4))))
                           (def r (inner p)) (yield [r (d)]) (tail-any y 2)) :ye))
    11 (fn [] (fiber/new (fn [] (env-levels (% q 4) p)) :ye))
    # closures handed out of the fiber, marshalled together with it; env on the stack first, detached when the body returns
    12 (fn [] (def f (fiber/new (fn [] (var x p) (var y (* 2 p))
                                   (def bump (fn [k] (set x (+ x (if (number? k) k 0))) (set y (- y 1)) [x y]))
                                   (def peek (fn [] [x y]))
                                   (yield [bump peek])
                                   (for i 0 (+ 1 q) (bump (yield [x y])))
                                   (if (odd? q) (tail-any x (+ 2 (% (math/abs p) 2))) [:done x y])) :ye))
         (def [bump peek] (resume f))
         [f bump peek])
    # fiber with its own environment table (JANET_FIBER_FLAG_HASENV on the wire), with and without a child
    13 (fn [] (def f (fiber/new (fn [] (for i 0 (+ 2 q) (setdyn :acc (+ (dyn :acc 0) (let [v (yield [(dyn :acc) (dyn :tag)])] (if (number? v) v 1))))) (dyn :acc)) :ye))
         (fiber/setenv f @{:tag p}) f)
    14 (fn [] (def f (fiber/new (fn [] (def c (fiber/new (chain-body 1 p ys) :e)) (setdyn :r (resume c)) (yield (dyn :r)) (yield (dyn :tag)) :end) :ye))
         (fiber/setenv f @{:tag p}) f)
    (fn [] (fiber/new (gen-fiber-body kind p q) :yie))))

(defn scenario-generations [round &opt fixed]
  (def [kind p q ys] (or fixed [(rnd 15) (rand-int) (rnd 6) (tuple (rnd 3) (rnd 4) (rnd 3) (+ 1 (rnd 2)))]))
  (def make (mg-make kind p q ys))
  (def closures (= kind 12))
  (def inputs (seq [_ :range [0 (+ 3 (rnd 8))]] [(if closures (rnd 3) 2) (if (chance 8) :stop (rand-int))]))
  (multi-gen (string "fiber-generations/kind" kind "/" round) make inputs))

# targeted shapes, run on every seed: child finishes between two generations (depth 1..3), env tail-called away, env detached
(def generations-fixed
  [[6 0 1 [1 1]] [6 1 1 [2 1]] [7 0 2 [1 1 1]] [7 2 0 [2 0 2]] [8 0 1 [1 2 1 1]] [8 1 3 [2 1 0 2]]
   [9 1 0 nil] [9 5 3 nil] [10 2 3 nil] [11 1 3 nil] [12 4 1 nil] [12 3 2 nil] [13 7 1 nil] [14 0 2 [0 2]] [14 3 1 [1 1]]])

# ------------------------------------------------------------------ compiled PEGs
(def peg-grammars
  [~(capture (some (range "az")))
   ~{:main (* :num (any (* "," :num)) -1) :num (/ (capture (some (range "09"))) ,scan-number)}
   ~(some (+ (/ (capture "ab") "X") (capture 1)))
   ~{:main (* :value -1)
     :value (+ :list :atom)
     :list (group (* "(" (any (* :value (any " "))) ")"))
     :atom (capture (some (if-not (set "() ") 1)))}
   ~(* (constant :start) (position) (capture (to "end")) (position) (line) (column))
   ~(replace (* (capture (between 1 3 "a")) (capture (at-most 2 "b"))) ,(fn [& xs] (length xs)))
   ~(accumulate (some (+ (* "\\" (capture 1)) (capture (if-not "\"" 1)))))
   ~(* (cmt (capture (some (range "09"))) ,(fn [s] (if (> (length s) 2) s))) (look 0 (+ "x" -1)) (? "x") (error (if-not -1 1)))
   ~(* (uint 1) (int-be 2) (capture (lenprefix (uint 1) 1)))
   ~(sequence (opt "-") (repeat 2 (range "09")) (thru ":") (capture (unref (backmatch))) (number (some (range "09")) 10 :n) (drop (capture 0)) (only-tags (capture 0 :t)))])

(defn rand-subject []
  (def alphabet ["a" "b" "ab" "1" "22" "," "(" ")" " " "end" "\\" "\"" "x" ":" "-" "\x01" "\x02" "z9"])
  (string/join (seq [_ :range [0 (rnd 12)]] (in alphabet (rnd (length alphabet))))))

(var peg-counter -1)
(defn scenario-peg [round]
  (def gi (if (< (++ peg-counter) (length peg-grammars)) peg-counter (rnd (length peg-grammars))))
  (def g (try (peg/compile (in peg-grammars gi)) ([e] nil)))
  (if (nil? g)
    (report (string "peg/grammar" gi "/" round) nil)
    (do
      (def g2 (try (copy-with-dict g) ([e] e)))
      (var bad nil)
      (if (not= (type g2) :core/peg)
       (set bad (string/format "unmarshal (marshal (peg/compile '%q)) failed: %q" (in peg-grammars gi) g2))
      (repeat 25
        (def s (rand-subject))
        (def st (rnd (+ 1 (length s))))
        (def a (call-p peg/match g s st))
        (def b (call-p peg/match g2 s st))
        (unless (same a b) (set bad (string/format "subject %q start %d: %q vs %q" s st a b)))))
      (report (string "peg/grammar" gi "/" round) bad))))

# ------------------------------------------------------------------ channels with queued items
(defn scenario-channel [round]
  (def cap (+ 1 (rnd 6)))
  (def ch (ev/chan cap))
  (def shared @[:shared])
  # wrap the queue around: give/take a few first
  (repeat (rnd 4) (ev/give ch :tmp) (ev/take ch))
  (def n (rnd (+ 1 cap)))
  (repeat n (ev/give ch (case (rnd 4) 0 (rand-int) 1 shared 2 (string "s" (rnd 9)) [(rand-int) shared])))
  (def holder [ch shared ch])
  (def [ch2 shared2 ch2b] (copy-with-dict holder))
  (def problems @[])
  (unless (= ch2 ch2b) (array/push problems "channel referenced twice is no longer one channel"))
  (unless (= (ev/count ch) (ev/count ch2)) (array/push problems (string "count " (ev/count ch) " vs " (ev/count ch2))))
  (unless (= (ev/capacity ch) (ev/capacity ch2)) (array/push problems (string "capacity " (ev/capacity ch) " vs " (ev/capacity ch2))))
  # interleave takes and gives, same script on both
  (def script (seq [_ :range [0 (+ 2 (rnd 8))]] [(rnd 2) (rand-int)]))
  (defn drive [c sh]
    (def out @[])
    (each [op v] script
      (if (= op 0)
        (if (> (ev/count c) 0) (let [x (ev/take c)] (array/push out [:took x (if (indexed? x) (= (last x) sh) (= x sh))])) (array/push out :empty))
        (if (< (ev/count c) (ev/capacity c)) (do (ev/give c v) (array/push out [:gave (ev/count c)])) (array/push out :full))))
    (while (> (ev/count c) 0) (array/push out [:drain (ev/take c)]))
    out)
  (def a (drive ch shared))
  (def b (drive ch2 shared2))
  (unless (same a b) (array/push problems (string/format "traces differ %q vs %q" a b)))
  # closed channels stay closed
  (def cc (ev/chan 2))
  (ev/give cc 1)
  (ev/chan-close cc)
  (def cc2 (copy-plain cc))
  (def ra (call-p ev/give cc 2))
  (def rb (call-p ev/give cc2 2))
  (unless (same ra rb) (array/push problems (string/format "closed channel: %q vs %q" ra rb)))
  (report (string "channel/" round) (if (empty? problems) nil (string/join problems "; "))))

# ------------------------------------------------------------------ boxed 64-bit integers
(def s64-bounds ["0" "1" "-1" "240" "241" "255" "256" "65535" "65536" "16777215" "16777216" "4294967295" "4294967296"
                 "1099511627775" "1099511627776" "281474976710655" "281474976710656" "72057594037927935" "72057594037927936"
                 "9223372036854775807" "-9223372036854775808" "-9223372036854775807" "-240" "-241" "-256" "-4294967296"])
(def u64-bounds ["0" "1" "239" "240" "241" "255" "256" "65535" "65536" "16777215" "16777216" "4294967295" "4294967296"
                 "1099511627775" "1099511627776" "281474976710655" "281474976710656" "72057594037927935" "72057594037927936"
                 "9223372036854775807" "9223372036854775808" "18446744073709551615" "18446744073709551614"])

(defn rand-u64-string []
  (def nbits (+ 1 (rnd 64)))
  (var v (int/u64 0))
  (repeat nbits (set v (+ (* v 2) (rnd 2))))
  (string v))

(defn scenario-int64 [round]
  (def problems @[])
  (def ss (if (= round 0) s64-bounds (seq [_ :range [0 20]] (let [u (int/u64 (rand-u64-string))] (string (int/s64 (string (if (> u (int/u64 "9223372036854775807")) (- u (int/u64 "9223372036854775808")) u))))))))
  (def us (if (= round 0) u64-bounds (seq [_ :range [0 20]] (rand-u64-string))))
  (each s ss
    (def x (int/s64 s))
    (def y (copy-plain x))
    (unless (and (= (type y) :core/s64) (= x y) (= (string x) (string y)) (= s (string y))) (array/push problems (string "s64 " s " -> " (string y)))))
  (each s us
    (def x (int/u64 s))
    (def y (copy-plain x))
    (unless (and (= (type y) :core/u64) (= x y) (= (string x) (string y)) (= s (string y))) (array/push problems (string "u64 " s " -> " (string y)))))
  # inside containers, shared
  (def x (int/s64 (in ss (rnd (length ss)))))
  (def u (int/u64 (in us (rnd (length us)))))
  (def c @[x x u @{:k x u x} [u x]])
  (def c2 (copy-plain c))
  (unless (deep= c c2) (array/push problems (string/format "container %q -> %q" c c2)))
  (report (string "int64/" round) (if (empty? problems) nil (string/join problems "; "))))

# wire format of the boxes: LB_ABSTRACT, symbol "core/u64", push64(value)  -> printed for the push64 correspondence
(defn hex [bytes] (string/join (map |(string/format "%02x" $) bytes)))
(defn emit-push64 []
  (each s (array/concat @[] u64-bounds (seq [_ :range [0 40]] (rand-u64-string)))
    (def m (marshal (int/u64 s)))
    (print "push64 " s " " (hex m))))

# ------------------------------------------------------------------ asm (disasm f): functions that capture no outer variables
(defn gen-expr [depth vars]
  (if (or (<= depth 0) (chance 25))
    (if (chance 60) (in vars (rnd (length vars))) (rand-int))
    (case (rnd 14)
      0 ['+ (gen-expr (- depth 1) vars) (gen-expr (- depth 1) vars)]
      1 ['- (gen-expr (- depth 1) vars) (gen-expr (- depth 1) vars)]
      2 ['* (gen-expr (- depth 1) vars) (gen-expr (- depth 1) vars)]
      3 ['if ['< (gen-expr (- depth 1) vars) (gen-expr (- depth 1) vars)] (gen-expr (- depth 1) vars) (gen-expr (- depth 1) vars)]
      4 ['% (gen-expr (- depth 1) vars) 7]
      5 ['do ['var 'acc 0] ['for 'i 0 ['% ['math/abs (gen-expr (- depth 1) vars)] 5] ['set 'acc ['+ 'acc 'i (gen-expr (- depth 1) vars)]]] 'acc]
      6 ['let ['t ['tuple (gen-expr (- depth 1) vars) (gen-expr (- depth 1) vars)]] ['+ ['in 't 0] ['in 't 1]]]
      7 ['length ['string (gen-expr (- depth 1) vars)]]
      8 ['band (gen-expr (- depth 1) vars) 255]
      9 [['fn ['q] ['+ 'q (gen-expr (- depth 1) vars)]] (gen-expr (- depth 1) vars)]
      10 ['get ['struct :a (gen-expr (- depth 1) vars) :b 2] (if (chance 50) :a :b)]
      11 ['max (gen-expr (- depth 1) vars) (gen-expr (- depth 1) vars) 3]
      12 ['try ['if ['= 0 ['% (gen-expr (- depth 1) vars) 3]] ['error "e"] (gen-expr (- depth 1) vars)] [['err] -1]]
      ['do ['def 'arr ['array (gen-expr (- depth 1) vars)]] ['array/push 'arr (gen-expr (- depth 1) vars)] ['reduce '+ 0 'arr]])))

(def fixed-functions
  [(fn [a b c] (+ a b c))
   (fn [& xs] (length xs))
   (fn [a &opt b] (default b 10) (* a b))
   (fn [a b c] (def [x y] [a b]) (def {:k k} {:k c}) [x y k])
   (fn [a b c] (var n 0) (while (< n (% (math/abs a) 10)) (++ n)) n)
   (fn [a b c] (def mk (fn [z] (fn [] (+ z a)))) ((mk b)))
   (fn [a b c] (string/format "%d-%d" a b))
   (fn [a b c] (map |(+ $ c) [a b]))
   (fn [a &keys {:x x :y y}] [a x y])
   (fn [a b c] (label out (for i 0 10 (when (= i (% (math/abs b) 10)) (return out i))) -1))
   (fn [a b c] (match [a b] [0 _] :zero [x 0] [:second-zero x] [x y] (+ x y)))
   (fn self [a b c] (if (<= (math/abs a) 0) b (self (- (math/abs a) 1) (+ b 1) c)))])

(defn scenario-asm [round]
  (def f (if (< round (length fixed-functions))
           (in fixed-functions round)
           (let [src ['fn ['a 'b 'c] (gen-expr (+ 2 (rnd 3)) ['a 'b 'c])]
                 res (compile src (make-env root-env))]
             (if (function? res) (res) nil))))
  (if (not (function? f))
    (report (string "asm-disasm/" round) "generator produced a form that does not compile")
    (do
      (def d (disasm f))
      (def f2 (try (asm d) ([e] e)))
      (def f3 (try (copy-with-dict f) ([e] e)))
      (def f4 (if (function? f2) (try (asm (disasm f2)) ([e] e))))
      (var bad nil)
      (cond
        (not (function? f2)) (set bad (string/format "asm (disasm f) failed: %q" f2))
        (not (function? f3)) (set bad (string/format "unmarshal (marshal f) failed: %q" f3))
        (repeat 12
          (def as (if (= round 8) [(rand-int) :x (rand-int) :y (rand-int)] (rand-args 3)))
          (def r1 (call-p f ;as))
          (def r2 (call-p f2 ;as))
          (def r3 (call-p f3 ;as))
          (def r4 (if (function? f4) (call-p f4 ;as) r1))
          (unless (same r1 r2) (set bad (string/format "asm(disasm f) differs on %q: %q vs %q" as r1 r2)))
          (unless (same r1 r3) (set bad (string/format "unmarshal(marshal f) differs on %q: %q vs %q" as r1 r3)))
          (unless (same r1 r4) (set bad (string/format "second generation asm differs on %q: %q vs %q" as r1 r4)))))
      # disassembly itself is a fixed point (modulo nothing: same structure)
      (when (and (not bad) (function? f2))
        (def d2 (disasm f2))
        (each k [:bytecode :arity :min-arity :max-arity :vararg :structarg]
          (unless (deep= (get d k) (get d2 k)) (set bad (string/format "disasm (asm (disasm f)) differs from disasm f in %q" k)))))
      (report (string "asm-disasm/" round) bad))))

# ------------------------------------------------------------------ main
(defn guarded [name f r]
  (try (f r) ([e fib] (report (string name "/" r) (string "harness error: " e)))))
(eachp [i fx] generations-fixed
  (guarded "fiber-generations" (fn [r] (scenario-generations r fx)) (string "fixed" i)))
(for r 0 rounds
  (guarded "fiber-generations" scenario-generations r)
  (guarded "fiber-generations" scenario-generations (+ r rounds))
  (guarded "fiber-generations" scenario-generations (+ r rounds rounds))
  (guarded "closures-shared-env" scenario-closures r)
  (guarded "closure-env-on-fiber-stack" scenario-onstack-env r)
  (guarded "closure-env-on-running-fiber" scenario-alive-env r)
  (guarded "closure-bigframe" scenario-bigframe r)
  (guarded "closure-bigframe" scenario-bigframe (+ r rounds))
  (guarded "suspended-fiber" scenario-fiber r)
  (guarded "suspended-fiber" scenario-fiber r)
  (guarded "peg" scenario-peg r)
  (guarded "peg" scenario-peg r)
  (guarded "channel" scenario-channel r)
  (guarded "int64" scenario-int64 r))
(for r 0 (+ (length fixed-functions) (* 4 rounds))
  (guarded "asm-disasm" scenario-asm r))
(emit-push64)
(print "done " nfail)
