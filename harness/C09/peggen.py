"""Grammar generator for the PEG marshal round trip (harness/C09/pegfields.c).

Every combinator of peg.c's `peg_specials[]` must have at least one template here (a new combinator in the source makes
`cases()` raise, i.e. a broken tie, until it gets one); the check additionally verifies that every opcode of the generated
PEG opcode table occurs in the bytecode of some marshalled grammar."""
import re

TEMPLATES = {
    "!": ['(* (! "a") 1)'],
    "$": ['(* "a" ($) "b" ($ :p) (-> :p))'],
    "%": ['(% (* (<- "a") (<- "b")))', '(% (some (+ (* "-" (<- 1)) (<- (if-not "," 1)))) :acc)'],
    "*": ['(* "a" "b" "c")'],
    "+": ['(+ "ab" "a" "b")'],
    "->": ['(* (<- "a" :x) "b" (-> :x))', '(* (<- 1 :x) (<- 1 :y) (-> :x) (-> :y :z))'],
    "/": ['(/ (<- "ab") ,string/ascii-upper)', '(/ (<- "a") {"a" 1})', '(/ (<- (some "a")) "const" :tag)', '(* (/ (<- 1 :q) ,length) (backmatch :q))'],
    "<-": ['(<- (some "a") :t)', '(* (<- 1 :t) (backmatch :t))'],
    ">": ['(> 0 "a")', '(* "ab" (> -1 "b"))'],
    "?": ['(* (? "a") "b")'],
    "accumulate": ['(accumulate (* (<- "a") (constant "-") (<- "b")))'],
    "any": ['(* (any "a") "b")'],
    "argument": ['(* "a" (argument 0) (argument 1 :t))', '(* (argument 0 :t) (backmatch :t))'],
    "at-least": ['(at-least 2 "a")'],
    "at-most": ['(* (at-most 2 "a") "b")'],
    "backmatch": ['(* (<- (some "a") :t) "-" (backmatch :t))', '(* (<- 1) (backmatch))', '(* (<- (some "a") :t) (<- "-" :u) (backmatch :t) (backmatch :u))',
                  '{:main (* :tagged "-" (backmatch :t) -1) :tagged (<- (some (set "ab")) :t)}'],
    "backref": ['(* (<- "a" :t) (backref :t))'],
    "between": ['(between 1 3 "a")'],
    "capture": ['(capture (* "a" (capture "b")))'],
    "choice": ['(choice "x" "a" (sequence "b" "a"))'],
    "cmt": ['(cmt (<- (some (range "09"))) ,scan-number)', '(cmt (* (<- 1) (<- 1)) ,(fn [a b] (if (= a b) a)) :same)'],
    "column": ['(* (any (+ "\\n" "a")) (column))', '(* 1 (column :c) (-> :c))'],
    "constant": ['(* "a" (constant :k :tag))', '(* (constant "a" :t) (backmatch :t))'],
    "drop": ['(* (drop (<- "a")) (<- "b"))'],
    "error": ['(+ "a" (error (<- "b")))', '(+ "a" (error))'],
    "group": ['(group (* (<- "a") (<- "b")) :g)'],
    "if": ['(if (* 1 "b") "a")'],
    "if-not": ['(if-not "b" 1)'],
    "int": ['(int 2)', '(* (int 1 :n) (-> :n))'],
    "int-be": ['(int-be 2 :t)'],
    "lenprefix": ['(lenprefix (uint 1) 1)', '(* (lenprefix (/ (<- (range "09")) ,scan-number) "a") -1)'],
    "line": ['(* (any 1) (line))', '(* (line :l) 1 (-> :l))'],
    "look": ['(look 1 "b")'],
    "not": ['(* (not "b") 1)'],
    "nth": ['(nth 1 (* (<- 1) (<- 1)))', '(nth 0 (* (<- 1) (<- 1)) :n)'],
    "number": ['(number (some (range "09")))', '(number (some (range "09" "af")) 16 :n)', '(* (number (some (range "09")) nil :n) "-" (-> :n))'],
    "only-tags": ['(* (only-tags (* (<- "a" :t) (<- "b"))) (-> :t))', '(* (only-tags (<- (some "a") :t)) "-" (backmatch :t))'],
    "opt": ['(* (opt "a") "b")'],
    "position": ['(* 1 (position) 1 (position :p))'],
    "quote": ['(quote "a")'],
    "range": ['(range "az" "09")'],
    "repeat": ['(repeat 3 "a")'],
    "replace": ['(replace (<- "a") "X")', '(replace (* (<- 1) (<- 1)) ,(fn [a b] (string b a)) :sw)'],
    "sequence": ['(sequence "a" 1 "a")'],
    "set": ['(set "abc")'],
    "some": ['(some (set "ab"))'],
    "split": ['(split "," (<- (some (range "az"))))', '(split "-" (<- (any "a") :t))'],
    "sub": ['(sub (to "-") (some "a"))', '(sub (<- (to "-") :w) (* (<- 1 :t) (backmatch :t)))'],
    "thru": ['(thru "b")'],
    "til": ['(til "-" (some "a"))'],
    "to": ['(to "b")'],
    "uint": ['(uint 1)', '(* (uint 2 :n) (-> :n))'],
    "uint-be": ['(uint-be 2)'],
    "unref": ['(* (unref (* (<- "a" :t) "b")) (+ (backmatch :t) (constant :no)))', '(* (<- 1 :t) (unref (* (<- 1 :t) (backmatch :t))) (backmatch :t))'],
}

# forms that are not combinators: literals, counts, references into a grammar, the default grammar
EXTRA = ['"abc"', '3', '-2', '0', ':d+', ':w*', '(* :s* :a+)', '{:main (* :x (any (* "," :x)) -1) :x (+ (* "(" :main ")") (<- :d+))}',
         '{:main (* (<- :a :t) :rest) :rest (+ (* "-" (backmatch :t) :rest) -1)}']

TEXTS = ["", "a", "b", "ab", "abc", "aa", "aaa", "aaaa", "aa-aa", "aa-a", "a-a", "ab-", "ab-ab", "ab-ba", "aab", "ba", "bab", "aba", "abab", "12", "1a", "007x", "ff", "a,b,c",
         "x", "\\n", "a\\na", "\\x02ab", "\\x03ab", "\\x01\\x02", "\\xff\\xfe", "a-", "-", "--", "A0", "A0A0", "(1,(2))", "1,2", "-a,b", "3aaa", "2aaa", "xa", "bb", "aa-aa-", "a-a-", "12-", "7-x", "ab-ab-ab"]

ATOMS = ['"a"', '"b"', '"-"', '1', '(set "ab")', '(range "09")', '(some "a")', '(any "b")', '-1']
TAGS = [":t", ":u"]


def random_grammar(rng, depth):
    if depth <= 0 or rng.chance(1, 4):
        return rng.choice(ATOMS)
    r = rng.below(24)
    sub = lambda: random_grammar(rng, depth - 1)
    tag = rng.choice(TAGS)
    if r == 0: return "(* %s %s)" % (sub(), sub())
    if r == 1: return "(+ %s %s)" % (sub(), sub())
    if r == 2: return "(<- %s %s)" % (sub(), tag)
    if r == 3: return "(<- %s)" % sub()
    if r == 4: return "(* (<- %s %s) %s (backmatch %s))" % (sub(), tag, sub(), tag)
    if r == 5: return "(* (<- %s %s) (-> %s))" % (sub(), tag, tag)
    if r == 6: return "(group %s %s)" % (sub(), tag)
    if r == 7: return "(%% %s)" % sub()
    if r == 8: return "(drop %s)" % sub()
    if r == 9: return "(between %d %d %s)" % (rng.below(2), 1 + rng.below(3), sub())
    if r == 10: return "(if %s %s)" % (sub(), sub())
    if r == 11: return "(if-not %s %s)" % (sub(), sub())
    if r == 12: return "(> %d %s)" % (rng.below(2), sub())
    if r == 13: return "(to %s)" % sub()
    if r == 14: return "(thru %s)" % sub()
    if r == 15: return "(unref %s %s)" % (sub(), tag)
    if r == 16: return "(only-tags %s)" % sub()
    if r == 17: return "(sub %s %s)" % (sub(), sub())
    if r == 18: return "(* %s (constant :c %s) (backmatch %s))" % (sub(), tag, tag)
    if r == 19: return "(? %s)" % sub()
    if r == 20: return "(! %s)" % sub()
    if r == 21: return "(* (position %s) %s)" % (tag, sub())
    if r == 22: return "(/ (<- %s) ,length %s)" % (sub(), tag)
    return "(repeat %d %s)" % (1 + rng.below(3), sub())


def specials(tree_src):
    m = re.search(r"peg_specials\s*\[\s*\]\s*=\s*\{(.*?)\};", tree_src, re.S)
    if not m:
        return None
    return re.findall(r'\{\s*"([^"]+)"\s*,\s*spec_\w+\s*\}', m.group(1))


def cases(tree_src, rng, nrandom):
    names = specials(tree_src)
    if names is None:
        raise ValueError("peg_specials[] not found in peg.c")
    missing = [n for n in names if n not in TEMPLATES]
    if missing:
        raise ValueError("peg combinators without a round-trip template: %s" % missing)
    alphabet = ["a", "b", "-", ",", "1", "\\n", "ab"]
    texts = list(TEXTS)
    for _ in range(25):
        texts.append("".join(rng.choice(alphabet) for _ in range(rng.below(9))))
    tlist = "[" + " ".join('"%s"' % t for t in texts) + "]"
    out = []
    for n in names:
        for g in TEMPLATES[n]:
            out.append((n, g, "[~%s %s]" % (g, tlist)))
    for g in EXTRA:
        out.append(("extra", g, "[~%s %s]" % (g, tlist)))
    for _ in range(nrandom):
        g = random_grammar(rng, 3)
        out.append(("random", g, "[~%s %s]" % (g, tlist)))
    return out
