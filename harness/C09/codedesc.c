/* C09 harness: janet with three extra cfunctions that expose the C structs behind functions, so that the describer
 * (harness/C09/codegraph.janet) can present a value graph with code objects to the Lean model (Marsh/Code.lean).
 *   (c09/func-info f)    -> [defptr [envptr ...]]
 *   (c09/def-info ptr)   -> [flags slotcount arity min max name source constants symbolmap bytecode environments defs sourcemap bitset]
 *   (c09/env-info ptr)   -> [offset length values fiber cannot-marshal frame-bitset]
 * Identity of funcdefs and environments is the identity of the (janet pointer) values returned.
 * Nothing here looks at marsh.c; the structs are read as they are.
 *   usage: codedesc <script.janet> args...   (runs the script with (dyn :args) = [script args...]) */
#include <janet.h>
#include <stdio.h>
#include <stdlib.h>
#include <string.h>

#define c09_stack_frame(s) ((JanetStackFrame *)((s) - JANET_FRAME_SIZE))

static Janet tup(Janet *items, int32_t n) { return janet_wrap_tuple(janet_tuple_n(items, n)); }

static Janet cfun_func_info(int32_t argc, Janet *argv) {
    janet_fixarity(argc, 1);
    JanetFunction *f = janet_getfunction(argv, 0);
    int32_t n = f->def->environments_length;
    Janet *envs = janet_smalloc(sizeof(Janet) * (size_t)(n + 1));
    for (int32_t i = 0; i < n; i++) envs[i] = janet_wrap_pointer(f->envs[i]);
    Janet out[2] = { janet_wrap_pointer(f->def), tup(envs, n) };
    janet_sfree(envs);
    return tup(out, 2);
}

static Janet cfun_def_info(int32_t argc, Janet *argv) {
    janet_fixarity(argc, 1);
    JanetFuncDef *def = (JanetFuncDef *) janet_getpointer(argv, 0);
    Janet out[14];
    out[0] = janet_wrap_number((double) def->flags);
    out[1] = janet_wrap_number((double) def->slotcount);
    out[2] = janet_wrap_number((double) def->arity);
    out[3] = janet_wrap_number((double) def->min_arity);
    out[4] = janet_wrap_number((double) def->max_arity);
    out[5] = def->name ? janet_wrap_string(def->name) : janet_wrap_nil();
    out[6] = def->source ? janet_wrap_string(def->source) : janet_wrap_nil();
    out[7] = tup(def->constants, def->constants_length);
    {
        int32_t n = (int32_t) def->symbolmap_length;
        Janet *items = janet_smalloc(sizeof(Janet) * (size_t)(n + 1));
        for (int32_t i = 0; i < n; i++) {
            Janet e[4] = { janet_wrap_number((double)(int32_t) def->symbolmap[i].birth_pc), janet_wrap_number((double)(int32_t) def->symbolmap[i].death_pc),
                           janet_wrap_number((double)(int32_t) def->symbolmap[i].slot_index), janet_wrap_symbol(def->symbolmap[i].symbol) };
            items[i] = tup(e, 4);
        }
        out[8] = tup(items, n);
        janet_sfree(items);
    }
    {
        JanetBuffer *b = janet_buffer(def->bytecode_length * 4);
        for (int32_t i = 0; i < def->bytecode_length; i++) {
            uint32_t w = def->bytecode[i];
            janet_buffer_push_u8(b, w & 0xFF); janet_buffer_push_u8(b, (w >> 8) & 0xFF);
            janet_buffer_push_u8(b, (w >> 16) & 0xFF); janet_buffer_push_u8(b, (w >> 24) & 0xFF);
        }
        out[9] = janet_wrap_string(janet_string(b->data, b->count));
    }
    {
        int32_t n = def->environments_length;
        Janet *items = janet_smalloc(sizeof(Janet) * (size_t)(n + 1));
        for (int32_t i = 0; i < n; i++) items[i] = janet_wrap_number((double) def->environments[i]);
        out[10] = tup(items, n);
        janet_sfree(items);
    }
    {
        int32_t n = def->defs_length;
        Janet *items = janet_smalloc(sizeof(Janet) * (size_t)(n + 1));
        for (int32_t i = 0; i < n; i++) items[i] = janet_wrap_pointer(def->defs[i]);
        out[11] = tup(items, n);
        janet_sfree(items);
    }
    if (def->sourcemap) {
        int32_t n = def->bytecode_length;
        Janet *items = janet_smalloc(sizeof(Janet) * (size_t)(n + 1));
        for (int32_t i = 0; i < n; i++) {
            Janet e[2] = { janet_wrap_number((double) def->sourcemap[i].line), janet_wrap_number((double) def->sourcemap[i].column) };
            items[i] = tup(e, 2);
        }
        out[12] = tup(items, n);
        janet_sfree(items);
    } else out[12] = janet_wrap_nil();
    if (def->closure_bitset) {
        int32_t n = (def->slotcount + 31) >> 5;
        Janet *items = janet_smalloc(sizeof(Janet) * (size_t)(n + 1));
        for (int32_t i = 0; i < n; i++) items[i] = janet_wrap_number((double) def->closure_bitset[i]);
        out[13] = tup(items, n);
        janet_sfree(items);
    } else out[13] = janet_wrap_nil();
    return tup(out, 14);
}

/* a fiber that is running, or has a C function on its stack, cannot be written out (its frames are not data) */
static int fiber_is_opaque(JanetFiber *fiber) {
    if (janet_fiber_status(fiber) == JANET_STATUS_ALIVE) return 1;
    int32_t i = fiber->frame;
    while (i > 0) {
        JanetStackFrame *frame = (JanetStackFrame *)(fiber->data + i - JANET_FRAME_SIZE);
        if (!frame->func) return 1;
        i = frame->prevframe;
    }
    return 0;
}

static Janet cfun_env_info(int32_t argc, Janet *argv) {
    janet_fixarity(argc, 1);
    JanetFuncEnv *env = (JanetFuncEnv *) janet_getpointer(argv, 0);
    Janet out[6];
    out[0] = janet_wrap_number((double) env->offset);
    out[1] = janet_wrap_number((double) env->length);
    out[3] = janet_wrap_nil(); out[4] = janet_wrap_false(); out[5] = janet_wrap_nil();
    if (env->offset > 0) {
        JanetFiber *fiber = env->as.fiber;
        Janet *values = fiber->data + env->offset;
        out[2] = tup(values, env->length);
        out[3] = janet_wrap_fiber(fiber);
        out[4] = janet_wrap_boolean(fiber_is_opaque(fiber));
        JanetFuncDef *def = c09_stack_frame(values)->func->def;
        if (def->closure_bitset) {
            int32_t n = (def->slotcount + 31) >> 5;
            Janet *items = janet_smalloc(sizeof(Janet) * (size_t)(n + 1));
            for (int32_t i = 0; i < n; i++) items[i] = janet_wrap_number((double) def->closure_bitset[i]);
            out[5] = tup(items, n);
            janet_sfree(items);
        }
    } else if (env->offset == 0) {
        out[2] = tup(env->as.values, env->length);
    } else {
        out[2] = janet_wrap_nil();
        out[3] = janet_wrap_fiber(env->as.fiber);
    }
    return tup(out, 6);
}

/* (c09/fiber-info fiber) -> [flags frame stackstart stacktop maxstack frames env child last-value status-opaque]
 * frames (top first) = [flags-without-HASENV prevframe pcdiff func envptr-or-nil slots] */
static Janet cfun_fiber_info(int32_t argc, Janet *argv) {
    janet_fixarity(argc, 1);
    JanetFiber *fiber = janet_getfiber(argv, 0);
    Janet out[10];
    out[0] = janet_wrap_number((double) fiber->flags);
    out[1] = janet_wrap_number((double) fiber->frame);
    out[2] = janet_wrap_number((double) fiber->stackstart);
    out[3] = janet_wrap_number((double) fiber->stacktop);
    out[4] = janet_wrap_number((double) fiber->maxstack);
    JanetArray *frames = janet_array(4);
    int opaque = janet_fiber_status(fiber) == JANET_STATUS_ALIVE;
    int32_t i = fiber->frame;
    int32_t j = fiber->stackstart - JANET_FRAME_SIZE;
    while (i > 0) {
        JanetStackFrame *frame = (JanetStackFrame *)(fiber->data + i - JANET_FRAME_SIZE);
        if (!frame->func) { opaque = 1; break; }
        Janet e[6];
        e[0] = janet_wrap_number((double)(frame->flags & 0x7FFFFFFF));
        e[1] = janet_wrap_number((double) frame->prevframe);
        e[2] = janet_wrap_number((double)(int32_t)(frame->pc - frame->func->def->bytecode));
        e[3] = janet_wrap_function(frame->func);
        e[4] = frame->env ? janet_wrap_pointer(frame->env) : janet_wrap_nil();
        e[5] = tup(fiber->data + i, j > i ? j - i : 0);
        janet_array_push(frames, tup(e, 6));
        j = i - JANET_FRAME_SIZE;
        i = frame->prevframe;
    }
    out[5] = tup(frames->data, frames->count);
    out[6] = fiber->env ? janet_wrap_table(fiber->env) : janet_wrap_nil();
    out[7] = fiber->child ? janet_wrap_fiber(fiber->child) : janet_wrap_nil();
    out[8] = fiber->last_value;
    out[9] = janet_wrap_boolean(opaque);
    return tup(out, 10);
}

static const JanetReg cfuns[] = {
    {"c09/fiber-info", cfun_fiber_info, NULL},
    {"c09/func-info", cfun_func_info, NULL},
    {"c09/def-info", cfun_def_info, NULL},
    {"c09/env-info", cfun_env_info, NULL},
    {NULL, NULL, NULL}
};

int main(int argc, char **argv) {
    if (argc < 2) { fprintf(stderr, "usage: codedesc script.janet args...\n"); return 2; }
    janet_init();
    JanetTable *env = janet_core_env(NULL);
    janet_gcroot(janet_wrap_table(env));
    janet_cfuns(env, NULL, cfuns);
    JanetArray *args = janet_array(argc);
    for (int i = 1; i < argc; i++) janet_array_push(args, janet_cstringv(argv[i]));
    janet_table_put(env, janet_ckeywordv("args"), janet_wrap_array(args));
    FILE *f = fopen(argv[1], "rb");
    if (!f) { fprintf(stderr, "cannot open %s\n", argv[1]); return 2; }
    fseek(f, 0, SEEK_END); long n = ftell(f); fseek(f, 0, SEEK_SET);
    char *src = malloc((size_t) n + 1);
    if (fread(src, 1, (size_t) n, f) != (size_t) n) { fprintf(stderr, "read error\n"); return 2; }
    src[n] = 0; fclose(f);
    Janet out;
    int st = janet_dobytes(env, (const uint8_t *) src, (int32_t) n, argv[1], &out);
    free(src);
    fflush(stdout);
    janet_deinit();
    return st ? 1 : 0;
}
