/* C09 harness: bytecode words of a function and of (asm (disasm f)).
 * stdin: one janet expression per line, prefixed "A " (assemble / compile only) or "R " (also run original and
 * reassembled function on a fixed argument set and compare).  stdout, one line each:
 *   ok <words f> <words g> |H <hdr f> <hdr g> |D <disasm>
 *                                 words = idx:hex,… of the non-zero words; nested funcdefs follow after '/';
 *                                 hdr = per funcdef (same order, '/'-separated) the fields janet_verify reads:
 *                                   vararg,structarg,arity,min,max,slotcount,nconsts,ndefs,nenvs;birth:death:slot,…;k:code,…
 *                                   (last part: return code of the real janet_verify on a copy of the funcdef whose
 *                                   slot count is k, for k around the slot count and the parameter count)
 *                                 disasm = (disasm f :bytecode) of the outer funcdef: mnemonic,arg,…;… ('!' = bracket tuple)
 * prefix "V " = like "R " but original and reassembled function are applied to argument lists of length 0..4 and to
 * keyword arguments (parameter lists with &opt / & / &keys / &named).
 *   err1 <message>                the expression itself failed (e.g. the assembler rejected the description)
 *   err2 <words f> |H <hdr f> | <message>      (asm (disasm f)) failed
 *   beh <words f> <detail>        behaviour of f and g differs */
#include <janet.h>
#include <stdio.h>
#include <stdlib.h>
#include <string.h>

static void dump_def(JanetFuncDef *def) {
    int first = 1;
    for (int32_t i = 0; i < def->bytecode_length; i++) {
        if (def->bytecode[i]) {
            printf("%s%d:%08x", first ? "" : ",", i, def->bytecode[i]);
            first = 0;
        }
    }
    if (first) printf("-");
    printf(";n=%d", def->bytecode_length);
    for (int32_t i = 0; i < def->defs_length; i++) {
        printf("/");
        dump_def(def->defs[i]);
    }
}

static void dump_hdr(JanetFuncDef *def) {
    int va = !!(def->flags & JANET_FUNCDEF_FLAG_VARARG);
    printf("%d,%d,%d,%d,%d,%d,%d,%d,%d;", va, !!(def->flags & JANET_FUNCDEF_FLAG_STRUCTARG),
           def->arity, def->min_arity, def->max_arity, def->slotcount, def->constants_length, def->defs_length, def->environments_length);
    for (int32_t i = 0; i < def->symbolmap_length; i++)
        printf("%s%u:%u:%u", i ? "," : "", def->symbolmap[i].birth_pc, def->symbolmap[i].death_pc, def->symbolmap[i].slot_index);
    if (!def->symbolmap_length) printf("-");
    printf(";");
    int32_t ks[] = { def->slotcount, def->slotcount - 1, def->slotcount - 2, def->slotcount + 1, def->arity + va, def->arity + va - 1, def->arity, 0, 255, 256, 0x1000000, 0x1000001 };
    int nk = (int)(sizeof(ks) / sizeof(ks[0]));
    if (def->bytecode_length > 3000) nk = 1;
    for (int k = 0; k < nk; k++) {
        int dup = 0;
        for (int j = 0; j < k; j++) if (ks[j] == ks[k]) dup = 1;
        if (dup || ks[k] < -1) continue;
        JanetFuncDef tmp = *def;
        tmp.slotcount = ks[k];
        printf("%s%d:%d", k ? "," : "", ks[k], janet_verify(&tmp));
    }
    /* the other tests of janet_verify: table lengths one short, bytecode cut (jump targets, last instruction, symbol map pc
     * ranges, empty), an opcode outside the table */
    if (def->bytecode_length <= 3000) {
        JanetFuncDef tmp = *def;
        if (def->constants_length > 0) { tmp.constants_length = def->constants_length - 1; printf(",c%d:%d", tmp.constants_length, janet_verify(&tmp)); tmp = *def; }
        if (def->defs_length > 0) { tmp.defs_length = def->defs_length - 1; printf(",d%d:%d", tmp.defs_length, janet_verify(&tmp)); tmp = *def; }
        if (def->environments_length > 0) { tmp.environments_length = def->environments_length - 1; printf(",e%d:%d", tmp.environments_length, janet_verify(&tmp)); tmp = *def; }
        int32_t cuts[] = { 0, 1, def->bytecode_length / 2, def->bytecode_length - 1 };
        for (int k = 0; k < 4; k++) {
            int dup = 0;
            for (int j = 0; j < k; j++) if (cuts[j] == cuts[k]) dup = 1;
            if (dup || cuts[k] < 0 || cuts[k] >= def->bytecode_length) continue;
            tmp.bytecode_length = cuts[k];
            printf(",n%d:%d", cuts[k], janet_verify(&tmp));
        }
        tmp = *def;
        if (def->bytecode_length > 0) {
            uint32_t *copy = malloc(sizeof(uint32_t) * (size_t) def->bytecode_length);
            memcpy(copy, def->bytecode, sizeof(uint32_t) * (size_t) def->bytecode_length);
            int32_t at = def->bytecode_length / 2;
            copy[at] = (copy[at] & ~0x7Fu) | 0x7Fu;
            tmp.bytecode = copy;
            printf(",w%d:%d", at, janet_verify(&tmp));
            free(copy);
        }
    }
    for (int32_t i = 0; i < def->defs_length; i++) {
        printf("/");
        dump_hdr(def->defs[i]);
    }
}

static void clean(const uint8_t *s, int32_t n) {
    for (int32_t i = 0; i < n; i++) putchar((s[i] > 32 && s[i] < 127) ? s[i] : '_');
}

static const char *prelude =
    "(def __args [0 1 -1 2 127 -127 -128 -129 128 255 256 32767 -32767 -32768 -32769 32768 1000000 -1000000 0.5 -128.5])\n"
    "(defn __run [f x] (def [ok r] (protect (f x))) [ok (if ok (if (function? r) :function r) (string r))])\n"
    "(defn __dis [f] (string/join (map (fn [t] (if (tuple? t) (string (if (= (tuple/type t) :brackets) \"!\" \"\") (string/join (map string t) \",\")) (string \"raw,\" t))) (disasm f :bytecode)) \";\"))\n"
    "(def __argsets [[] [0] [1 2] [1 2 3] [1 2 3 4] [1 :x 2] [:x 1 :y 2] [1 :x 2 :y 3] [1 2 :x 3 :k 4] [[5 6] 7 8] [{:k 9} 3] [nil nil nil] [[1 2] :k 1]])\n"
    "(defn __noaddr [r] (string/join (peg/match ~(any (+ (* (<- \"0x\") (some :h)) (<- 1))) (string r))))\n"
    "(defn __q [r] (__noaddr (string/format \"%q\" r)))\n"
    "(defn __runv [f] (map (fn [as] (def [ok r] (protect (apply f as))) [ok (if (and ok (function? r)) (let [[ok2 r2] (protect (r))] [:function ok2 (__q r2)]) (__q r))]) __argsets))\n"
    "(defn __rt [run thunk]\n"
    "  (def [ok f] (protect (thunk)))\n"
    "  (if (not ok) [:err1 (string f)]\n"
    "    (let [[ok2 g] (protect (asm (disasm f)))]\n"
    "      (if (not ok2) [:err2 (string g) f]\n"
    "        (do (var bad nil)\n"
    "          (when (= run :v) (def a (__runv f)) (def b (__runv g))\n"
    "            (unless (deep= a b) (set bad (string/format \"argument lists %q: %q vs %q\" __argsets a b))))\n"
    "          (when (= run true) (each x __args (def a (__run f x)) (def b (__run g x))\n"
    "            (unless (or (deep= a b) (and (number? (a 1)) (number? (b 1)) (nan? (a 1)) (nan? (b 1)))) (set bad (string/format \"arg %q: %q vs %q\" x a b)))))\n"
    "          (if bad [:beh bad f] [:ok f g (__dis f)]))))))\n";

int main(void) {
    janet_init();
    JanetTable *env = janet_core_env(NULL);
    janet_gcroot(janet_wrap_table(env));
    Janet out;
    if (janet_dostring(env, prelude, "prelude", &out)) { printf("prelude failed\n"); return 2; }
    char *line = NULL; size_t cap = 0; ssize_t n;
    while ((n = getline(&line, &cap, stdin)) > 0) {
        while (n > 0 && (line[n-1] == '\n' || line[n-1] == '\r')) line[--n] = 0;
        if (n < 3) { printf("bad-op\n"); continue; }
        int run = line[0] == 'R';
        int runv = line[0] == 'V';
        size_t len = (size_t) n + 64;
        char *buf = malloc(len);
        snprintf(buf, len, "(__rt %s (fn [] %s))", runv ? ":v" : run ? "true" : "false", line + 2);
        int st = janet_dostring(env, buf, "case", &out);
        free(buf);
        if (st || !janet_checktype(out, JANET_TUPLE)) { printf("err1 expression-did-not-evaluate\n"); continue; }
        const Janet *t = janet_unwrap_tuple(out);
        const uint8_t *tag = janet_unwrap_keyword(t[0]);
        if (!strcmp((const char *) tag, "ok")) {
            printf("ok ");
            dump_def(janet_unwrap_function(t[1])->def);
            printf(" ");
            dump_def(janet_unwrap_function(t[2])->def);
            printf(" |H ");
            dump_hdr(janet_unwrap_function(t[1])->def);
            printf(" ");
            dump_hdr(janet_unwrap_function(t[2])->def);
            if (janet_tuple_length(t) > 3 && janet_checktype(t[3], JANET_STRING)) {
                const uint8_t *d = janet_unwrap_string(t[3]);
                printf(" |D ");
                fwrite(d, 1, (size_t) janet_string_length(d), stdout);
            }
            printf("\n");
        } else if (!strcmp((const char *) tag, "err1")) {
            const uint8_t *m = janet_unwrap_string(t[1]);
            printf("err1 "); clean(m, janet_string_length(m)); printf("\n");
        } else {
            const uint8_t *m = janet_unwrap_string(t[1]);
            printf("%s ", (const char *) tag);
            if (janet_checktype(t[2], JANET_FUNCTION)) {
                dump_def(janet_unwrap_function(t[2])->def);
                if (!strcmp((const char *) tag, "err2")) { printf(" |H "); dump_hdr(janet_unwrap_function(t[2])->def); printf(" |"); }
            } else printf("?");
            printf(" "); clean(m, janet_string_length(m)); printf("\n");
        }
        fflush(stdout);
    }
    free(line);
    janet_deinit();
    return 0;
}
