# C09 harness: value graphs with CODE objects (functions, funcdefs, closure environments) in real janet, presented to
# the Lean model lean/JanetModel/Marsh/Code.lean.   Run by harness/C09/codedesc (janet + c09/func-info, c09/def-info,
# c09/env-info):   codedesc codegraph.janet gen <seed> <ncases>
#                  codedesc codegraph.janet deep <d1> <d2>     (function nested d arrays deep)
# Mode gen prints one line per case:   <idx> <verdict> <hex of (marshal g make-image-dict)> <description of g>
#   verdict = ok | FAIL:<why> | skip:<why>.  Direct oracle (independent of the model): the description of
#   (unmarshal (marshal g)) must be the description of g - same funcdefs, same sharing of funcdefs and environments.
# The description lists the three tables in the order marsh.c numbers them (objects: st->seen, funcdefs: seen_defs,
# environments: seen_envs).  It does not look at marsh.c: it walks the value and the C structs (through codedesc.c) in
# the order the wire format documents: a function is numbered before its funcdef; a funcdef before its name, source,
# constants, symbol-map symbols and sub-funcdefs; then the function's environments, each before its values.

(def args (dyn :args))
(def mode (get args 1 "gen"))
(def seed (scan-number (get args 2 "1")))
(def ncases (scan-number (get args 3 "10")))
(def rng (math/rng seed))
(defn rnd [n] (math/rng-int rng n))
(defn chance [p] (< (rnd 100) p))

(defn hex [bytes]
  (def b (buffer/new (* 2 (length bytes))))
  (each c bytes (buffer/format b "%02x" c))
  (string b))

(def mdict make-image-dict)
(def ldict load-image-dict)

(defn intpath? [x]
  (and (number? x) (>= x -2147483648) (<= x 2147483647) (= x (math/trunc x))))

(defn bit-set? [words i]
  (def w (in words (brshift i 5)))
  (not= 0 (band 1 (math/floor (/ w (math/pow 2 (band i 31)))))))

# ---------------------------------------------------------------- abstraction: value graph -> description
(defn describe [root rr]
  (def seen @{})
  (var nextid 0)
  (def objs @[])
  (def seen-defs @{})
  (def defs @[])
  (def seen-envs @{})
  (def envs @[])
  (defn mark [x]
    (def k nextid)
    (++ nextid)
    (unless (and (number? x) (nan? x)) (put seen x k))
    (put objs k "?")
    k)
  (var tok nil)
  (defn kvtoks [x]
    (def parts @[])
    (eachp [k v] x (array/push parts (tok k)) (array/push parts (tok v)))
    parts)
  (defn sp [parts] (string/join (map |(string " " $) parts)))
  (var def-tok nil)
  (set def-tok (fn def-tok [dp]
    (def s (get seen-defs dp))
    (if s s
      (do
        (def idx (length defs))
        (put seen-defs dp idx)
        (array/push defs "?")
        (def [flags slotcount arity mn mx name source constants symbolmap bytecode environments subdefs sourcemap bitset] (c09/def-info dp))
        (def nt (if name (tok name) "_"))
        (def st (if source (tok source) "_"))
        (def cts (map tok constants))
        (def sts (map (fn [[b d s sym]] (string/format "%d %d %d %s" b d s (tok sym))) symbolmap))
        (def dts (map def-tok subdefs))
        (put defs idx
          (string/format "D %d %d %d %d %d %s %s C %d%s S %d%s B %s E %d%s D %d%s M %d%s X %d%s"
            flags slotcount arity mn mx nt st
            (length cts) (sp cts)
            (length sts) (sp sts)
            (if (empty? bytecode) "-" (hex bytecode))
            (length environments) (sp (map |(string/format "%d" $) environments))
            (length dts) (sp (map string dts))
            (if sourcemap (length sourcemap) 0) (if sourcemap (sp (map (fn [[l c]] (string/format "%d %d" l c)) sourcemap)) "")
            (if bitset (length bitset) 0) (if bitset (sp (map |(string/format "%d" $) bitset)) "")))
        idx))))
  (defn env-tok [ep]
    (def s (get seen-envs ep))
    (if s s
      (do
        (def idx (length envs))
        (put seen-envs ep idx)
        (array/push envs "?")
        (def [offset len values fiber opaque bitset] (c09/env-info ep))
        (put envs idx
          (cond
            (= offset 0) (string "Ed" (sp (map tok values)))
            # the owner frame is still live on a fiber that cannot be written (running, or C frames): the environment is
            # written as if detached, captured slots only (closure bitset of the owner's funcdef), nil elsewhere
            (and (> offset 0) opaque) (string "Ed" (sp (seq [i :range [0 len]] (if (bit-set? bitset i) (tok (in values i)) "n"))))
            (> offset 0) (string/format "Es %d %d %s" offset len (tok fiber))
            (string/format "Es %d %d %s" (- offset) len (tok fiber))))
        idx)))
  (set tok (fn tok [x]
    (cond
      (nil? x) "n"
      (= x true) "t"
      (= x false) "f"
      (intpath? x) (string/format "i%d" x)
      (do
        (def s (if (and (number? x) (nan? x)) nil (get seen x)))
        (def nm (if (and rr (not (and (number? x) (nan? x)))) (get rr x)))
        (cond
          s (string "r" s)
          (symbol? nm) (let [k (mark x)] (put objs k (string "G" (hex nm))) (string "r" k))
          (case (type x)
            :number (let [k (mark x)] (put objs k (string "R" (hex (buffer/push-float64 @"" :le x)))) (string "r" k))
            :string (let [k (mark x)] (put objs k (string "Ss" (hex x))) (string "r" k))
            :symbol (let [k (mark x)] (put objs k (string "Sy" (hex x))) (string "r" k))
            :keyword (let [k (mark x)] (put objs k (string "Sk" (hex x))) (string "r" k))
            :buffer (let [k (mark x)] (put objs k (string "B" (hex x))) (string "r" k))
            :array (let [k (mark x)
                         parts (map tok x)]
                     (put objs k (string "A0" (sp parts)))
                     (string "r" k))
            :tuple (let [parts (map tok x)
                         k (mark x)]
                     (put objs k (string "T" (if (= (tuple/type x) :brackets) "1" "0") (sp parts)))
                     (string "r" k))
            :table (let [k (mark x)
                         p (table/getproto x)
                         pt (if p (tok p) "_")
                         parts (kvtoks x)]
                     (put objs k (string "M0 " pt (sp parts)))
                     (string "r" k))
            :struct (let [p (struct/getproto x)
                          pt (if p (tok p) "_")
                          parts (kvtoks x)
                          k (mark x)]
                      (put objs k (string "U " pt (sp parts)))
                      (string "r" k))
            :function (let [k (mark x)
                            [dp eps] (c09/func-info x)
                            di (def-tok dp)
                            eis (map env-tok eps)]
                        (put objs k (string "F " di (sp (map string eis))))
                        (string "r" k))
            :fiber (let [k (mark x)
                         [flags frame stackstart stacktop maxstack frames env child last opaque] (c09/fiber-info x)]
                     (when opaque (error "unsupported fiber (running or with C frames)"))
                     # visit order of marshal_one_fiber: per frame (top first) function, environment, slots; then env table, child, last value
                     (def fts (map (fn [[ff pf pc func ep slots]]
                                     (def ft (tok func))
                                     (def et (if ep (string (env-tok ep)) "_"))
                                     (def sts (map tok slots))
                                     (string/format "%d %d %d %s %s %d%s" ff pf pc ft et (length sts) (sp sts)))
                                   frames))
                     (def et (if env (tok env) "_"))
                     (def ct (if child (tok child) "_"))
                     (def lt (tok last))
                     (put objs k (string/format "Y %d %d %d %d %d %s %s %s %d%s" flags frame stackstart stacktop maxstack et ct lt (length fts) (sp fts)))
                     (string "r" k))
            (errorf "unsupported %s" (type x))))))))
  (def r (tok root))
  (string r (string/join (map |(string " | " $) objs)) " # " (string/join defs " | ") " # " (string/join envs " | ")))

# ---------------------------------------------------------------- generator
(def int-bounds [0 1 127 128 129 255 256 8190 8191 8192 8193 -1 -2 -128 -129 -8191 -8192 -8193 32767 32768 65535 65536
                 16777215 16777216 2147483647 -2147483647 -2147483648 1000000])
(defn gen-int [] (if (chance 60) (in int-bounds (rnd (length int-bounds))) (- (rnd 200000) 100000)))
(defn gen-lit []
  (case (rnd 8)
    0 (string (gen-int))
    1 (string/format "%q" (string "s" (rnd 50)))
    2 (string ":k" (rnd 20))
    3 (string "'sym" (rnd 20))
    4 "1.5"
    5 (string "[" (gen-int) " " (gen-int) "]")
    6 (string "{:a " (gen-int) "}")
    (string "@[" (gen-int) "]")))

(var uid 0)
(defn fresh [p] (++ uid) (string p uid))

(defn gen-fn-src
  "source of a function that returns a tuple of closures over its own and the enclosing variables"
  [depth scope]
  (def nparams (rnd 4))
  (def params (seq [_ :range [0 nparams]] (fresh "p")))
  (def sig (case (rnd 10)
             0 (string/join [;params "&" (fresh "rest")] " ")
             1 (string/join [;params "&opt" (fresh "o")] " ")
             2 (string/join [;params "&keys" (fresh "ks")] " ")
             3 (string/join [;params "&named" (fresh "nm")] " ")
             (string/join params " ")))
  (def locals @[;params])
  (def body @[])
  (repeat (+ 1 (rnd 3))
    (def v (fresh "v"))
    (array/push body (string "(var " v " " (if (and (not (empty? locals)) (chance 40)) (in locals (rnd (length locals))) (gen-lit)) ")"))
    (array/push locals v))
  (when (chance 15)
    # many locals: frame sizes beyond one bitset word
    (repeat (+ 30 (rnd 40))
      (def v (fresh "w"))
      (array/push body (string "(var " v " " (gen-int) ")"))
      (array/push locals v)))
  (def all [;scope ;locals])
  (defn pickv [] (in all (rnd (length all))))
  (def results @[])
  (repeat (+ 1 (rnd 3))
    (def r (rnd 10))
    (array/push results
      (cond
        (and (> depth 0) (< r 4)) (let [[src np] (gen-fn-src (- depth 1) all)] (string "(" src (string/repeat " 0" np) ")"))
        (< r 6) (string "(fn " (if (chance 50) (fresh "named") "") " [] " (if (empty? all) (gen-lit) (string "(set " (pickv) " " (gen-lit) ") " (pickv))) ")")
        (< r 8) (string "(fn [x] " (if (empty? all) "x" (string "[x " (pickv) " " (pickv) " " (gen-lit) "]")) ")")
        (< r 9) (string "(fn [] (+ 1 " (if (empty? all) "2" (string "(if (number? " (pickv) ") " (pickv) " 0)")) "))")
        (gen-lit))))
  [(string "(fn " (if (chance 30) (fresh "f") "") " [" sig "] " (string/join body " ") " [" (string/join results " ") "])") nparams])

(defn fixed-cases []
  (def out @[])
  (defn add [name thunk] (array/push out [name thunk]))
  (add "plain" (fn [] (fn [x] (+ x 1))))
  (add "counter" (fn [] ((fn [init] (var n init) [(fn inc [] (++ n)) (fn get [] n) (fn [x] (set n x))]) 5)))
  (add "shared-def" (fn [] (defn mk [k] (fn [] k)) [(mk 1) (mk 2) (mk 1) mk]))
  (add "nested3" (fn [] ((fn [a] (var x a) ((fn [b] (var y b) [(fn [] (set x (+ x y))) (fn [] [x y a b]) ((fn [] (fn [] (++ x))))]) 2)) 1)))
  (add "cycle" (fn [] ((fn [] (var a nil) (var b nil) (set a (fn [] b)) (set b (fn [] a)) [a b]))))
  (add "self-in-table" (fn [] ((fn [] (def t @{}) (def f (fn [] t)) (put t :f f) [t f]))))
  (add "fn-constant" (fn [] (def f (fn [x] (* x 2))) (eval ~(fn [] (,f 21)))))
  (add "recursive" (fn [] (fn rec [n] (if (= n 0) 0 (rec (- n 1))))))
  (add "vararg" (fn [] [(fn [& xs] xs) (fn [a &opt b] [a b]) (fn [&keys k] k) (fn [a &named x y] [a x y])]))
  (add "big-frame" (fn [] (eval-string (string "((fn [a] " (string/join (seq [i :range [0 70]] (string "(var q" i " (+ a " i "))")) " ") " [(fn [] [q0 q31 q32 q33 q63 q64 q69]) (fn [] (set q32 7))]) 100)"))))
  (add "many-constants" (fn [] (eval-string (string "(fn [] [" (string/join (seq [i :range [0 140]] (string/format "%q" (string "c" i))) " ") "])"))))
  (add "long-body" (fn [] (eval-string (string "(fn [x] (var y x) " (string/join (seq [i :range [0 300]] (string "(set y (+ y " (- i 150) "))")) " ") " y)"))))
  (add "core-fns" (fn [] [map filter (fn [xs] (map inc xs)) defn]))
  (add "data-mix" (fn [] (def s "shared") (def f (fn [] s)) @{:f f :s s :g [f f] :t (fn [] [s f])}))
  # suspended fibers: frames, stack slots, closure environments still on the fiber's stack, child chain, fiber env table
  (add "fiber-new" (fn [] (fiber/new (fn [x] (+ x 1)))))
  (add "fiber-yielded" (fn [] (def f (fiber/new (fn [] (var a 10) (yield a) (set a (+ a 1)) (yield a) a))) (resume f) f))
  (add "fiber-dead" (fn [] (def f (fiber/new (fn [] 42))) (resume f) f))
  (add "fiber-error" (fn [] (def f (fiber/new (fn [] (error "boom")) :e)) (resume f) f))
  (add "fiber-nested-frames" (fn [] (defn inner [k] (yield k) (* k 2)) (defn outer [k] (+ 1 (inner (+ k 1)))) (def f (fiber/new (fn [] (outer 5)))) (resume f) f))
  (add "fiber-env-on-stack" (fn [] (def f (fiber/new (fn [] (var n 0) (def inc (fn [] (++ n))) (def get (fn [] n)) (yield [inc get]) (inc) (yield n) n)))
                                   (def cl (resume f)) [f cl]))
  (add "fiber-child" (fn [] (def f (fiber/new (fn [] (def c (fiber/new (fn [] (yield 1) (yield 2) 3) :y)) (resume c) (yield c) (resume c)))) (resume f) f))
  (add "fiber-with-env" (fn [] (def f (fiber/new (fn [] (yield (dyn :x)) 1))) (fiber/setenv f @{:x 10 :self-ref f}) (resume f) f))
  (add "fiber-shared" (fn [] (def f (fiber/new (fn [a] (yield a) a))) (resume f @[1 2]) @[f f {:k f}]))
  # environment still on the stack of the running fiber: early-detach path of marshal_one_env
  out)

(defn clean [e] (string/from-bytes ;(map |(if (and (> $ 32) (< $ 127)) $ 95) (string/bytes (string e)))))

(defn run-case [idx g]
  (def r (try
           (do
             (def bytes (marshal g mdict))
             (def d (describe g mdict))
             (def g2 (unmarshal bytes ldict))
             (def d2 (describe g2 mdict))
             (def b2 (marshal g2 mdict))
             (string (cond (not= d d2) "FAIL:copy-has-a-different-description"
                           (not= (string bytes) (string b2)) "FAIL:second-generation-bytes-differ"
                           "ok")
                     " " (hex bytes) " " d))
           ([e] (if (string/has-prefix? "unsupported" (string e))
                  (string "skip:" (clean e) " - ?")
                  (string "FAIL:error:" (clean e) " - ?")))))
  (print idx " " r))

(defn main-gen []
  (gcsetinterval 0x7fffffff)
  (var idx 0)
  (each [name thunk] (fixed-cases)
    (run-case idx (thunk))
    (++ idx))
  # running owner: the closure's environment is on the stack of the fiber that calls marshal
  ((fn [a b] (var x a) (var y b) (def f (fn [] (set x (+ x 1)))) (def g (fn [] [x y])) (run-case idx [f g]) (++ idx) x) 10 20)
  ((eval-string (string "(fn [run-case idx a] " (string/join (seq [i :range [0 70]] (string "(var q" i " (+ a " i "))")) " ")
                        " (run-case idx [(fn [] [q0 q31 q32 q33 q63 q64 q69]) (fn [] (set q32 7))]) q5)")) run-case idx 100)
  (++ idx)
  (repeat ncases
    (def [fsrc np] (gen-fn-src (+ 1 (rnd 3)) []))
    (def src (string "(" fsrc (string/repeat " 1" np) ")"))
    (def g (try
             (if (chance 25)
               # the closures are made inside a fiber that is then suspended: their environments are still on its stack
               (let [fb (eval-string (string "(fiber/new (fn [] (var acc @[]) (def cl " src ") (array/push acc cl) (def peek (fn [] acc)) (def poke (fn [x] (set acc x))) (yield [cl peek poke]) (yield acc) cl) :y)"))
                     cl (resume fb)]
                 (when (chance 50) (resume fb))
                 (if (chance 50) [fb cl] @[cl fb]))
               (eval-string src))
             ([e] (string "generator: " e))))
    (run-case idx (if (chance 30) @[g (gen-int) g] g))
    (gccollect)
    (++ idx)))

(defn main-deep []
  (def f (fn named [] [1 2 3]))
  (print "base " (describe f nil))
  (for d seed (+ 1 ncases)
    (var x f)
    (repeat d (set x @[x]))
    (def m (try (marshal x) ([e] nil)))
    (def u (if m (try (do (unmarshal m) "ok") ([e] "err")) "-"))
    (print "deep " d " marshal " (if m "ok" "err") " unmarshal " u " " (if m (length m) 0))))

(defn main-chan []
  # channels with queued integers (ring buffer rotated by take/give so that head > tail occurs), open and closed
  (repeat ncases
    (def limit (case (rnd 4) 0 0 1 1 2 (+ 1 (rnd 300)) (+ 1 (rnd 20))))
    (def ch (ev/chan (max limit 1)))
    (def cap (max limit 1))
    (def want (rnd (+ 1 cap)))
    (def items @[])
    # rotate: give k, take k, then fill
    (def rot (rnd (+ 1 cap)))
    (repeat rot (ev/give ch 0))
    (repeat rot (ev/take ch))
    (repeat want (def v (gen-int)) (ev/give ch v) (array/push items v))
    (def closed (chance 30))
    (when closed (ev/chan-close ch))
    (def bytes (marshal ch))
    (def ch2 (unmarshal bytes))
    # a closed channel does not hand out its queue any more: compare it through its own marshalled form
    (def same-bytes (= (string (marshal ch2)) (string bytes)))
    (def n2 (ev/count ch2))
    (def got @[])
    (unless closed (repeat n2 (array/push got (ev/take ch2))))
    (def ok (and same-bytes (= n2 (length items)) (or closed (deep= got items)) (= (ev/capacity ch2) (ev/capacity ch))))
    (print "chan " (if ok "ok" "FAIL") " 0 " (if closed 1 0) " " (ev/capacity ch) " " (hex bytes) " " (string/join (map |(string "i" $) items) " "))))

(case mode
  "chan" (main-chan)
  "gen" (main-gen)
  "deep" (main-deep)
  (error (string "unknown mode " mode)))
