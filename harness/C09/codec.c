/* C09 correspondence harness, integer codec: wrapper TU around the real marsh.c so that the file-static
 * pushint/readint are reachable.  Same line protocol as lean/Driver/C09.lean. */
#include "marsh.c"  /* resolved through -iquote <scratch tree>/src/core: the current working-tree source; must come first (features.h) */
#include <stdio.h>
#include <stdlib.h>
#include <string.h>

static int hexval(int c) {
    if (c >= '0' && c <= '9') return c - '0';
    if (c >= 'a' && c <= 'f') return c - 'a' + 10;
    if (c >= 'A' && c <= 'F') return c - 'A' + 10;
    return -1;
}

int main(void) {
    janet_init();
    char *line = NULL; size_t cap = 0; ssize_t n;
    while ((n = getline(&line, &cap, stdin)) > 0) {
        while (n > 0 && (line[n-1] == '\n' || line[n-1] == '\r' || line[n-1] == ' ')) line[--n] = 0;
        if (!strncmp(line, "pushint ", 8)) {
            long long x = strtoll(line + 8, NULL, 10);
            MarshalState st;
            memset(&st, 0, sizeof st);
            JanetBuffer *buf = janet_buffer(8);
            st.buf = buf;
            pushint(&st, (int32_t) x);
            for (int32_t i = 0; i < buf->count; i++) printf("%02x", buf->data[i]);
            printf("\n");
        } else if (!strncmp(line, "readint", 7)) {
            const char *h = line + 7;
            while (*h == ' ') h++;
            size_t hl = strlen(h);
            /* exact-size heap block so that ASan sees any read past the end */
            uint8_t *bytes = malloc(hl / 2 ? hl / 2 : 1);
            size_t len = hl / 2;
            for (size_t i = 0; i < len; i++) bytes[i] = (uint8_t)(hexval(h[2*i]) * 16 + hexval(h[2*i+1]));
            UnmarshalState st;
            memset(&st, 0, sizeof st);
            st.start = bytes; st.end = bytes + len;
            const uint8_t *at = bytes;
            JanetTryState ts;
            volatile int32_t ret = 0;
            volatile int ok = 0;
            JanetSignal sig = janet_try(&ts);
            if (sig == JANET_SIGNAL_OK) {
                ret = readint(&st, &at);
                ok = 1;
            }
            janet_restore(&ts);
            if (ok) printf("ok %d %ld\n", (int) ret, (long)(at - bytes)); else printf("err\n");
            free(bytes);
        } else if (!strncmp(line, "push64 ", 7)) {
            unsigned long long x = strtoull(line + 7, NULL, 10);
            MarshalState st;
            memset(&st, 0, sizeof st);
            JanetBuffer *buf = janet_buffer(16);
            st.buf = buf;
            push64(&st, (uint64_t) x);
            for (int32_t i = 0; i < buf->count; i++) printf("%02x", buf->data[i]);
            printf("\n");
        } else if (!strncmp(line, "read64", 6)) {
            const char *h = line + 6;
            while (*h == ' ') h++;
            size_t hl = strlen(h);
            uint8_t *bytes = malloc(hl / 2 ? hl / 2 : 1);
            size_t len = hl / 2;
            for (size_t i = 0; i < len; i++) bytes[i] = (uint8_t)(hexval(h[2*i]) * 16 + hexval(h[2*i+1]));
            UnmarshalState st;
            memset(&st, 0, sizeof st);
            st.start = bytes; st.end = bytes + len;
            const uint8_t *at = bytes;
            JanetTryState ts;
            volatile uint64_t ret = 0;
            volatile int ok = 0;
            JanetSignal sig = janet_try(&ts);
            if (sig == JANET_SIGNAL_OK) {
                ret = read64(&st, &at);
                ok = 1;
            }
            janet_restore(&ts);
            if (ok) printf("ok %llu %ld\n", (unsigned long long) ret, (long)(at - bytes)); else printf("err\n");
            free(bytes);
        } else if (!strncmp(line, "sweep64 ", 8)) {
            /* direct oracle: read64(push64(x)) == x for x = seed-driven values at every byte-width boundary */
            unsigned long long n, seed;
            sscanf(line + 8, "%llu %llu", &seed, &n);
            MarshalState st;
            memset(&st, 0, sizeof st);
            JanetBuffer *buf = janet_buffer(16);
            st.buf = buf;
            UnmarshalState us;
            memset(&us, 0, sizeof us);
            unsigned long long bad = 0, first = 0, s = seed;
            for (unsigned long long k = 0; k < n; k++) {
                s += 0x9E3779B97F4A7C15ULL;
                unsigned long long z = s;
                z = (z ^ (z >> 30)) * 0xBF58476D1CE4E5B9ULL;
                z = (z ^ (z >> 27)) * 0x94D049BB133111EBULL;
                z ^= z >> 31;
                int w = (int)(k % 65);
                uint64_t x = w == 0 ? 0 : (w == 64 ? z : (z & ((1ULL << w) - 1)));
                if (k % 3 == 1 && w > 0 && w < 64) x = (1ULL << w) - (k % 5);   /* 2^w - small */
                buf->count = 0;
                push64(&st, x);
                us.start = buf->data; us.end = buf->data + buf->count;
                const uint8_t *at = buf->data;
                JanetTryState ts;
                volatile int ok = 0;
                volatile uint64_t ret = 0;
                if (janet_try(&ts) == JANET_SIGNAL_OK) { ret = read64(&us, &at); ok = 1; }
                janet_restore(&ts);
                if (!ok || ret != x || at != buf->data + buf->count) { if (!bad) first = x; bad++; }
            }
            if (bad) printf("fail %llu %llu\n", first, bad); else printf("ok\n");
        } else if (!strncmp(line, "sweep ", 6)) {
            /* direct oracle on the implementation: readint(pushint(x)) == x and consumes exactly what was pushed */
            long long lo, hi;
            sscanf(line + 6, "%lld %lld", &lo, &hi);
            MarshalState st;
            memset(&st, 0, sizeof st);
            JanetBuffer *buf = janet_buffer(8);
            st.buf = buf;
            UnmarshalState us;
            memset(&us, 0, sizeof us);
            long long bad = 0, first = 0;
            for (long long x = lo; x <= hi; x++) {
                buf->count = 0;
                pushint(&st, (int32_t) x);
                us.start = buf->data; us.end = buf->data + buf->count;
                const uint8_t *at = buf->data;
                JanetTryState ts;
                volatile int ok = 0;
                volatile int32_t ret = 0;
                if (janet_try(&ts) == JANET_SIGNAL_OK) { ret = readint(&us, &at); ok = 1; }
                janet_restore(&ts);
                if (!ok || ret != (int32_t) x || at != buf->data + buf->count) { if (!bad) first = x; bad++; }
            }
            if (bad) printf("fail %lld %lld\n", first, bad); else printf("ok\n");
        } else {
            printf("bad-op\n");
        }
    }
    free(line);
    fflush(stdout);
    janet_deinit();
    return 0;
}
