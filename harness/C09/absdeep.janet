# Recursion-depth boundary of marshal / unmarshal for values nested THROUGH abstract payloads (direct oracle, C09):
# a compiled PEG keeps the payload of (constant x) in its constant pool and peg_marshal hands it back to the marshaller with
# janet_marshal_janet; a channel does the same with its queued items.  Whatever `marshal` accepts, `unmarshal` must accept, and
# the copy must have the same nesting.  usage: janet absdeep.janet <kind> <a> <i> <k> [<kind> <a> <i> <k> ...]
#   kind = peg | chan ; k abstracts, each holding the next one inside i arrays, :leaf at the bottom, a arrays around everything
# one line per case: absdeep <kind> <a> <i> <k> marshal <ok|err> unmarshal <ok|err|-> shape <ok|bad|-> # <bytes / messages>

(defn wrap [n x] (var v x) (repeat n (set v @[v])) v)

(defn hold [kind x]
  (case kind
    "peg" (peg/compile (tuple 'constant x))
    "chan" (let [c (ev/chan 1)] (ev/give c x) c)
    (error "kind")))

(defn build [kind a i k]
  (var v :leaf)
  (repeat k (set v (hold kind (wrap i v))))
  (wrap a v))

(defn payload [kind x]
  (case kind
    "peg" (let [r (peg/match x "")] (if (and r (= 1 (length r))) (in r 0) (error "peg does not yield its constant")))
    "chan" (if (= 1 (ev/count x)) (ev/take x) (error "channel does not hold one item"))))

(defn unwrap [n x]
  (var v x)
  (repeat n
    (unless (and (array? v) (= 1 (length v))) (error "array level missing"))
    (set v (in v 0)))
  v)

(defn shape-ok [kind a i k y]
  (var v (unwrap a y))
  (repeat k
    (unless (= (type v) (if (= kind "peg") :core/peg :core/channel)) (error (string "abstract level missing, got " (type v))))
    (set v (unwrap i (payload kind v))))
  (= v :leaf))

(defn one [kind a i k]
  (def x (build kind a i k))
  (def [mok b] (protect (marshal x)))
  (if-not mok
    (printf "absdeep %s %d %d %d marshal err unmarshal - shape - # %s" kind a i k (string b))
    (let [[uok y] (protect (unmarshal b))]
      (if-not uok
        (printf "absdeep %s %d %d %d marshal ok unmarshal err shape - # %d bytes; %s" kind a i k (length b) (string y))
        (let [[sok s] (protect (shape-ok kind a i k y))]
          (printf "absdeep %s %d %d %d marshal ok unmarshal ok shape %s # %d bytes%s" kind a i k (if (and sok s) "ok" "bad") (length b)
                  (if sok "" (string "; " s)))))))
  (flush))

(def args (array/slice (dyn :args) 1))
(each [kind a i k] (partition 4 args)
  (one kind (scan-number a) (scan-number i) (scan-number k)))
