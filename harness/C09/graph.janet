# C09 harness: random data value graphs in real janet.
#   janet graph.janet gen <seed> <ncases> <maxsize>
#   janet graph.janet decode            (hex strings on stdin -> "ok <description of (unmarshal bytes)>" | "err <message>")
#   janet graph.janet deep <d1> <d2>    (arrays nested d deep: "deep <d> ok <hexlen>" | "deep <d> err")
# Mode gen: for every case prints one line
#   <idx> <verdict> <regflag> <hex of (marshal g)> <canonical description of g>
# verdict = ok | FAIL:<why>  from the direct oracle: (unmarshal (marshal g)) is deep-equal-with-sharing to g.
# The description is the abstraction function of lean/JanetModel/Marsh/Graph.lean: heap objects listed in
# reference-number order.  It deliberately does NOT look at marsh.c: it walks the value with janet's own
# table (keyed by janet equality, like st->seen) and numbers each kind of object at the point the wire format
# documents (before children: reals, strings, buffers, arrays, tables, registry values; after: tuples, structs).

(def args (dyn :args))
(def mode (get args 1 "gen"))
(def seed (scan-number (get args 2 "1")))
(def ncases (scan-number (get args 3 "10")))
(def maxsize (scan-number (get args 4 "30")))
(def rng (math/rng seed))
(defn rnd [n] (math/rng-int rng n))
(defn chance [p] (< (rnd 100) p))

(defn hex [bytes]
  (def b (buffer/new (* 2 (length bytes))))
  (each c bytes (buffer/format b "%02x" c))
  (string b))

# ---------------------------------------------------------------- registry (lookup tables)
(def regtab @{:i-am "registry table"})
(def rreg @{print 'print math/sin 'math/sin regtab 'my/regtab string/format 'string/format})
(def reg (invert rreg))
(def regvals [print math/sin regtab string/format])

# ---------------------------------------------------------------- weakness is not observable from janet: remember it
(def weakness @{})   # object -> 0..3 (tables) / 1 (arrays)
(defn lead-byte [x] (try (get (marshal x rreg) 0) ([_] -1)))
(defn weak-of-lead [lb]
  (case lb 0xD1 0 0xE8 1 0xD3 0 0xD4 0 0xE2 1 0xE5 1 0xE3 2 0xE6 2 0xE4 3 0xE7 3 -1))

(defn intpath? [x]
  (and (number? x) (>= x -2147483648) (<= x 2147483647) (= x (math/trunc x))))

# ---------------------------------------------------------------- abstraction: value graph -> description
(defn describe [root rr weak-fn]
  (def seen @{})
  (var nextid 0)
  (def objs @[])
  (defn mark [x]
    (def k nextid)
    (++ nextid)
    (unless (and (number? x) (nan? x)) (put seen x k))
    (put objs k "?")
    k)
  (var tok nil)
  (defn kvtoks [x]
    (def parts @[])
    (eachp [k v] x (array/push parts (tok k)) (array/push parts (tok v)))
    parts)
  (set tok (fn tok [x]
    (cond
      (nil? x) "n"
      (= x true) "t"
      (= x false) "f"
      (intpath? x) (string/format "i%d" x)
      (do
        (def s (if (and (number? x) (nan? x)) nil (get seen x)))
        (def nm (if (and rr (not (and (number? x) (nan? x)))) (get rr x)))
        (cond
          s (string "r" s)
          (symbol? nm) (let [k (mark x)] (put objs k (string "G" (hex nm))) (string "r" k))
          (case (type x)
            :number (let [k (mark x)] (put objs k (string "R" (hex (buffer/push-float64 @"" :le x)))) (string "r" k))
            :string (let [k (mark x)] (put objs k (string "Ss" (hex x))) (string "r" k))
            :symbol (let [k (mark x)] (put objs k (string "Sy" (hex x))) (string "r" k))
            :keyword (let [k (mark x)] (put objs k (string "Sk" (hex x))) (string "r" k))
            :buffer (let [k (mark x)] (put objs k (string "B" (hex x))) (string "r" k))
            :array (let [k (mark x)
                         parts (map tok x)]
                     (put objs k (string/join ["A" (string (weak-fn x)) ;(map |(string " " $) parts)]))
                     (string "r" k))
            :tuple (let [parts (map tok x)
                         k (mark x)]
                     (put objs k (string/join ["T" (if (= (tuple/type x) :brackets) "1" "0") ;(map |(string " " $) parts)]))
                     (string "r" k))
            :table (let [k (mark x)
                         p (table/getproto x)
                         pt (if p (tok p) "_")
                         parts (kvtoks x)]
                     (put objs k (string/join ["M" (string (weak-fn x)) " " pt ;(map |(string " " $) parts)]))
                     (string "r" k))
            :struct (let [p (struct/getproto x)
                          pt (if p (tok p) "_")
                          parts (kvtoks x)
                          k (mark x)]
                      (put objs k (string/join ["U " pt ;(map |(string " " $) parts)]))
                      (string "r" k))
            (errorf "cannot describe %v" x)))))))
  (def r (tok root))
  (string/join [r ;(map |(string " | " $) objs)]))

# ---------------------------------------------------------------- direct oracle: deep equality with sharing
(defn mutable? [x] (case (type x) :array true :table true :buffer true false))

(defn impure? [x rr]
  (cond
    (and rr (not (and (number? x) (nan? x))) (get rr x)) false
    (mutable? x) true
    (tuple? x) (truthy? (some |(impure? $ rr) x))
    (struct? x) (or (truthy? (some |(impure? $ rr) (keys x))) (truthy? (some |(impure? $ rr) (values x)))
                    (if (struct/getproto x) (impure? (struct/getproto x) rr) false))
    false))

(defn has-nan?
  "NaN somewhere inside an immutable value: such a value is not equal to a copy of itself, so it cannot be a table key"
  [x]
  (cond
    (number? x) (nan? x)
    (tuple? x) (truthy? (some has-nan? x))
    (struct? x) (or (truthy? (some has-nan? (values x))) (if (struct/getproto x) (has-nan? (struct/getproto x)) false))
    false))

(defn iso
  "nil when a and b are the same graph up to renaming of mutable objects, else a short reason"
  [a b rr weak-a weak-b]
  (def fwd @{})
  (def bwd @{})
  (def memo @{})
  (var go nil)
  (defn fail [why] (error why))
  (defn kvmatch [a b]
    (unless (= (length a) (length b)) (fail "kv-count"))
    (def bt @{})
    (def bimp @[])
    (eachp [k v] b (if (impure? k rr) (array/push bimp [k v]) (put bt k v)))
    (def aimp @[])
    (eachp [k v] a
      (if (impure? k rr)
        (array/push aimp [k v])
        (do
          (def v2 (get bt k))
          (when (nil? v2) (fail "missing-key"))
          (go v v2))))
    (unless (= (length aimp) (length bimp)) (fail "impure-key-count"))
    (when (> (length aimp) 1) (fail "generator:more-than-one-impure-key"))
    (when (= (length aimp) 1)
      (go (get-in aimp [0 0]) (get-in bimp [0 0]))
      (go (get-in aimp [0 1]) (get-in bimp [0 1]))))
  (defn match-mut [a b f]
    (def m (get fwd a))
    (cond
      m (unless (= m b) (fail "sharing:one-to-many"))
      (get bwd b) (fail "sharing:many-to-one")
      (do (put fwd a b) (put bwd b a) (f))))
  (set go (fn go [a b]
    (unless (= (type a) (type b)) (fail (string "type " (type a) "/" (type b))))
    (cond
      (number? a) (unless (or (= a b) (and (nan? a) (nan? b))) (fail "number"))
      (and rr (get rr a)) (unless (= a b) (fail "registry-identity"))
      (case (type a)
        :nil nil
        :boolean (unless (= a b) (fail "boolean"))
        :string (unless (= a b) (fail "string"))
        :symbol (unless (= a b) (fail "symbol"))
        :keyword (unless (= a b) (fail "keyword"))
        :buffer (match-mut a b (fn [] (unless (= (string a) (string b)) (fail "buffer-bytes"))))
        :array (match-mut a b (fn []
                 (unless (= (length a) (length b)) (fail "array-length"))
                 (unless (= (weak-a a) (weak-b b)) (fail "array-weakness"))
                 (for i 0 (length a) (go (in a i) (in b i)))))
        :tuple (let [key [a b]]
                 (unless (get memo key)
                   (unless (= (tuple/type a) (tuple/type b)) (fail "tuple-flag"))
                   (unless (= (length a) (length b)) (fail "tuple-length"))
                   (for i 0 (length a) (go (in a i) (in b i)))
                   (put memo key true)))
        :struct (let [key [a b]]
                  (unless (get memo key)
                    (def pa (struct/getproto a))
                    (def pb (struct/getproto b))
                    (unless (= (nil? pa) (nil? pb)) (fail "struct-proto-presence"))
                    (when pa (go pa pb))
                    (kvmatch a b)
                    (put memo key true)))
        :table (match-mut a b (fn []
                 (def pa (table/getproto a))
                 (def pb (table/getproto b))
                 (unless (= (nil? pa) (nil? pb)) (fail "table-proto-presence"))
                 (unless (= (weak-a a) (weak-b b)) (fail "table-weakness"))
                 (when pa (go pa pb))
                 (kvmatch a b)))
        (fail (string "unsupported type " (type a)))))))
  (try (do (go a b) nil) ([err] (string err))))

# ---------------------------------------------------------------- generator
(def int-bounds [0 1 127 128 129 255 256 8190 8191 8192 8193 -1 -2 -128 -129 -8191 -8192 -8193 -8194 32767 32768 65535 65536
                 16777215 16777216 2147483646 2147483647 -2147483647 -2147483648 1000000 -1000000])
(def real-specials [0.5 -0.0 2147483648 -2147483649 1e100 -1e100 math/inf (- math/inf) math/nan 4.9406564584124654e-324
                    0.1 -0.1 4294967296 9007199254740993 1.5 -2.5 3.0000000001 1e-7])
(def str-pool ["" "a" "ab" "abc" "key" "value" "\0" "\xff\xfe" "hello world" "x" "y" "z" (string/repeat "p" 127) (string/repeat "q" 128) (string/repeat "r" 300)])

(defn gen-int []
  (if (chance 60) (in int-bounds (rnd (length int-bounds)))
    (let [w (+ 1 (rnd 31)) v (math/floor (* (math/rng-uniform rng) (math/pow 2 w)))]
      (if (chance 50) v (- -1 v)))))

(defn gen-real []
  (if (chance 60) (in real-specials (rnd (length real-specials)))
    (* (- (math/rng-uniform rng) 0.5) (math/pow 10 (- (rnd 40) 20)))))

(defn gen-bytes []
  (cond
    (chance 70) (in str-pool (rnd (length str-pool)))
    (chance 3) (string/repeat "L" (+ 8190 (rnd 4)))
    (string (buffer/push-byte @"" ;(seq [_ :range [0 (rnd 8)]] (rnd 256))))))

(defn gen-graph [size usereg]
  (def rr (if usereg rreg))
  (def pool @[])
  (def muts @[])
  (def has-impure @{})
  (defn leaf []
    (def r (rnd 100))
    (cond
      (< r 8) nil
      (< r 14) (chance 50)
      (< r 45) (gen-int)
      (< r 60) (gen-real)
      (< r 72) (gen-bytes)
      (< r 82) (symbol (gen-bytes))
      (< r 92) (keyword (gen-bytes))
      (buffer (gen-bytes))))
  (defn pick [] (if (or (empty? pool) (chance 15)) (leaf) (in pool (rnd (length pool)))))
  (defn pick-val [] (var v (pick)) (while (nil? v) (set v (gen-int))) v)
  (defn pick-key [allow-impure]
    (var k nil)
    (var tries 0)
    (while (or (nil? k) (has-nan? k) (and (number? k) (= k 0)) (and (not allow-impure) (impure? k rr)))
      (set k (if (< tries 6) (pick) (gen-int)))
      (when (and (number? k) (= k 0)) (set k 1))
      (++ tries))
    k)
  (defn gen-kvs [n]
    (var impure-used false)
    (def kvs @[])
    (repeat n
      (def k (pick-key (not impure-used)))
      (when (impure? k rr) (set impure-used true))
      (array/push kvs k (pick-val)))
    [kvs impure-used])
  (defn dedupe-impure [kvs]
    # the same impure key twice is fine (it is one key); nothing to do
    kvs)
  (defn gen-table []
    (def w (if (chance 12) (+ 1 (rnd 3)) 0))
    (def t (case w 0 @{} 1 (table/weak-keys 4) 2 (table/weak-values 4) (table/weak 4)))
    (put weakness t w)
    (def [kvs imp] (gen-kvs (rnd 5)))
    (for i 0 (/ (length kvs) 2) (put t (in kvs (* 2 i)) (in kvs (+ 1 (* 2 i)))))
    (put has-impure t imp)
    (array/push muts t)
    t)
  (defn gen-array []
    (def w (if (chance 8) 1 0))
    (def a (if (= w 1) (array/weak 4) @[]))
    (put weakness a w)
    (repeat (rnd 5) (array/push a (pick)))
    (array/push muts a)
    a)
  (defn gen-struct []
    (def [kvs _] (gen-kvs (rnd 4)))
    (def protos (filter struct? pool))
    (if (and (chance 30) (not (empty? protos)))
      (struct/with-proto (in protos (rnd (length protos))) ;kvs)
      (struct ;kvs)))
  (defn gen-tuple []
    (def items (seq [_ :range [0 (rnd 5)]] (pick)))
    (if (chance 30) (tuple/brackets ;items) (tuple ;items)))
  (repeat size
    (def r (rnd 100))
    (array/push pool
      (cond
        (< r 25) (leaf)
        (< r 42) (gen-tuple)
        (< r 54) (gen-struct)
        (< r 72) (gen-array)
        (< r 90) (gen-table)
        (and usereg (< r 96)) (in regvals (rnd (length regvals)))
        (leaf))))
  # back edges: cycles through arrays and tables (keys and values), prototypes (incl. prototype cycles)
  (each m muts
    (when (chance 60)
      (if (array? m)
        (repeat (+ 1 (rnd 2))
          (if (and (> (length m) 0) (chance 50))
            (put m (rnd (length m)) (pick))
            (array/push m (pick))))
        (repeat (+ 1 (rnd 2))
          (def k (pick-key (not (get has-impure m))))
          (when (impure? k rr) (put has-impure m true))
          (put m k (pick-val)))))
    (when (and (table? m) (chance 25))
      (def tabs (filter table? muts))
      (def p (in tabs (rnd (length tabs))))
      (unless (and (get rreg p)) (table/setproto m p))))
  (cond
    (chance 25) (in pool (rnd (length pool)))
    (chance 50) (seq [_ :range [0 (+ 1 (rnd 6))]] (in pool (rnd (length pool))))
    (tuple ;(seq [_ :range [0 (+ 1 (rnd 6))]] (in pool (rnd (length pool)))))))

# ---------------------------------------------------------------- fixed scenarios (run first)
(defn fixed-cases []
  (def out @[])
  # tuple -> array -> tuple cycle: the tuple is numbered twice
  (let [a @[]] (def t [a 1]) (array/push a t) (array/push out t) (array/push out a) (array/push out [t t a]))
  # struct -> table -> struct
  (let [tb @{}] (def s {:k tb}) (put tb :s s) (array/push out s) (array/push out tb))
  # self references
  (let [a @[]] (array/push a a) (array/push out a))
  (let [t @{}] (put t t t) (array/push out t))
  (let [t @{}] (put t :self t) (table/setproto t t) (array/push out t))
  (let [t1 @{:a 1} t2 @{:b 2}] (table/setproto t1 t2) (table/setproto t2 t1) (array/push out @[t1 t2 t1]))
  # sharing of every kind below one root
  (let [s "shared" b @"buf" r 1.5 tu [1 2] st {:a 1} ar @[1] tb @{:x 1}]
    (array/push out @[s s b b r r tu tu st st ar ar tb tb (keyword s) (symbol s) (string b)]))
  # equal but distinct immutable values are shared on the wire; equal but distinct mutable values are not
  (array/push out @[(string "ab" "c") (string "a" "bc") @[1] @[1] (tuple 1 2) (tuple 1 2) @"x" @"x"])
  # struct prototypes, nested, shared
  (let [p {:a 1} q (struct/with-proto p :b 2) r (struct/with-proto q :c p)] (array/push out [r q p r]))
  # bracket tuples inside paren tuples; the same elements with both flags
  (array/push out [(tuple/brackets 1 2) (tuple 1 2) (tuple/brackets) (tuple)])
  # numbers around the integer path
  (array/push out @[-0.0 0 2147483647 2147483648 -2147483648 -2147483649 0.5 math/nan math/nan math/inf 1e100 1e100])
  # nan inside immutable containers (shared by pointer only)
  (let [t [math/nan]] (array/push out @[t t [math/nan]]))
  # integer width boundaries as lengths: strings of length 127 / 128 / 8191 / 8192
  (array/push out @[(string/repeat "a" 127) (string/repeat "a" 128) (string/repeat "a" 8191) (string/repeat "a" 8192)])
  (array/push out (array/new-filled 130 7))
  (array/push out (tuple ;(range 200)))
  (array/push out (table ;(range 300)))
  # weak containers
  (let [w (table/weak-keys 2) a (array/weak 2) k @[1]]
    (put weakness w 1) (put weakness a 1) (put w k 1) (array/push a k) (array/push out @[k w a]))
  out)

(defn weak-known [x] (get weakness x 0))
(defn weak-by-lead [x] (weak-of-lead (lead-byte x)))

(defn clean [e] (string/from-bytes ;(map |(if (and (> $ 32) (< $ 127)) $ 95) (string/bytes (string e)))))

(defn run-case-raw [idx g usereg]
  (def rr (if usereg rreg))
  (def bytes (if usereg (marshal g rreg) (marshal g)))
  (def g2 (if usereg (unmarshal bytes reg) (unmarshal bytes)))
  (def why (iso g g2 rr weak-known weak-by-lead))
  # second generation: marshalling the copy must again round-trip (and give the same bytes when no hash order is involved)
  (def why2 (if why nil
              (let [b2 (if usereg (marshal g2 rreg) (marshal g2))
                    g3 (if usereg (unmarshal b2 reg) (unmarshal b2))]
                (iso g g3 rr weak-known weak-by-lead))))
  (def d (describe g rr weak-known))
  (print idx " " (cond why (string "FAIL:" why) why2 (string "FAIL:second-generation:" why2) "ok") " " (if usereg 1 0) " " (hex bytes) " " d))

(defn unhex [h]
  (def b (buffer/new (/ (length h) 2)))
  (for i 0 (/ (length h) 2) (buffer/push-byte b (scan-number (string "16r" (string/slice h (* 2 i) (+ 2 (* 2 i)))))))
  b)

(defn run-case [idx g usereg]
  (try (run-case-raw idx g usereg)
    ([e] (def d (try (describe g (if usereg rreg) weak-known) ([_] "?")))
         (def b (try (hex (if usereg (marshal g rreg) (marshal g))) ([_] "-")))
         (print idx " FAIL:error:" (clean e) " " (if usereg 1 0) " " b " " d))))

(defn main-gen []
  # no automatic collection inside a case (weakly held parts of the copy must survive until they are compared)
  (gcsetinterval 0x7fffffff)
  (var idx 0)
  (each g (fixed-cases)
    (run-case idx g false)
    (++ idx))
  (repeat ncases
    (def usereg (chance 30))
    (def g (gen-graph (+ 1 (rnd maxsize)) usereg))
    (run-case idx g usereg)
    (gccollect)
    (++ idx)))

(defn main-decode []
  (gcsetinterval 0x7fffffff)
  (while true
    (def line (file/read stdin :line))
    (unless line (break))
    (def h (string/trim line))
    (def r (try (let [v (unmarshal (unhex h) reg)]
                  (try (string "ok " (describe v rreg weak-by-lead)) ([e] (string "ok ?unsupported " e))))
                ([e] (string "err " (string/from-bytes ;(map |(if (and (>= $ 32) (< $ 127)) $ 63) (string/bytes (string e))))))))
    (print r)
    (gccollect)))

(defn main-deep []
  (for d seed (+ 1 ncases)
    (var x @[])
    (repeat d (set x @[x]))
    (def r (try (let [b (marshal x)] (def y (unmarshal b)) (var depth 0) (var z y) (while (> (length z) 0) (set z (in z 0)) (++ depth))
                  (if (= depth d) (string "ok " (length b)) (string "FAIL depth " depth)))
                ([e] "err")))
    (print "deep " d " " r)))

(case mode
  "gen" (main-gen)
  "decode" (main-decode)
  "deep" (main-deep)
  (error (string "unknown mode " mode)))
