/* C09 harness: compiled PEGs through marshal/unmarshal.  Compares the fields peg_unmarshal RECOMPUTES (bytecode_len,
 * num_constants, has_backref) and the bytecode words of original and copy directly, and the behaviour of both on texts.
 * stdin: one janet expression per line evaluating to [grammar texts]; stdout one line each:
 *   ok hb=<0|1> nc=<n> words=<hex words> succ=<texts matched> fail=<texts not matched> err=<texts raising>
 *   nocompile <msg> | roundtrip <msg> | field <which> ... | beh <detail> */
#include <janet.h>
#include <stdio.h>
#include <stdlib.h>
#include <string.h>

static const char *prelude =
    "(def __addr (peg/compile '(* \"0x\" (some (range \"09\" \"AF\" \"af\")))))\n"
    "(defn __m [p text start] (def [ok r] (protect (peg/match p text start \"A0\" 42)))\n"
    "  [ok (nil? r) (peg/replace-all __addr \"0x?\" (string/format \"%q\" r))])\n"
    "(defn __peg [thunk]\n"
    "  (def [ok r] (protect (thunk)))\n"
    "  (if (not ok) [:nocompile (string r)]\n"
    "    (let [[g texts] r [ok1 p] (protect (peg/compile g))]\n"
    "      (if (not ok1) [:nocompile (string p)]\n"
    "        (let [[ok2 q] (protect (unmarshal (marshal p make-image-dict) load-image-dict))]\n"
    "          (if (or (not ok2) (not= (type q) :core/peg)) [:roundtrip (string q)]\n"
    "            (do (var bad nil) (var succ 0) (var fail 0) (var errs 0)\n"
    "              (each t texts (each st [0 1 (length t)]\n"
    "                (when (<= st (length t))\n"
    "                  (def a (__m p t st)) (def b (__m q t st))\n"
    "                  (cond (not (a 0)) (++ errs) (a 1) (++ fail) (++ succ))\n"
    "                  (unless (deep= a b) (set bad (string/format \"text %q start %d: original %q copy %q\" t st a b))))))\n"
    "              [:ok p q bad succ fail errs])))))))\n";

static void clean(const uint8_t *s, int32_t n) {
    for (int32_t i = 0; i < n; i++) putchar((s[i] > 32 && s[i] < 127) ? s[i] : '_');
}

int main(void) {
    janet_init();
    JanetTable *env = janet_core_env(NULL);
    janet_gcroot(janet_wrap_table(env));
    Janet out;
    if (janet_dostring(env, prelude, "prelude", &out)) { printf("prelude failed\n"); return 2; }
    char *line = NULL; size_t cap = 0; ssize_t n;
    while ((n = getline(&line, &cap, stdin)) > 0) {
        while (n > 0 && (line[n-1] == '\n' || line[n-1] == '\r')) line[--n] = 0;
        size_t len = (size_t) n + 64;
        char *buf = malloc(len);
        snprintf(buf, len, "(__peg (fn [] %s))", line);
        int st = janet_dostring(env, buf, "case", &out);
        free(buf);
        if (st || !janet_checktype(out, JANET_TUPLE)) { printf("nocompile expression-did-not-evaluate\n"); fflush(stdout); continue; }
        const Janet *t = janet_unwrap_tuple(out);
        const char *tag = (const char *) janet_unwrap_keyword(t[0]);
        if (strcmp(tag, "ok")) {
            const uint8_t *m = janet_unwrap_string(t[1]);
            printf("%s ", tag); clean(m, janet_string_length(m)); printf("\n"); fflush(stdout);
            continue;
        }
        JanetPeg *p = (JanetPeg *) janet_unwrap_abstract(t[1]);
        JanetPeg *q = (JanetPeg *) janet_unwrap_abstract(t[2]);
        int fielddiff = p->bytecode_len != q->bytecode_len || p->num_constants != q->num_constants || !!p->has_backref != !!q->has_backref
                        || memcmp(p->bytecode, q->bytecode, p->bytecode_len * sizeof(uint32_t));
        if (fielddiff && !janet_checktype(t[3], JANET_NIL)) {
            const uint8_t *m = janet_unwrap_string(t[3]);
            printf("beh "); clean(m, janet_string_length(m));
            printf(" [has_backref original %d copy %d, bytecode_len %zu/%zu, num_constants %u/%u]\n", p->has_backref, q->has_backref,
                   p->bytecode_len, q->bytecode_len, p->num_constants, q->num_constants);
        } else if (p->bytecode_len != q->bytecode_len) {
            printf("field bytecode_len original %zu copy %zu\n", p->bytecode_len, q->bytecode_len);
        } else if (p->num_constants != q->num_constants) {
            printf("field num_constants original %u copy %u\n", p->num_constants, q->num_constants);
        } else if (!!p->has_backref != !!q->has_backref) {
            printf("field has_backref original %d copy %d\n", p->has_backref, q->has_backref);
        } else if (memcmp(p->bytecode, q->bytecode, p->bytecode_len * sizeof(uint32_t))) {
            printf("field bytecode words differ\n");
        } else if (!janet_checktype(t[3], JANET_NIL)) {
            const uint8_t *m = janet_unwrap_string(t[3]);
            printf("beh "); clean(m, janet_string_length(m)); printf("\n");
        } else {
            printf("ok hb=%d nc=%u words=", !!p->has_backref, p->num_constants);
            for (size_t i = 0; i < p->bytecode_len; i++) printf("%08x", p->bytecode[i]);
            printf(" succ=%d fail=%d err=%d\n", janet_unwrap_integer(t[4]), janet_unwrap_integer(t[5]), janet_unwrap_integer(t[6]));
        }
        fflush(stdout);
    }
    free(line);
    janet_deinit();
    return 0;
}
