"""Direct oracle for C07 on the implementation's event log (independent of the Lean model).

Log lines produced by harness/C07/evwrap.c:
  R <tick> <fiber> sid=<n> in=<signal> val=<repr>     a run-queue task was executed: fiber resumed with value
  X <tick> <fiber> <signal out>                        the fiber suspended again / finished
  L <tick> <fiber> :<label> <repr>                     result of a wait as seen by the janet program
  S ...                                                state dumps,   D <tick> LOOPDONE|DEADLOCK|HANG|CRASH
"""
import re


def parse(text):
    """-> {scenario id: {"lines": [...], "status": str}}"""
    out = {}
    cur = None
    for line in text.splitlines():
        if line.startswith("@@@ end "):
            if cur is not None:
                out[cur]["status"] = line[8:].strip()
            cur_done = cur
            cur = None
            continue
        if line.startswith("@@@ "):
            cur = line[4:].strip()
            out[cur] = {"lines": [], "status": "missing"}
            continue
        if cur is not None:
            out[cur]["lines"].append(line)
    return out


def resumes(lines, fiber):
    r = []
    for l in lines:
        m = re.match(r"R (-?\d+) (\S+) sid=(\d+) in=(\S+) val=(.*)$", l)
        if m and m.group(2) == fiber:
            r.append((int(m.group(1)), m.group(5), m.group(4), int(m.group(3))))
    return r


def logs(lines, fiber):
    d = {}
    for l in lines:
        m = re.match(r"L (-?\d+) (\S+) :(\S+) ?(.*)$", l)
        if m and m.group(2) == fiber:
            d[m.group(3)] = (int(m.group(1)), m.group(4))
    return d


def classify(sc, got, exp, ticks=True):
    """Name the specific way F's resume list deviates (stable signature for known-finding matching)."""
    ex = sc.expect
    ib = len(exp) - 2          # index of B's completion in the expected list
    # first deviation
    i = 0
    while i < len(got) and i < len(exp) and (got[i][:2] == exp[i] if ticks else got[i][1] == exp[i][1]):
        i += 1
    if i < len(got):
        t, v = got[i][0], got[i][1]
        if i == ib and (t < ex["t_b"] if ticks else True):
            # F was resumed while blocked on B, before B's legitimate completion
            if sc.meta.get("abandon") == "immediate" or (v in ("cB", "(:give,cB)") and sc.meta.get("dirt", "none") != "none"):
                return "immediate-select-left-registration", "a select that returned at once left a live pending registration: F was resumed at tick %d with %s" % (t, v)
            if v in ("cA", "(:give,cA)"):
                return "stale-writer-resumed-by-take", "F blocked on B was resumed at tick %d with %s: a take on the abandoned channel popped F's stale pending-writer entry" % (t, v)
            if v in ("nil", "(:close,cA)") and sc.meta["fire"] in ("close", "giveclose"):
                return "stale-entry-resumed-by-close", "F blocked on B was resumed at tick %d with %s by ev/chan-close of the abandoned channel" % (t, v)
            if v in (":va", "(:take,cA,:va)"):
                return "stale-reader-consumed-item", "item given on the abandoned channel was delivered to F (blocked on B) at tick %d" % t
            if sc.meta.get("abandon") == "error" and ("deadline" in v or "timeout" in v):
                return "timeout-of-failed-call-hit-next-wait", "A failed at once with an error, yet its timeout/deadline stayed armed: F, blocked on B, was cancelled at tick %d with %s" % (t, v)
            if "deadline" in v or "timeout" in v:
                return "stale-timer-fired", "F blocked on B was cancelled at tick %d by an abandoned timeout/deadline (%s)" % (t, v)
            return "resumed-by-stale-registration", "F blocked on B was resumed at tick %d with %s (not B's completion)" % (t, v)
        if i == ib and v == "(:give,cA)" and sc.meta.get("B") == "same":
            return "stale-writer-resumed-by-take", "F's plain (ev/give cA ..) returned (:give cA): the take popped the stale select-writer entry F left on cA, not F's current registration (value of the next wait altered)"
        if i == ib:
            return "wrong-value-from-next-wait", "B completed at tick %d with %s, expected %s at %d" % (t, v, exp[ib][1], exp[ib][0])
        if i == 1 and len(exp) == 4 and sc.meta.get("A") in ("selgive", "seltake") and v.startswith("(:give"):
            return "immediate-select-left-registration", "select give clause completed at tick %d with %s although only abandoned readers were registered on the channel" % (t, v)
        return "resume-list-differs", "resume #%d of F is (%d, %s), expected %s" % (i, t, v, exp[i] if i < len(exp) else None)
    return "missing-resume", "F was resumed only %d times, expected %d (never resumed by %s)" % (len(got), len(exp), exp[len(got)])


def check(sc, res, ticks=True):
    """-> list of (sig, what) problems for one scenario result.  ticks=False (late-wake mode: the loop wakes up late, so ticks
    are not predictable): only the sequence of values each fiber is resumed with is compared."""
    probs = []
    lines, status = res["lines"], res["status"]
    ex = sc.expect
    got = resumes(lines, "F")
    exp = [tuple(x) for x in ex["F"]]
    b_log = ex["b_log"]
    if ([g[:2] for g in got] != exp) if ticks else ([g[1] for g in got] != [e[1] for e in exp]):
        probs.append(classify(sc, got, exp, ticks))
    else:
        fl = logs(lines, "F")
        if ex["a_log"] == "ERR":
            if not str(fl.get("f0", (0, ""))[1]).startswith("(:err,"):
                probs.append(("a-result", "the invalid call A returned %r, expected an error" % (fl.get("f0"),)))
        elif fl.get("f0", (0, None))[1] != ex["a_log"]:
            probs.append(("a-result", "A returned %r expected %r" % (fl.get("f0"), ex["a_log"])))
        if fl.get("f1", (0, None))[1] != b_log:
            probs.append(("b-result", "B returned %r expected %r" % (fl.get("f1"), b_log)))
    for f, want in ex.get("others", {}).items():
        g = [x[:2] for x in resumes(lines, f)]
        if ((g != [tuple(w) for w in want]) if ticks else ([x[1] for x in g] != [w[1] for w in want])) and not probs:
            probs.append(("bystander-resumed", "fiber %s (abandoned its wait at tick 0, blocked elsewhere) resumed %r, expected %r" % (f, g, want)))
    # generation counter as observed: strictly increasing per fiber over executed tasks
    last = {}
    for l in lines:
        m = re.match(r"R (-?\d+) (\S+) sid=(\d+)", l)
        if m:
            f, sid = m.group(2), int(m.group(3))
            if f != "?" and f in last and sid <= last[f]:
                probs.append(("sched-id-not-increasing", "fiber %s executed with sched_id %d after %d" % (f, sid, last[f])))
            last[f] = sid
    ml = logs(lines, "M")
    for lab, val in ex.get("m_final", []):
        if ml.get(lab, (0, None))[1] != val:
            if not probs or probs[0][0] not in ("stale-reader-consumed-item",):
                probs.append(("item-not-available", "after the abandoned wait the offered item is gone: %s = %r expected %r" % (lab, ml.get(lab), val)))
    if status != "ok" and not probs:
        probs.append(("end-" + status, "scenario ended with status %s" % status))
    return probs


def check_resumes(sc, res, ticks=True):
    """generic: exact resume lists for the fibers named in sc.expect['resumes'] (+ items that must still be available)"""
    probs = []
    sig = sc.expect.get("sig")
    ticks = ticks and not sc.expect.get("no_ticks")
    for f, exp in sc.expect.get("resumes", {}).items():
        got = [g[:2] for g in resumes(res["lines"], f)]
        exp = [tuple(e) for e in exp]
        if not ticks:
            got, exp = [g[1] for g in got], [e[1] for e in exp]
        if got != exp:
            probs.append((sig or ("resume-list-differs:" + sc.id),
                          (sc.expect.get("what", "") + " — " if sig else "") + "fiber %s resumed %r, expected %r" % (f, got, exp)))
    ml = logs(res["lines"], "M")
    for lab, val in sc.expect.get("m_final", []):
        if ml.get(lab, (0, None))[1] != val and not probs:
            probs.append((sig or "item-not-available", "after the abandoned wait the offered item is gone: %s = %r expected %r" % (lab, ml.get(lab), val)))
    if res["status"] != "ok" and not probs:
        probs.append(("end-" + res["status"], "scenario %s ended with status %s" % (sc.id, res["status"])))
    return probs


# ---------------------------------------------------------------------------------------------------
# correspondence with the Lean model driver jm_c07
# ---------------------------------------------------------------------------------------------------

def _sort_dumps(lines):
    """state dumps list objects in registration order: sort the lines of each dump block"""
    out, block = [], []
    for l in lines:
        if l.startswith("S ") and not re.match(r"S -?\d+ :", l):
            block.append(l)
            continue
        out += sorted(block)
        block = []
        out.append(l)
    return out + sorted(block)


def canon_impl(res):
    out = []
    for l in res["lines"]:
        m = re.match(r"R (-?\d+) (\S+) sid=(\d+) in=\S+ val=(.*)$", l)
        if m:
            out.append("R %s %s %s %s" % m.groups())
        elif l.startswith("L "):
            out.append(l.rstrip())
        elif re.match(r"S -?\d+ :", l):
            out.append(l)
        elif l.startswith("S  chan") or l.startswith("S  timers") or l.startswith("S  stream"):
            out.append("S " + l[3:].rstrip())
        elif l.startswith("S  fiber"):
            m = re.match(r"S  fiber (\S+) sid=(\d+)", l)
            out.append("S fiber %s sid=%s" % m.groups())
    return _sort_dumps(out)


def parse_model(lines, outs):
    res, cur = {}, None
    for l, o in zip(lines, outs):
        if l.startswith("new "):
            cur = l[4:].strip()
        elif l == "run" and cur is not None:
            res[cur] = _sort_dumps([x.rstrip() for x in o.split("\t") if x])
            cur = None
    return res
