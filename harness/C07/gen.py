"""C07 scenario generator: a fiber F blocks on operation A, the wait is abandoned (cancelled / own timeout or deadline /
satisfied through another select clause / body finished), F then blocks on operation B while other fibers fire, complete
or close A; finally B is completed legitimately with a distinguished value.

A scenario is a small AST (fibers = flat lists of statements over named channels / pipes / processes) from which we emit
  * janet source for harness/C07/evwrap.c (virtual clock, resume log), and
  * protocol lines for the Lean model driver jm_c07 (channels / timers / cancel / deadline fragment),
plus the *expectation* the property text dictates (independent of the model): the exact list of resumes of F.

Statement forms (tuples):
  ("sleep", ms) ("take", c) ("give", c, v) ("select", [("take", c) | ("give", c, v) ...]) ("close", c)
  ("cancel", fiber, msg) ("read", p, n) ("readt", p, n, ms) ("write", p, nbytes, ch) ("writet", p, nbytes, ch, ms)
  ("chunk", p, n) ("closew", p) ("closer", p) ("pwait", k) ("exitproc", k) ("deadline", ms, stmt)
  ("spawn", name, [stmts]) ("dump", tag) ("count", c) ("settle", n)
  ("block", kind, [stmts])   kind = "try" | "defer" | "coro" | "dl:<ms>" (ev/with-deadline around the statements): the statements run inside ONE child fiber of the task that stays
                             suspended across their waits (every single wait is additionally wrapped in its own `try`)
  ("goself",)                (ev/go (fiber/root)): the running task schedules itself;  ("cancel", <own name>, msg) likewise
  ("gather", [(name, [stmts]) ...])   (ev/gather body ...): one sibling task per body (the REAL macro of boot.janet); each body names its
                             task and yields once (ev/sleep 0), so that every later resume of it is logged under its name
  ("fail", msg)              (error msg) outside any try: the task ends with an error
Every waiting statement is logged:  L <tick> <fiber> :<label> <result or (:err msg)>.
"""

WAITS = ("sleep", "take", "give", "select", "read", "readt", "write", "writet", "chunk", "pwait", "twait", "deadline", "raw")


def jv(v):
    return ":" + v


def emit_wait(st):
    k = st[0]
    if k == "sleep":
        return "(ev/sleep %s)" % ms(st[1])
    if k == "take":
        return "(ev/take %s)" % st[1]
    if k == "give":
        return "(ev/give %s %s)" % (st[1], jv(st[2]))
    if k == "select":
        cl = []
        for c in st[1]:
            cl.append(c[1] if c[0] == "take" else "[%s %s]" % (c[1], jv(c[2])))
        return "(ev/select %s)" % " ".join(cl)
    if k == "read":
        return "(ev/read %sr %d)" % (st[1], st[2])
    if k == "readt":
        return "(ev/read %sr %d @\"\" %s)" % (st[1], st[2], ms(st[3]))
    if k == "chunk":
        return "(ev/chunk %sr %d)" % (st[1], st[2])
    if k == "write":
        return "(ev/write %sw (string/repeat \"%s\" %d))" % (st[1], st[3], st[2])
    if k == "writet":
        return "(ev/write %sw (string/repeat \"%s\" %d) %s)" % (st[1], st[3], st[2], ms(st[4]))
    if k == "pwait":
        return "(os/proc-wait %s)" % st[1]
    if k == "twait":
        # a threaded await whose worker blocks on a FIFO until the driver writes to it (checks/C07.py creates the FIFO)
        if st[2] == "shell":
            return '(os/shell "read x < @FIFO:%s@")' % st[1]
        return '(ev/thread (fn [&] (slurp "@FIFO:%s@")))' % st[1]
    if k == "deadline":
        return "(ev/with-deadline %s %s)" % (ms(st[1]), emit_wait(st[2]))
    if k == "raw":
        return st[1]
    raise ValueError(st)


def ms(n):
    # exact decimal for n milliseconds (n may be fractional, given as a string or number)
    from fractions import Fraction
    f = Fraction(str(n)) / 1000
    s = "%.7f" % float(f)
    return s.rstrip("0").rstrip(".") if "." in s else s


class Scenario:
    def __init__(self, sid):
        self.id = sid
        self.chans = {}      # name -> capacity
        self.pipes = []
        self.procs = []
        self.main = []       # statements of M
        self.expect = {}     # oracle expectations
        self.meta = {}
        self.labels = 0
        self.setup = []      # raw janet lines emitted after the object definitions
        self.procflags = {}  # process name -> os/spawn flags (default :p ; :px = raise on non-zero exit status)
        self.thrs = {}       # threaded call name -> "shell" | "thread"

    def chan(self, name, cap=0):
        self.chans[name] = cap
        return name

    def pipe(self, name):
        self.pipes.append(name)
        return name

    def proc(self, name, flags="p"):
        self.procs.append(name)
        self.procflags[name] = flags
        return name

    # ---------------------------------------------------------------- janet
    def emit_stmts(self, stmts, fib, ind="  ", ctr=None):
        out = []
        ctr = ctr if ctr is not None else [0]
        for st in stmts:
            k = st[0]
            if k == "block":
                inner = self.emit_stmts(st[2], fib, ind + "  ", ctr)
                if st[1] == "try":
                    out.append("%s(try (do\n%s)\n%s  ([e] (verif/log :escaped e)))" % (ind, "\n".join(inner), ind))
                elif st[1] == "defer":
                    out.append("%s(defer nil\n%s)" % (ind, "\n".join(inner)))
                elif st[1] == "coro":
                    out.append("%s(resume (coro\n%s))" % (ind, "\n".join(inner)))
                elif st[1].startswith("dl:"):
                    # ev/with-deadline around SEVERAL waits (each wait still has its own try, so the body goes on after a deadline)
                    out.append("%s(ev/with-deadline %s\n%s)" % (ind, ms(st[1][3:]), "\n".join(inner)))
                else:
                    raise ValueError(st)
                continue
            i = ctr[0]
            ctr[0] += 1
            lab = "%s%d" % (fib.lower(), i)
            if k == "gather":
                bodies = []
                for gname, gst in st[1]:
                    bodies.append('%s  (do (verif/name (fiber/root) "%s") (ev/sleep 0)\n%s)' % (
                        ind, gname, "\n".join(self.emit_stmts(gst, gname, ind + "    "))))
                out.append('%s(verif/log :%s (try (ev/gather\n%s) ([e] [:err e])))' % (ind, lab, "\n".join(bodies)))
            elif k == "fail":
                out.append('%s(error "%s")' % (ind, st[1]))
            elif k in WAITS:
                out.append('%s(verif/log :%s (try %s ([e] [:err e])))' % (ind, lab, emit_wait(st)))
            elif k == "close":
                out.append("%s(ev/chan-close %s)" % (ind, st[1]))
            elif k == "cancel":
                out.append('%s(ev/cancel %s "%s")' % (ind, "(fiber/root)" if st[1] == fib else st[1], st[2]))
            elif k == "goself":
                out.append("%s(ev/go (fiber/root))" % ind)
            elif k == "finish":
                out.append('%s(spit "@FIFO:%s@" "x\\n")' % (ind, st[1]))
                out.append("%s(verif/log :settle (verif/settle 1))" % ind)
            elif k == "closew":
                out.append("%s(ev/close %sw)" % (ind, st[1]))
            elif k == "closer":
                out.append("%s(ev/close %sr)" % (ind, st[1]))
            elif k == "exitproc":
                out.append("%s(ev/close (%s :in))" % (ind, st[1]))
                out.append("%s(verif/log :settle (verif/settle 1))" % ind)
            elif k == "spawn":
                if len(st) > 3:
                    # supervised task: the loop pushes [:ok fiber nil] on channel st[3] when it ends
                    out.append('%s(def %s (ev/go (fn []\n%s) nil %s))' % (ind, st[1], "\n".join(self.emit_stmts(st[2], st[1], ind + "  ")), st[3]))
                else:
                    out.append('%s(def %s (ev/spawn\n%s))' % (ind, st[1], "\n".join(self.emit_stmts(st[2], st[1], ind + "  "))))
                out.append('%s(verif/name %s "%s")' % (ind, st[1], st[1]))
            elif k == "dump":
                out.append("%s(verif/dump :%s)" % (ind, st[1]))
            elif k == "count":
                out.append("%s(verif/log :%s (ev/count %s))" % (ind, lab, st[1]))
            else:
                raise ValueError(st)
        return out

    def janet(self):
        out = []
        for c, cap in self.chans.items():
            out.append('(def %s (verif/name (ev/chan %d) "%s"))' % (c, cap, c))
        for p in self.pipes:
            out.append('(def [%sr %sw] (os/pipe))' % (p, p))
            out.append('(verif/name %sr "%sr") (verif/name %sw "%sw")' % (p, p, p, p))
        for k in self.procs:
            out.append('(def %s (os/spawn ["/bin/sh" "-c" "read x; exit 7"] :%s {:in :pipe}))' % (k, self.procflags.get(k, "p")))
        out += self.setup
        out += self.emit_stmts(self.main, "M", "")
        return "\n".join(out)

    # ---------------------------------------------------------------- model protocol
    def model_ok(self):
        """True when the scenario stays inside the fragment the Lean interpreter covers (channels, timers, cancel, deadlines,
        pipe streams and process waits with the kernel's answers as input); not: calls that fail argument validation."""
        def ok(stmts):
            for st in stmts:
                if st[0] in ("settle", "raw", "gather", "fail"):
                    return False
                if st[0] == "deadline" and not ok([st[2]]):
                    return False
                if st[0] in ("spawn", "block") and not ok(st[2]):
                    return False
            return True
        return ok(self.main)

    def model_lines(self, klines=()):
        """One scenario = lines  `new` / `chan <name> <cap>` / `fiber <name> <n>` ... / `run`.
        Statement tokens are prefix-coded, see lean/Driver/C07.lean."""
        fibers = []

        def ms1000(x):
            from fractions import Fraction
            f = Fraction(str(x))
            # the model receives the duration in microseconds (exact), it applies the code's rounding itself
            return int(f * 1000)

        def enc_wait(st):
            k = st[0]
            if k == "sleep":
                return ["sleep", str(ms1000(st[1]))]
            if k == "take":
                return ["take", st[1]]
            if k == "give":
                return ["give", st[1], st[2]]
            if k == "select":
                t = ["select", str(len(st[1]))]
                for c in st[1]:
                    t += ["t", c[1]] if c[0] == "take" else ["g", c[1], c[2]]
                return t
            if k == "deadline":
                return ["deadline", str(ms1000(st[1]))] + enc_wait(st[2])
            if k == "read":
                return ["read", st[1] + "r", str(st[2])]
            if k == "chunk":
                return ["chunk", st[1] + "r", str(st[2])]
            if k == "readt":
                return ["readt", st[1] + "r", str(st[2]), str(ms1000(st[3]))]
            if k == "write":
                return ["write", st[1] + "w", str(st[2])]
            if k == "writet":
                return ["writet", st[1] + "w", str(st[2]), str(ms1000(st[4]))]
            if k == "pwait":
                return ["pwait", st[1]]
            if k == "twait":
                return ["twait", st[1]]
            raise ValueError(st)

        def enc(stmts, name, sup=None):
            toks = []
            enc_into(stmts, name, toks)
            fibers.append((name, toks, sup))

        def enc_into(stmts, name, toks):
            for st in stmts:
                k = st[0]
                if k in WAITS:
                    toks.append(" ".join(["w"] + enc_wait(st)))
                elif k == "close":
                    toks.append("close %s" % st[1])
                elif k == "cancel":
                    toks.append("cancel %s %s" % (st[1], st[2]))
                elif k == "goself":
                    toks.append("goself")
                elif k == "finish":
                    toks.append("finish %s" % st[1])
                elif k == "block":
                    toks.append("enterdl %d" % ms1000(st[1][3:]) if st[1].startswith("dl:") else "enter")
                    sub = []
                    enc_into(st[2], name, sub)
                    toks.extend(sub)
                    toks.append("leave")
                elif k == "spawn":
                    enc(st[2], st[1], st[3] if len(st) > 3 else None)
                    toks.append("spawn %s" % st[1])
                elif k == "dump":
                    toks.append("dump %s" % st[1])
                elif k == "count":
                    toks.append("count %s" % st[1])
                elif k == "closew":
                    toks.append("closestream %sw" % st[1])
                elif k == "closer":
                    toks.append("closestream %sr" % st[1])
                elif k == "exitproc":
                    toks.append("exitproc %s" % st[1])
                else:
                    raise ValueError(st)
        enc(self.main, "M")
        lines = ["new %s" % self.id]
        for c, cap in self.chans.items():
            lines.append("chan %s %d" % (c, cap))
        for p in self.pipes:
            lines.append("stream %sr" % p)
            lines.append("stream %sw" % p)
        for k in self.procs:
            lines.append("proc %s %s" % (k, self.procflags.get(k, "p")))
        for t, kind in self.thrs.items():
            lines.append("thr %s %s" % (t, kind))
        for kl in klines:
            lines.append("k" + kl[1:])
        for name, toks, sup in fibers:
            lines.append("fiber %s %d%s" % (name, len(toks), " " + sup if sup else ""))
            for t in toks:
                lines.append("s " + t)
        lines.append("run")
        return lines


# =====================================================================================================
# The A x B x abandon x fire matrix
# =====================================================================================================

A_KINDS = ["sleep", "take", "give", "seltake", "selgive", "read", "readT", "write", "pwait", "pwaitx", "shell", "thread", "dl"]
# calls that fail early with an error although they carry a timeout / deadline: (name, janet expression)
BAD_CALLS = [
    ("read-neg", '(ev/read pAr -1 @"" 0.015)'), ("read-kw", '(ev/read pAr :bogus @"" 0.015)'), ("read-float", '(ev/read pAr 1.5 @"" 0.015)'),
    ("read-badbuf", '(ev/read pAr 10 :notbuf 0.015)'), ("read-notreadable", '(ev/read pAw 10 @"" 0.015)'),
    ("read-closed", '(ev/read pCr 10 @"" 0.015)'), ("read-method-neg", '(:read pAr -1 @"" 0.015)'),
    ("chunk-neg", '(ev/chunk pAr -1 @"" 0.015)'), ("chunk-closed", '(ev/chunk pCr 10 @"" 0.015)'),
    ("write-badtype", '(ev/write pAw 123 0.015)'), ("write-notwritable", '(ev/write pAr "x" 0.015)'),
    ("write-closed", '(ev/write pCw "x" 0.015)'),
    ("net-read-neg", '(net/read sock -1 @"" 0.015)'), ("net-chunk-neg", '(net/chunk sock -1 @"" 0.015)'),
    ("net-recvfrom-neg", '(net/recv-from sock -1 @"" 0.015)'), ("net-write-bad", '(net/write sock :bad 0.015)'),
    ("net-sendto-badaddr", '(net/send-to sock :bad "x" 0.015)'), ("net-accept-notlistener", '(net/accept sock 0.015)'),
    ("net-read-pipe", '(net/read pAr 10 @"" 0.015)'),
    ("dl-take-notchan", '(ev/with-deadline 0.015 (ev/take :notchan))'), ("dl-give-closed", '(ev/with-deadline 0.015 (ev/give cC :x))'),
    ("dl-sleep-bad", '(ev/with-deadline 0.015 (ev/sleep :x))'), ("dl-pwait-bad", '(ev/with-deadline 0.015 (os/proc-wait :x))'),
    ("dl-select-empty", '(ev/with-deadline 0.015 (ev/select))'), ("dl-error", '(ev/with-deadline 0.015 (error "boom"))'),
    ("dl-read-neg", '(ev/with-deadline 0.015 (ev/read pAr -1))'), ("dl-manual", '(do (ev/deadline 0.015) (error "boom"))'),
    ("dl-select-badclause", '(ev/with-deadline 0.015 (ev/select cC2 [:notchan 1]))'),
]

B_KINDS = ["sleep", "take", "give", "seltake", "selgive", "read", "write", "pwait", "pwaitx", "dl", "dlx", "same"]


def a_variants():
    """(A kind, abandon kind, fire kind) triples."""
    out = []
    for a in A_KINDS:
        abandons = ["cancel", "cancel0", "deadline"]
        if a in ("seltake", "selgive"):
            abandons.append("other")
        if a in ("read", "write"):
            abandons.append("timeout")
        if a == "dl":
            abandons = ["cancel", "bodydone", "expired"]
        if a in ("shell", "thread"):
            abandons = ["cancel", "deadline"]
        if a == "sleep":
            abandons = ["cancel", "cancel0", "deadline"]
        if a == "readT":
            abandons = ["cancel", "cancel0"]
        fires = {
            "sleep": ["pass"],
            "take": ["give", "close", "giveclose"],
            "give": ["take", "close"],
            "seltake": ["give", "close", "giveclose"],
            "selgive": ["take", "close"],
            "read": ["write", "closew", "closer"],
            "readT": ["write", "pass"],
            "write": ["drain", "closer", "closew"],
            "pwait": ["exit"],
            "pwaitx": ["exit"],
            "shell": ["finish"], "thread": ["finish"],
            "dl": ["pass"],
        }[a]
        if a in ("seltake", "selgive"):
            abandons.append("immediate")       # the select completes at once through the other clause: nothing may stay registered
        if a in ("sleep", "take", "give", "seltake", "selgive", "read", "write", "pwait", "pwaitx"):
            # F is one body of an (ev/gather ...): abandoned by the macro's sibling cancellation (another body fails) resp. by its
            # `defer` when the parent task itself is cancelled while it waits for the bodies
            abandons += ["gsib", "gpar"]
        for ab in abandons:
            for fi in fires:
                out.append((a, ab, fi))
    for name, _ in BAD_CALLS:
        out.append(("bad:" + name, "error", "pass"))
    return out


def build(sid, a, ab, fi, b, extra=None):
    """Timeline (virtual ms): 0 F starts A | 10 abandon | F starts B | 20 (and 25) fire A | 30 check | 40 complete B |
    (50: B=sleep wakes, 60: B=dlx expires) | 70 final checks."""
    extra = extra or {}
    s = Scenario(sid)
    s.meta = {"A": a, "abandon": ab, "fire": fi, "B": b}
    F = []
    M = []
    t_ab = 10
    # ------------------------------------------------------------------ A
    capA = extra.get("capA")
    if a == "sleep":
        A = ("sleep", 15)
    elif a == "take":
        s.chan("cA", 1 if capA is None else capA)
        A = ("take", "cA")
    elif a == "give":
        s.chan("cA", 0 if capA is None else capA)
        for i in range(s.chans["cA"]):
            M.append(("give", "cA", "fill%d" % i))
        A = ("give", "cA", "xa")
    elif a == "seltake":
        s.chan("cA", 1)
        s.chan("cX", 1)
        A = ("select", [("take", "cA"), ("take", "cX")])
    elif a == "selgive":
        s.chan("cA", 0)
        s.chan("cX", 1)
        A = ("select", [("give", "cA", "xa"), ("take", "cX")])
    elif a == "read":
        s.pipe("pA")
        A = ("read", "pA", 10)
    elif a == "readT":
        # read with its own 15 ms timeout, abandoned earlier: the timeout timer (is_error) goes stale
        s.pipe("pA")
        A = ("readt", "pA", 10, 15)
    elif a == "write":
        s.pipe("pA")
        A = ("write", "pA", 70000, "a")
    elif a == "pwait":
        s.proc("kA")
        A = ("pwait", "kA")
    elif a == "pwaitx":
        # the process was spawned with :x — its non-zero exit status is delivered as an ERROR (janet_cancel branch of the callback)
        s.proc("kA", "px")
        A = ("pwait", "kA")
    elif a in ("shell", "thread"):
        # os/shell resp. ev/thread: janet_ev_threaded_await; the worker finishes when the driver writes to its FIFO
        s.thrs["tA"] = a
        A = ("twait", "tA", a)
    elif a == "dl":
        s.chan("cZ", 1)
        A = ("deadline", 15, ("take", "cZ"))
    elif a.startswith("bad:"):
        if b == "same":
            return None
        s.pipe("pA")
        s.pipe("pC")
        s.chan("cC", 0)
        s.chan("cC2", 0)
        s.setup += ["(ev/close pCr) (ev/close pCw) (ev/chan-close cC)",
                    '(def sock (net/listen "127.0.0.1" "0" :datagram))']
        A = ("raw", dict(BAD_CALLS)[a[4:]])
    # abandon
    a_res = None
    if ab == "deadline":
        A = ("deadline", 10, A)
        a_res = '(:err,"deadline_expired")'
    elif ab == "timeout":
        A = ("readt", "pA", 10, 10) if a == "read" else ("writet", "pA", 70000, "a", 10)
        a_res = '(:err,"timeout")'
    F.append(A)
    # ------------------------------------------------------------------ B
    b_val = None
    t_b = 40
    if b == "sleep":
        B = ("sleep", 40)
        b_val, t_b = "nil", None      # t_b = start of B + 40, filled below
    elif b == "take":
        s.chan("cB", 0)
        B = ("take", "cB")
        b_val = ":vb"
    elif b == "give":
        s.chan("cB", 0)
        B = ("give", "cB", "xb")
        b_val = "cB"
    elif b == "seltake":
        s.chan("cB", 0)
        s.chan("cY", 0)
        B = ("select", [("take", "cY"), ("take", "cB")])
        b_val = "(:take,cB,:vb)"
    elif b == "selgive":
        s.chan("cB", 0)
        s.chan("cY", 0)
        B = ("select", [("take", "cY"), ("give", "cB", "xb")])
        b_val = "(:give,cB)"
    elif b == "read":
        s.pipe("pB")
        B = ("read", "pB", 10)
        b_val = '@"BBBB"'
    elif b == "write":
        s.pipe("pB")
        B = ("write", "pB", 70000, "b")
        b_val = "nil"
    elif b == "pwait":
        s.proc("kB")
        B = ("pwait", "kB")
        b_val = "7"
    elif b == "pwaitx":
        s.proc("kB", "px")
        B = ("pwait", "kB")
        b_val = '(:err,"command_failed_with_non-zero_exit_code_7")'
    elif b == "dl":
        s.chan("cB", 0)
        B = ("deadline", 50, ("take", "cB"))
        b_val = ":vb"
    elif b == "dlx":
        s.chan("cB", 0)
        B = ("deadline", 50, ("take", "cB"))
        b_val, t_b = '(:err,"deadline_expired")', None
    elif b == "same":
        # B waits again on A's own object: the stale registration sits in front of the live one
        if a in ("take", "seltake", "dl"):
            c = "cZ" if a == "dl" else "cA"
            B = ("take", c)
            b_val = ":vb"
        elif a in ("give", "selgive"):
            B = ("give", "cA", "xb")
            b_val = "cA"
        elif a in ("read", "readT"):
            B = ("read", "pA", 10)
            b_val = '@"BBBB"'
        elif a == "sleep":
            B = ("sleep", 40)
            b_val, t_b = "nil", None
        else:
            return None
    F.append(B)
    F.append(("sleep", 0))         # a third, trivial wait: F must get through it undisturbed
    # nest: all of F's waits happen inside one (or two) child fibers of the task that stay suspended across the waits — the task
    # itself (the root fiber, on which every registration is made) is then never the fiber that executes the next instruction
    nest = extra.get("nest", "")
    for kind in reversed([k for k in nest.split("+") if k]):
        F = [("block", kind, F)]
    s.meta["nest"] = nest or "none"
    # ------------------------------------------------------------------ driver M
    # shadow sleeper Z: a LIVE timer just before the stale ones (tick 15).  In late-wake mode (loop wakes 2 ms late) Z's timer
    # and the stale timer expire in the same timer phase, so the stale one is judged there and not dropped by the poll phase
    M.append(("spawn", "Z", [("sleep", 14)]))
    if ab == "immediate":
        M.append(("give", "cX", "vx"))      # cX has capacity 1: the other clause is ready before F starts
    if ab in ("gsib", "gpar"):
        E = [("sleep", 10), ("fail", "boom")] if ab == "gsib" else [("sleep", 200)]
        M.append(("spawn", "P", [("gather", [("F", F), ("E", E)])]))
    else:
        M.append(("spawn", "F", F))
    if ab in ("immediate", "error"):
        # F never suspends in A: it is in B from tick 0 on
        a_res = "(:take,cX,:vx)" if ab == "immediate" else "ERR"
        t_ab = 0
        M.append(("sleep", 10))
    elif ab == "cancel0":
        # cancellation point: immediately after F registered, same tick, no timer involved
        M.append(("sleep", 0))
        M.append(("cancel", "F", "stop"))
        a_res = '(:err,"stop")'
        t_ab = 0
        M.append(("sleep", 10))
    else:
        M.append(("sleep", 10))
        if ab == "cancel":
            M.append(("cancel", "F", "stop"))
            a_res = '(:err,"stop")'
        elif ab == "other":
            M.append(("give", "cX", "vx"))
            a_res = "(:take,cX,:vx)"
        elif ab == "bodydone":
            M.append(("give", "cZ", "vz"))
            a_res = ":vz"
        elif ab == "expired":
            a_res = '(:err,"deadline_expired")'
            t_ab = 15
        elif ab == "gsib":
            a_res = '(:err,"sibling_canceled")'       # body E failed at tick 10: wait-for-fibers runs cancel-all
        elif ab == "gpar":
            M.append(("cancel", "P", "stop"))         # the parent is cancelled inside wait-for-fibers: its defer runs cancel-all
            a_res = '(:err,"parent_canceled")'
    M.append(("sleep", 10))        # t = 20
    M.append(("dump", "prefire"))
    item_left = None               # (channel, item) that must still be available at the end
    same = (b == "same")
    if fi == "give":
        if not same:
            M.append(("give", "cA", "va"))
            item_left = ("cA", ":va")
    elif fi == "giveclose":
        if not same:
            M.append(("give", "cA", "va"))
            M.append(("sleep", 5))
            M.append(("close", "cA"))
    elif fi == "close":
        if not same:
            M.append(("close", "cA"))
    elif fi == "take":
        # the abandoned give left its item in the channel (janet buffers first, then blocks); taking it pops the stale writer
        if not same:
            M.append(("spawn", "H", [("deadline", 3, ("take", "cA"))]))
    elif fi == "write":
        if not same:
            M.append(("write", "pA", 4, "A"))
            item_left = ("pA", '@"AAAA"')
    elif fi == "closew":
        if not same or a != "read":
            M.append(("closew", "pA"))
    elif fi == "closer":
        if not same or a != "read":
            M.append(("closer", "pA"))
    elif fi == "drain":
        M.append(("spawn", "H", [("deadline", 3, ("chunk", "pA", 70000))]))
    elif fi == "exit":
        M.append(("exitproc", "kA"))
    elif fi == "finish":
        M.append(("finish", "tA"))
    elif fi == "pass":
        pass
    M.append(("sleep", 10))        # t = 30 (35)
    M.append(("dump", "postfire"))
    M.append(("sleep", 40 - (35 if fi == "giveclose" and not same else 30)))   # t = 40
    # complete B
    if b in ("take", "dl", "seltake"):
        M.append(("give", "cB", "vb"))
    elif b in ("give", "selgive"):
        M.append(("take", "cB"))
    elif b == "read":
        M.append(("write", "pB", 4, "B"))
    elif b == "write":
        M.append(("spawn", "HB", [("chunk", "pB", 70000)]))
    elif b in ("pwait", "pwaitx"):
        M.append(("exitproc", "kB"))
    elif b == "same":
        if a in ("take", "seltake", "dl"):
            M.append(("give", "cZ" if a == "dl" else "cA", "vb"))
        elif a in ("give", "selgive"):
            # two items are queued (abandoned :xa, live :xb); the live writer is released by the take that brings
            # the count back to the limit... janet releases the FIRST pending writer on ANY take.
            M.append(("take", "cA"))
        elif a in ("read", "readT"):
            M.append(("write", "pA", 4, "B"))
    M.append(("sleep", 30))        # t = 70
    M.append(("dump", "final"))
    m_final = []
    if item_left and item_left[0].startswith("c"):
        m_final.append(("m%d" % len(M), "1"))
        M.append(("count", item_left[0]))
        m_final.append(("m%d" % len(M), item_left[1]))
        M.append(("take", item_left[0]))
    elif item_left:
        m_final.append(("m%d" % len(M), item_left[1]))
        M.append(("read", item_left[0], 10))
    # ------------------------------------------------------------------ dirt: stale registrations of other fibers on every channel
    dirt = extra.get("dirt", "")
    pre, post, others = dirt_prelude(s, dirt, F)
    s.main = pre + M + post
    m_final = [("m%d" % (int(l[1:]) + len(pre)), v) for l, v in m_final]
    s.meta["dirt"] = dirt or "none"
    # ------------------------------------------------------------------ expectation (from the property text)
    t_bstart = t_ab
    if t_b is None:
        t_b = t_bstart + (40 if b in ("sleep", "same") else 50)
    if same and a in ("give", "selgive"):
        b_val = "cA"
    s.expect = {
        # exact resumes of F: (tick, value repr) ; first one is the spawn
        "F": ([(0, "nil"), (t_ab, a_res_r(a_res)), (t_b, b_res_r(b_val)), (t_b, "nil")] if ab not in ("immediate", "error")
              else [(0, "nil"), (t_b, b_res_r(b_val)), (t_b, "nil")]),
        "others": others,
        "a_log": a_res, "b_log": b_val,
        "item_left": item_left, "m_final": m_final,
        "t_b": t_b, "t_ab": t_ab,
    }
    return s


def dirt_prelude(s, dirt, F):
    """dirt = "" | "r<k>" | "w<j>r<k>": before anything else, k fibers leave an abandoned READER registration on every channel
    (alternately a cancelled plain take and a select satisfied through another clause) and j fibers an abandoned WRITER
    registration (plus their junk item) on every unbuffered channel F gives on.  The abandoning fibers stay alive, blocked on
    cQ, until the very end; none of them may be resumed in between."""
    import re
    m = re.match(r"(?:w(\d))?(?:r(\d))?$", dirt)
    nw, nr = int(m.group(1) or 0), int(m.group(2) or 0)
    if not nw and not nr:
        return [], [], {}
    chans = [c for c in s.chans if c not in ("cC", "cC2")]
    gives = set()
    for st in F:
        w = st
        while w[0] == "deadline":
            w = w[2]
        if w[0] == "give":
            gives.add(w[1])
        if w[0] == "select":
            gives |= set(c[1] for c in w[1] if c[0] == "give")
    s.chan("cQ", 0)
    s.chan("cP", 8)
    pre, cancels, others = [], [], {}
    n = 0
    nsel = 0
    for c in chans:
        wdirt = nw and c in gives and s.chans[c] == 0
        # (a give discards the stale readers it skips, so junk items and stale readers cannot coexist on one channel)
        for i in range(0 if wdirt else nr):
            name = "P%d" % n
            n += 1
            if i % 2 == 0:
                pre.append(("spawn", name, [("take", c), ("take", "cQ")]))
                cancels.append(("cancel", name, "p"))
                others[name] = [(0, "nil"), (0, '"p"'), (70, "nil")]
            else:
                pre.append(("spawn", name, [("select", [("take", c), ("take", "cP")]), ("take", "cQ")]))
                nsel += 1
                others[name] = [(0, "nil"), (0, "(:take,cP,:pp)"), (70, "nil")]
        if wdirt:
            for i in range(nw):
                name = "P%d" % n
                n += 1
                pre.append(("spawn", name, [("give", c, "junk"), ("take", "cQ")]))
                cancels.append(("cancel", name, "p"))
                others[name] = [(0, "nil"), (0, '"p"'), (70, "nil")]
    pre.append(("sleep", 0))
    pre += cancels
    pre += [("give", "cP", "pp")] * nsel
    pre.append(("sleep", 0))
    pre.append(("dump", "dirty"))
    post = [("close", "cQ"), ("sleep", 0)]
    return pre, post, others


def a_res_r(a_res):
    """value carried by the resume (an error resume carries the bare message)"""
    if a_res.startswith("(:err,"):
        return a_res[len("(:err,"):-1]
    return a_res


b_res_r = a_res_r


DIRTS = ["", "r1", "r3", "w2r2"]
NESTS = ["try", "defer+try", "coro"]
STREAMY = ("read", "readT", "write")


def matrix(dirts=DIRTS):
    out = []
    n = 0
    for (a, ab, fi) in a_variants():
        for b in B_KINDS:
            for d in dirts:
                if d and not a.startswith("bad:") and not any(k in (a, b) for k in ("take", "give", "seltake", "selgive", "dl", "dlx", "same")):
                    continue        # no channel in the scenario: dirt would change nothing
                if d and ab in ("gsib", "gpar"):
                    continue
                sc = build("m%04d-%s-%s-%s-%s%s" % (n, a.replace(":", "_"), ab, fi, b, "-" + d if d else ""), a, ab, fi, b, {"dirt": d})
                if sc is None:
                    continue
                n += 1
                out.append(sc)
                if d or ab in ("gsib", "gpar"):
                    continue
                # the same program with F's body inside child fibers; two levels / coro only where a stream is involved
                for ns in NESTS:
                    if ns != "try" and not (a in STREAMY or b in ("read", "write") or a.startswith("pwait") or b.startswith("pwait")):
                        continue
                    if a.startswith("bad:") and ns != "try":
                        continue
                    sc = build("m%04d-%s-%s-%s-%s-n%s" % (n, a.replace(":", "_"), ab, fi, b, ns.replace("+", "_")), a, ab, fi, b, {"nest": ns})
                    n += 1
                    out.append(sc)
    return out


# =====================================================================================================
# ev/sleep never returns early (virtual clock, the code's own millisecond ticks)
# =====================================================================================================

def c_round_ms(lit):
    """round(delta * 1000) as ts_delta computes it, in IEEE doubles (round half away from zero, delta >= 0)."""
    import math
    x = float(lit) * 1000.0
    r = math.floor(x)
    if x - r >= 0.5:
        r += 1
    return int(r)


SLEEP_LITS = ["0", "0.0004", "0.0005", "0.0006", "0.001", "0.0014", "0.0015", "0.0016", "0.0025", "0.0035", "0.00349999",
              "0.0075", "0.0105", "0.0295", "0.0995", "1.0005", "0.0009999", "0.25", "0.0625", "0.0045", "0.0055", "0.0115"]


def sleep_scenario(sid, rng, nfib=4, nsl=5):
    """several fibers sleep concurrently (stirs the timer heap); each logs (literal, start tick, end tick)"""
    out = []
    exp = []
    for f in range(nfib):
        body = []
        for i in range(nsl):
            if rng.chance(1, 2):
                lit = rng.choice(SLEEP_LITS)
            else:
                lit = "%.7f" % (rng.below(40000) / 1e6 + rng.below(2) * 0.0005)
            body.append('(def t0 (verif/now)) (ev/sleep %s) (verif/log :sl ["%s" t0 (verif/now)])' % (lit, lit))
        out.append('(verif/name (ev/spawn (do %s)) "S%d")' % ("\n  ".join("(do %s)" % b for b in body), f))
    return sid, "\n".join(out)


def check_sleep(lines):
    """-> (n checked, [problem strings])"""
    import re
    n, bad = 0, []
    for l in lines:
        m = re.match(r'L (-?\d+) (\S+) :sl \("([^"]+)",(-?\d+),(-?\d+)\)', l)
        if m:
            n += 1
            lit, t0, t1 = m.group(3), int(m.group(4)), int(m.group(5))
            need = c_round_ms(lit)
            if t1 - t0 < need:
                bad.append("(ev/sleep %s) started at tick %d returned at tick %d: %d ms < round(1000*d) = %d" % (lit, t0, t1, t1 - t0, need))
    return n, bad


# =====================================================================================================
# deadline scope: cancels only the task it guards; no effect once the body finished
# =====================================================================================================

def deadline_scenarios():
    out = []
    # D1: F's deadline expires while G and H wait on other things: only F is cancelled
    s = Scenario("d1-only-guarded-task")
    s.chan("cF"); s.chan("cG"); s.chan("cH")
    s.main = [("spawn", "F", [("deadline", 10, ("take", "cF")), ("take", "cF")]),
              ("spawn", "G", [("take", "cG")]),
              ("spawn", "H", [("deadline", 30, ("take", "cH"))]),
              ("sleep", 20), ("dump", "after"), ("give", "cG", "vg"), ("give", "cF", "vf"), ("sleep", 20), ("dump", "final")]
    s.expect = {"resumes": {"F": [(0, "nil"), (10, '"deadline_expired"'), (20, ":vf")], "G": [(0, "nil"), (20, ":vg")],
                            "H": [(0, "nil"), (30, '"deadline_expired"')]}}
    out.append(s)
    # D2: body finished early; the deadline timer later finds F in three different later waits: no effect
    s = Scenario("d2-inert-after-body")
    s.chan("cF", 1); s.chan("cB")
    s.main = [("give", "cF", "v0"),
              ("spawn", "F", [("deadline", 10, ("take", "cF")), ("sleep", 15), ("deadline", 30, ("take", "cB")), ("sleep", 0)]),
              ("sleep", 20), ("dump", "mid"), ("give", "cB", "vb"), ("sleep", 40)]
    s.expect = {"resumes": {"F": [(0, "nil"), (0, ":v0"), (15, "nil"), (20, ":vb"), (20, "nil")]}}
    out.append(s)
    # D3: nested deadlines: inner expires first, outer body goes on and completes; outer timer inert afterwards
    s = Scenario("d3-nested")
    s.chan("cF"); s.chan("cB")
    s.main = [("spawn", "F", [("deadline", 30, ("deadline", 10, ("take", "cF"))), ("take", "cB"), ("sleep", 0)]),
              ("sleep", 50), ("give", "cB", "vb"), ("sleep", 10)]
    s.expect = {"resumes": {"F": [(0, "nil"), (10, '"deadline_expired"'), (50, ":vb"), (50, "nil")]}}
    out.append(s)
    # D4: the guarded fiber is cancelled by someone else first; its deadline must not hit its next wait
    s = Scenario("d4-cancelled-before-deadline")
    s.chan("cF"); s.chan("cB")
    s.main = [("spawn", "F", [("deadline", 10, ("take", "cF")), ("take", "cB"), ("sleep", 0)]),
              ("sleep", 5), ("cancel", "F", "stop"), ("sleep", 15), ("dump", "after"), ("give", "cB", "vb"), ("sleep", 10)]
    s.expect = {"resumes": {"F": [(0, "nil"), (5, '"stop"'), (20, ":vb"), (20, "nil")]}}
    out.append(s)
    # D6: completion and cancellation of the same wait in one scheduler round: the first task is superseded (run-queue filter),
    #     the fiber is resumed once, by the cancellation, and its next wait is undisturbed
    s = Scenario("d6-complete-then-cancel-same-round")
    s.chan("cF"); s.chan("cB")
    s.main = [("spawn", "F", [("take", "cF"), ("take", "cB"), ("sleep", 0)]),
              ("sleep", 10), ("give", "cF", "v1"), ("cancel", "F", "stop"), ("sleep", 10), ("dump", "mid"),
              ("deadline", 5, ("give", "cB", "vb")), ("sleep", 10)]
    s.expect = {"resumes": {"F": [(0, "nil"), (10, '"stop"'), (20, ":vb"), (20, "nil")]}}
    out.append(s)
    # D7: a sleeping fiber is cancelled and re-sleeps; its first (stale) timer expires in the same timer phase as a live one
    s = Scenario("d7-stale-timer-behind-live-timer")
    s.main = [("spawn", "Z", [("sleep", 15)]),
              ("spawn", "F", [("sleep", 15), ("sleep", 30), ("sleep", 0)]),
              ("sleep", 10), ("cancel", "F", "stop"), ("sleep", 50)]
    s.expect = {"resumes": {"F": [(0, "nil"), (10, '"stop"'), (40, "nil"), (40, "nil")], "Z": [(0, "nil"), (15, "nil")]}}
    out.append(s)
    # D8: with-deadline BLOCKS, nested; the inner one expires first, the outer body goes on and finishes in time
    s = Scenario("d8-nested-blocks-inner-first")
    s.chan("cF"); s.chan("cB")
    s.main = [("spawn", "F", [("block", "dl:30", [("block", "dl:10", [("take", "cF")]), ("take", "cB")]), ("sleep", 0), ("sleep", 25)]),
              ("sleep", 15), ("dump", "mid"), ("sleep", 5), ("give", "cB", "vb"), ("sleep", 40), ("dump", "final")]
    s.expect = {"resumes": {"F": [(0, "nil"), (10, '"deadline_expired"'), (20, ":vb"), (20, "nil"), (45, "nil")]}}
    out.append(s)
    # D9: the OUTER block expires first: the error reaches the innermost wait, whose try catches it; the inner deadline still guards
    #     the inner body and expires later; nothing else is touched
    s = Scenario("d9-nested-blocks-outer-first")
    s.chan("cF"); s.chan("cG"); s.chan("cH")
    s.main = [("spawn", "G", [("take", "cH")]),
              ("spawn", "F", [("block", "dl:10", [("block", "dl:30", [("take", "cF"), ("take", "cG")])]), ("sleep", 0)]),
              ("sleep", 20), ("dump", "mid"), ("sleep", 30), ("give", "cH", "vh"), ("sleep", 10), ("dump", "final")]
    s.expect = {"resumes": {"F": [(0, "nil"), (10, '"deadline_expired"'), (30, '"deadline_expired"'), (30, "nil")],
                            "G": [(0, "nil"), (50, ":vh")]}}
    out.append(s)
    # D10: the inner body finishes early; its deadline later finds the task in other waits of the outer body: no effect
    s = Scenario("d10-finished-inner-block")
    s.chan("cF", 1); s.chan("cB")
    s.main = [("give", "cF", "v0"),
              ("spawn", "F", [("block", "dl:40", [("block", "dl:10", [("take", "cF")]), ("sleep", 15), ("take", "cB")]), ("sleep", 0), ("sleep", 30)]),
              ("sleep", 12), ("dump", "mid"), ("sleep", 18), ("give", "cB", "vb"), ("sleep", 50), ("dump", "final")]
    s.expect = {"resumes": {"F": [(0, "nil"), (0, ":v0"), (15, "nil"), (30, ":vb"), (30, "nil"), (60, "nil")]}}
    out.append(s)
    # D11: the task is cancelled inside two nested blocks; both deadlines expire while the (surviving) bodies wait elsewhere
    s = Scenario("d11-cancel-inside-nested-blocks")
    s.chan("cF"); s.chan("cB")
    s.main = [("spawn", "F", [("block", "dl:30", [("block", "dl:20", [("take", "cF"), ("sleep", 5)]), ("take", "cB")]), ("sleep", 0)]),
              ("sleep", 5), ("cancel", "F", "stop"), ("sleep", 40), ("dump", "final")]
    s.expect = {"resumes": {"F": [(0, "nil"), (5, '"stop"'), (10, "nil"), (30, '"deadline_expired"'), (30, "nil")]}}
    out.append(s)
    # S1-S3: supervisor channel (ev/go f v chan): the event the loop pushes when the supervised task ends is an item on a channel
    for sid, ab in (("s1-supervisor-event-abandoned-take", "cancel"), ("s2-supervisor-event-select-elsewhere", "other"),
                    ("s3-supervisor-event-live-reader", "live")):
        s = Scenario(sid)
        s.chan("cS", 0); s.chan("cB", 0); s.chan("cX", 1)
        A = ("select", [("take", "cS"), ("take", "cX")]) if ab == "other" else ("take", "cS")
        F = [A, ("take", "cB"), ("sleep", 0)] if ab != "live" else [A, ("sleep", 0)]
        M = [("spawn", "F", F), ("sleep", 3)]
        if ab == "cancel":
            M.append(("cancel", "F", "stop"))
        elif ab == "other":
            M.append(("give", "cX", "vx"))
        M += [("spawn", "G", [("sleep", 7)], "cS"), ("sleep", 17), ("dump", "after-end"), ("count", "cS")]
        if ab != "live":
            M += [("take", "cS"), ("give", "cB", "vb"), ("sleep", 10), ("dump", "final")]
            first = '"stop"' if ab == "cancel" else "(:take,cX,:vx)"
            s.expect = {"resumes": {"F": [(0, "nil"), (3, first), (20, ":vb"), (20, "nil")], "G": [(3, "nil"), (10, "nil")]},
                        "m_final": [("m%d" % (len(M) - 5), "1"), ("m%d" % (len(M) - 4), "(:ok,G,nil)")],
                        "sig": "supervisor-event-consumed-by-absent-waiter",
                        "what": "a supervised task ended while the only reader registered on its supervisor channel had left (%s)" % ab}
        else:
            M += [("sleep", 10), ("dump", "final")]
            s.expect = {"resumes": {"F": [(0, "nil"), (10, "(:ok,G,nil)"), (10, "nil")], "G": [(3, "nil"), (10, "nil")]},
                        "m_final": [("m%d" % (len(M) - 3), "0")]}
        s.main = M
        out.append(s)
    # D5: two fibers with deadlines on the same channel; the earlier deadline cancels only its own fiber
    s = Scenario("d5-two-deadlines")
    s.chan("c")
    s.main = [("spawn", "F", [("deadline", 10, ("take", "c"))]),
              ("spawn", "G", [("deadline", 30, ("take", "c"))]),
              ("sleep", 20), ("give", "c", "v1"), ("sleep", 20)]
    s.expect = {"resumes": {"F": [(0, "nil"), (10, '"deadline_expired"')], "G": [(0, "nil"), (20, ":v1")]}}
    out.append(s)
    return out


# =====================================================================================================
# corpus: a task that is scheduled while it is still running (ev/cancel / ev/go on itself) — the schedule aborts the NEXT wait;
# that wait's registration must be stale afterwards (finding: patches/fix-C07-resume-bumps-generation.diff)
# =====================================================================================================

def corpus_scenarios():
    out = net_scenarios()
    for how in ("cancel", "go"):
        for a in ("take", "give", "seltake", "sleep", "pwait", "read"):
            for b in ("take", "sleep"):
                s = Scenario("c-self%s-%s-%s" % (how, a, b))
                s.meta = {"A": a, "B": b, "abandon": "self-" + how, "fire": "late", "dirt": "none", "nest": "none"}
                s.chan("cB", 0)
                fire, item = [], None
                if a == "take":
                    s.chan("cA", 1); A = ("take", "cA"); fire = [("give", "cA", "va")]; item = ("cA", ":va")
                elif a == "give":
                    s.chan("cA", 0); A = ("give", "cA", "xa"); fire = [("spawn", "H", [("deadline", 3, ("take", "cA"))])]
                elif a == "seltake":
                    s.chan("cA", 1); s.chan("cX", 1); A = ("select", [("take", "cA"), ("take", "cX")]); fire = [("give", "cA", "va")]; item = ("cA", ":va")
                elif a == "sleep":
                    A = ("sleep", 15)
                elif a == "pwait":
                    s.proc("kA"); A = ("pwait", "kA"); fire = [("exitproc", "kA")]
                elif a == "read":
                    s.pipe("pA"); A = ("read", "pA", 10); fire = [("write", "pA", 4, "A")]; item = ("pA", '@"AAAA"')
                B = ("take", "cB") if b == "take" else ("sleep", 40)
                self_sched = ("cancel", "F", "self") if how == "cancel" else ("goself",)
                F = [self_sched, A, B, ("sleep", 0)]
                M = [("spawn", "Z", [("sleep", 14)]), ("spawn", "F", F), ("sleep", 10), ("dump", "prefire")] + fire + \
                    [("sleep", 10), ("dump", "postfire"), ("sleep", 20)]
                if b == "take":
                    M.append(("give", "cB", "vb"))
                M += [("sleep", 30), ("dump", "final")]
                m_final = []
                if item and item[0].startswith("c"):
                    m_final.append(("m%d" % len(M), "1")); M.append(("count", item[0]))
                    m_final.append(("m%d" % len(M), item[1])); M.append(("take", item[0]))
                elif item:
                    m_final.append(("m%d" % len(M), item[1])); M.append(("read", item[0], 10))
                s.main = M
                a_val = '"self"' if how == "cancel" else "nil"
                s.expect = {"resumes": {"F": [(0, "nil"), (0, a_val), (40, ":vb" if b == "take" else "nil"), (40, "nil")]},
                            "m_final": m_final,
                            "sig": "self-scheduled-wait-left-live-registration",
                            "what": "F scheduled itself (ev/%s on the running task), which aborts its next wait A=%s; the registration of "
                                    "that aborted wait must be stale, yet later activity on A reached F in its next wait B=%s" % (how, a, b)}
                out.append(s)
    return out


def net_scenarios():
    """net/accept with a timeout (janet_addtimeout + listener on the server socket), abandoned by its timeout / by ev/cancel; a client
    connects afterwards while F is blocked elsewhere.  The connection must stay in the backlog for the NEXT accept, F must not be
    resumed.  Oracle only (real sockets; the connect completes through the kernel, so only the VALUES of the resumes are compared)."""
    out = []
    for ab in ("timeout", "cancel"):
        for b in ("take", "sleep"):
            s = Scenario("n-accept-%s-%s" % (ab, b))
            s.meta = {"A": "accept", "B": b, "abandon": ab, "fire": "connect", "dirt": "none", "nest": "none"}
            s.chan("cB", 0)
            s.setup = ['(def pSv (verif/name (net/listen "127.0.0.1" "0") "pSv"))', "(def port (string ((net/localname pSv) 1)))"]
            A = ("raw", "(net/accept pSv 0.01)" if ab == "timeout" else "(net/accept pSv)")
            B = ("take", "cB") if b == "take" else ("sleep", 40)
            M = [("spawn", "F", [A, B, ("sleep", 0)]), ("sleep", 5)]
            if ab == "cancel":
                M.append(("cancel", "F", "stop"))
            M += [("sleep", 15), ("dump", "prefire"),
                  ("raw", '(do (def cli (net/connect "127.0.0.1" port)) :connected)'), ("sleep", 10), ("dump", "postfire")]
            if b == "take":
                M.append(("give", "cB", "vb"))
            M += [("sleep", 40), ("raw", "(type (net/accept pSv 0.05))"), ("dump", "final")]
            s.main = M
            s.expect = {"resumes": {"F": [(0, "nil"), (10, '"timeout"' if ab == "timeout" else '"stop"'),
                                          (40, ":vb" if b == "take" else "nil"), (40, "nil")]},
                        "no_ticks": True,
                        "m_final": [("m%d" % (len(M) - 2), ":core/stream")],
                        "sig": "abandoned-accept-consumed-connection",
                        "what": "net/accept with timeout was abandoned (%s); a client connected while F was blocked on B=%s" % (ab, b)}
            out.append(s)
    # net/connect whose handshake cannot complete (the listener's accept queue is full, the kernel drops the SYN): the connect stays
    # pending whatever else happens — in particular a garbage collection (gc clock mode: the collector's MARK visit of
    # net_callback_connect at every poll) — until it is abandoned; afterwards F is resumed by B only
    for ab in ("cancel", "deadline"):
        for b in ("take", "sleep"):
            s = Scenario("n-connect-%s-%s" % (ab, b))
            s.meta = {"A": "connect", "B": b, "abandon": ab, "fire": "pass", "dirt": "none", "nest": "none"}
            s.chan("cB", 0)
            s.setup = ["(def port (string (verif/stall-listener)))"]
            A = ("raw", '(net/connect "127.0.0.1" port)')
            if ab == "deadline":
                A = ("deadline", 10, A)
            B = ("take", "cB") if b == "take" else ("sleep", 40)
            M = [("spawn", "F", [A, B, ("sleep", 0)]), ("sleep", 10)]
            if ab == "cancel":
                M.append(("cancel", "F", "stop"))
            M += [("sleep", 10), ("dump", "prefire"), ("sleep", 10), ("dump", "postfire"), ("sleep", 10)]
            if b == "take":
                M.append(("give", "cB", "vb"))
            M += [("sleep", 30), ("dump", "final")]
            s.main = M
            s.expect = {"resumes": {"F": [(0, "nil"), (10, '"stop"' if ab == "cancel" else '"deadline_expired"'),
                                          (40 if b == "take" else 50, ":vb" if b == "take" else "nil"), (40 if b == "take" else 50, "nil")]},
                        "m_final": [],
                        "sig": "pending-connect-completed-by-something-else",
                        "what": "net/connect to a listener that does not answer was pending, then abandoned (%s), F blocked on B=%s" % (ab, b)}
            out.append(s)
    return out
