P = "JanetModel.Props.C07."
THEOREMS = [P + t for t in [
    "resume_only_by_current_wait", "generation_monotone", "generation_strictly_increases", "registration_records_generation",
    "stale_forever", "stale_inert", "listener_detached_on_resume", "item_not_consumed_by_absent_waiter",
    "sleep_not_early", "deadline_scoped", "stale_writer_resumed_when_unchecked", "stale_reader_resumed_by_close_when_unchecked",
]]
HAVE_DRIVER = False
