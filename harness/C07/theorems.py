P = "JanetModel.Props.C07."
THEOREMS = [P + t for t in [
    "resume_only_by_current_wait", "generation_monotone", "generation_strictly_increases", "registration_records_generation",
    "stale_forever", "stale_inert", "listener_detached_on_resume", "item_not_consumed_by_absent_waiter", "supervisor_event_not_consumed_by_absent_waiter",
    "sleep_not_early", "deadline_scoped", "immediate_select_give_registers_nothing", "deadline_inert_after_body_finished",
    "sleep_not_early_ieee", "cMs_ge_model", "sleep_not_early_rn", "round_nearest_exists",
    "resumed_only_by_registration_of_current_wait", "live_registration_is_of_current_epoch", "epoch_counts_resumes", "registration_made_since_previous_resume", "abandoned_stream_activity_inert", "timed_stream_wait_sources_disarm_each_other",
    "listener_detached_on_resume_any_depth", "body_done_marks", "popLive_of_any_live",
    "self_scheduled_wait_stays_live_without_resume_bump", "nested_listener_survives_when_did_resume_late",
    "abandoned_x_procwait_cancels_when_err_branch_unchecked", "stale_thread_completion_inert",
    "abandoned_threaded_await_resumes_when_unchecked",
    "callback_tables_closed", "mark_visit_resumes_nobody", "deinit_resumes_nobody", "listener_callback_wakes_only_its_fiber",
    "every_wake_site_classified", "every_site_class_covered",
    "boot_forms_are_the_mirrored_ones", "gather_cancels_only_its_fibers", "gather_cancel_abandons_sibling_waits", "with_deadline_guards_its_task_only",
    "select_give_on_stale_readers_registers_when_unchecked", "stale_writer_resumed_when_unchecked", "stale_reader_resumed_by_close_when_unchecked",
]]
HAVE_DRIVER = True
