P = "JanetModel.Props.C07."
THEOREMS = [P + t for t in [
    "resume_only_by_current_wait", "generation_monotone", "generation_strictly_increases", "registration_records_generation",
    "stale_forever", "stale_inert", "listener_detached_on_resume", "item_not_consumed_by_absent_waiter",
    "sleep_not_early", "deadline_scoped", "immediate_select_give_registers_nothing", "deadline_inert_after_body_finished",
    "sleep_not_early_ieee", "cMs_ge_model",
    "select_give_on_stale_readers_registers_when_unchecked", "stale_writer_resumed_when_unchecked", "stale_reader_resumed_by_close_when_unchecked",
]]
HAVE_DRIVER = True
