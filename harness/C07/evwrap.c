/* C07 in-process harness: wrapper translation unit around the CURRENT src/core/ev.c.
 *
 *  - time is an input: clock_gettime / timerfd_settime / epoll_wait as used by ev.c are renamed to the
 *    verif_* functions below.  The virtual clock only moves when the event loop would block: it jumps to the
 *    deadline ev.c armed (optionally one tick early first, to exercise the `to.when <= now` re-check);
 *    real file descriptors (pipes, self-pipe) are still polled for real, with timeout 0.
 *  - every resume performed by janet_loop1's run phase goes through verif_continue_signal (rename of
 *    janet_continue_signal inside ev.c only), which logs  (tick, fiber, sched_id, signal, value) -> signal out.
 *  - accessors for the file-static structures (channel pending queues, timer heap, task queue).
 *
 * Usage:  evwrap <scenario-file> [--early] [--late K] [--gc]      scenario-file:  "@@@ <id>\n<janet source>\n" ...
 *         --gc: a full garbage collection every time the loop polls (janet_collect in the epoll_wait wrapper): the collector
 *         then delivers JANET_ASYNC_EVENT_MARK to the callback of every listening fiber between any two events; the log must
 *         be the same as without it.
 * Every scenario runs in a forked child with its own janet_init (crash / hang isolation).
 */
#define _GNU_SOURCE
#define clock_gettime verif_clock_gettime
#define timerfd_settime verif_timerfd_settime
#define epoll_wait verif_epoll_wait
#define janet_continue_signal verif_continue_signal
#define read verif_read
#define write verif_write
#include "ev.c"
#undef read
#undef write
#undef clock_gettime
#undef timerfd_settime
#undef epoll_wait
#undef janet_continue_signal

#include <stdio.h>
#include <stdlib.h>
#include <string.h>
#include <dirent.h>
#include <sys/wait.h>
#include <poll.h>
#include <sys/socket.h>
#include <netinet/in.h>
#include <arpa/inet.h>

extern int epoll_wait(int, struct epoll_event *, int, int);
extern ssize_t read(int, void *, size_t);
extern ssize_t write(int, const void *, size_t);
extern int clock_gettime(clockid_t, struct timespec *);
extern int timerfd_settime(int, int, const struct itimerspec *, struct itimerspec *);
JanetSignal janet_continue_signal(JanetFiber *fiber, Janet in, Janet *out, JanetSignal sig);

static int64_t vnow = 1000;       /* virtual monotonic clock, ms */
static int timer_armed = 0;
static int64_t timer_deadline = 0;
static int early_wake = 0;        /* deliver one spurious timer wake-up one tick early */
static int early_done = 0;
static int gc_every_poll = 0;     /* --gc */
static int late_wake = 0;         /* the loop wakes up this many ms after the armed deadline (a busy machine) */
static FILE *lg;                  /* log stream (memory) */
static char *lgbuf; static size_t lgsize;
static const int64_t T0 = 1000;
static pthread_t main_thread;

/* ---- names for fibers / channels / streams --------------------------------------------------- */
#define MAXN 256
static const void *nm_ptr[MAXN]; static char nm_str[MAXN][24]; static int nm_n = 0;
static const char *name_of(const void *p) {
    for (int i = 0; i < nm_n; i++) if (nm_ptr[i] == p) return nm_str[i];
    return NULL;
}

static void repr(JanetBuffer *b, Janet x, int depth) {
    const char *n;
    switch (janet_type(x)) {
        case JANET_NIL: janet_buffer_push_cstring(b, "nil"); break;
        case JANET_BOOLEAN: janet_buffer_push_cstring(b, janet_unwrap_boolean(x) ? "true" : "false"); break;
        case JANET_NUMBER: { char t[64]; snprintf(t, sizeof t, "%.17g", janet_unwrap_number(x)); janet_buffer_push_cstring(b, t); break; }
        case JANET_KEYWORD: janet_buffer_push_u8(b, ':'); janet_buffer_push_string(b, janet_unwrap_keyword(x)); break;
        case JANET_SYMBOL: janet_buffer_push_string(b, janet_unwrap_symbol(x)); break;
        case JANET_STRING: { JanetString s = janet_unwrap_string(x); janet_buffer_push_u8(b, '"');
            int32_t len = janet_string_length(s);
            if (len > 40) { char t[64]; snprintf(t, sizeof t, "<%d bytes of %c>", len, s[0]); janet_buffer_push_cstring(b, t); }
            else for (int32_t i = 0; i < len; i++) janet_buffer_push_u8(b, (s[i] == ' ' ) ? '_' : s[i]);
            janet_buffer_push_u8(b, '"'); break; }
        case JANET_BUFFER: { JanetBuffer *s = janet_unwrap_buffer(x); janet_buffer_push_cstring(b, "@\"");
            if (s->count > 40) { char t[64]; snprintf(t, sizeof t, "<%d bytes of %c>", s->count, s->data[0]); janet_buffer_push_cstring(b, t); }
            else for (int32_t i = 0; i < s->count; i++) janet_buffer_push_u8(b, s->data[i] == ' ' ? '_' : s->data[i]);
            janet_buffer_push_u8(b, '"'); break; }
        case JANET_TUPLE: case JANET_ARRAY: {
            const Janet *d; int32_t len; janet_indexed_view(x, &d, &len);
            janet_buffer_push_u8(b, '(');
            for (int32_t i = 0; i < len && depth < 6; i++) { if (i) janet_buffer_push_u8(b, ','); repr(b, d[i], depth + 1); }
            janet_buffer_push_u8(b, ')'); break; }
        case JANET_FIBER: n = name_of(janet_unwrap_fiber(x)); janet_buffer_push_cstring(b, n ? n : "<fiber>"); break;
        case JANET_ABSTRACT: n = name_of(janet_unwrap_abstract(x)); janet_buffer_push_cstring(b, n ? n : "<abstract>"); break;
        default: janet_buffer_push_cstring(b, "<"); janet_buffer_push_cstring(b, janet_type_names[janet_type(x)]); janet_buffer_push_cstring(b, ">"); break;
    }
}
static const char *reprs(Janet x) {
    static JanetBuffer b; static int init = 0;
    if (!init) { janet_buffer_init(&b, 64); init = 1; }
    b.count = 0; repr(&b, x, 0); janet_buffer_push_u8(&b, 0);
    return (const char *) b.data;
}
static const char *fname(JanetFiber *f) { const char *n = name_of(f); return n ? n : "?"; }

/* ---- kernel interactions of ev.c, logged in order: they are the INPUT of the Lean model's stream / process part ------- */
static const char *stream_name_of_fd(int fd) {
    for (int i = 0; i < nm_n; i++) {
        if (nm_str[i][0] == 'p' && ((const JanetStream *) nm_ptr[i])->handle == fd) return nm_str[i];
    }
    return "?";
}
static void log_bytes(const char *tag, int fd, size_t limit, ssize_t r, const unsigned char *data, int err) {
    fprintf(lg, "K %s %s %zu ", tag, stream_name_of_fd(fd), limit);
    if (r < 0) {
        if (err == EAGAIN || err == EWOULDBLOCK) fprintf(lg, "again\n");
        else { fprintf(lg, "err:"); for (const char *m = strerror(err); *m; m++) fputc(*m == ' ' ? '_' : *m, lg); fprintf(lg, "\n"); }
    } else if (r <= 40) {
        fprintf(lg, "%zd:", r);
        for (ssize_t i = 0; i < r; i++) fputc(data[i] == ' ' ? '_' : data[i], lg);
        fprintf(lg, "\n");
    } else {
        fprintf(lg, "%zd:%c\n", r, data[0]);
    }
}
ssize_t verif_read(int fd, void *buf, size_t n) {
    ssize_t r;
    if (fd == janet_vm.selfpipe[0] || pthread_self() != main_thread) return read(fd, buf, n);
    do { r = read(fd, buf, n); } while (r == -1 && errno == EINTR);
    int e = errno;
    log_bytes("rd", fd, n, r, buf, e);
    errno = e;
    return r;
}
ssize_t verif_write(int fd, const void *buf, size_t n) {
    ssize_t r;
    if (fd == janet_vm.selfpipe[1] || pthread_self() != main_thread) return write(fd, buf, n);
    do { r = write(fd, buf, n); } while (r == -1 && errno == EINTR);
    int e = errno;
    log_bytes("wr", fd, n, r, buf, e);
    errno = e;
    return r;
}
static void log_poll(struct epoll_event *events, int n) {
    fprintf(lg, "K poll %d %lld\n", n, (long long)(vnow - T0));
    for (int i = 0; i < n; i++) {
        void *p = events[i].data.ptr;
        if (p == (void *) janet_vm.selfpipe) { fprintf(lg, "K self\n"); continue; }
        if (p == (void *) &janet_vm.timerfd) { fprintf(lg, "K timer\n"); continue; }
        const char *nm = name_of(p);
        int m = events[i].events;
        fprintf(lg, "K ev %s %s%s%s%s-\n", nm ? nm : "?", (m & EPOLLIN) ? "r" : "", (m & EPOLLOUT) ? "w" : "",
                (m & EPOLLERR) ? "e" : "", (m & EPOLLHUP) ? "h" : "");
    }
}

/* ---- virtual time ------------------------------------------------------------------------------ */
/* worker threads started by ev/thread run their own janet VM through this same translation unit: they get the real clock,
 * the real epoll and no logging — the virtual clock and the log belong to the scenario's main thread */
#define IN_WORKER() (pthread_self() != main_thread)
int verif_clock_gettime(clockid_t id, struct timespec *ts) {
    if (IN_WORKER()) return clock_gettime(id, ts);
    ts->tv_sec = vnow / 1000; ts->tv_nsec = (vnow % 1000) * 1000000;
    return 0;
}
int verif_timerfd_settime(int fd, int flags, const struct itimerspec *its, struct itimerspec *old) {
    if (IN_WORKER()) return timerfd_settime(fd, flags, its, old);
    if (its->it_value.tv_sec == 0 && its->it_value.tv_nsec == 0) { timer_armed = 0; return 0; }
    timer_armed = 1;
    timer_deadline = (int64_t) its->it_value.tv_sec * 1000 + its->it_value.tv_nsec / 1000000;
    return 0;
}
static int nthreads(void) {
    int n = 0; DIR *d = opendir("/proc/self/task"); struct dirent *e;
    if (!d) return 1;
    while ((e = readdir(d))) if (e->d_name[0] != '.') n++;
    closedir(d); return n;
}
static void finish(const char *status) {
    fflush(lg);
    fwrite(lgbuf, 1, lgsize, stdout);
    printf("@@@ end %s\n", status);
    fflush(stdout);
    _exit(0);
}
int verif_epoll_wait(int epfd, struct epoll_event *events, int max, int timeout) {
    int n;
    if (IN_WORKER()) return epoll_wait(epfd, events, max, timeout);
    if (gc_every_poll) janet_collect();
    do { n = epoll_wait(epfd, events, max, 0); } while (n == -1 && errno == EINTR);
    if (n != 0) { if (n > 0) log_poll(events, n); return n; }
    if (timer_armed) {
        if (early_wake && !early_done && timer_deadline - 1 > vnow) {
            early_done = 1; vnow = timer_deadline - 1;      /* spurious early wake-up: loop must re-check */
        } else {
            early_done = 0;
            if (timer_deadline + late_wake > vnow) vnow = timer_deadline + late_wake;
            timer_armed = 0;
        }
        events[0].events = EPOLLIN; events[0].data.ptr = &janet_vm.timerfd;
        return 1;
    }
    for (int i = 0; i < 5000 && nthreads() > 1; i++) {
        do { n = epoll_wait(epfd, events, max, 1); } while (n == -1 && errno == EINTR);
        if (n != 0) { if (n > 0) log_poll(events, n); return n; }
    }
    do { n = epoll_wait(epfd, events, max, 0); } while (n == -1 && errno == EINTR);
    if (n != 0) { if (n > 0) log_poll(events, n); return n; }
    fprintf(lg, "D %lld DEADLOCK\n", (long long)(vnow - T0));
    finish("deadlock");
    return 0;
}

/* ---- resume log -------------------------------------------------------------------------------- */
JanetSignal verif_continue_signal(JanetFiber *fiber, Janet in, Janet *out, JanetSignal sig) {
    if (IN_WORKER()) return janet_continue_signal(fiber, in, out, sig);
    fprintf(lg, "R %lld %s sid=%u in=%s val=%s\n", (long long)(vnow - T0), fname(fiber), fiber->sched_id,
            janet_signal_names[sig], reprs(in));
    JanetSignal r = janet_continue_signal(fiber, in, out, sig);
    fprintf(lg, "X %lld %s %s\n", (long long)(vnow - T0), fname(fiber), janet_signal_names[r]);
    return r;
}

/* ---- cfunctions for scenarios ------------------------------------------------------------------ */
static Janet c_name(int32_t argc, Janet *argv) {
    janet_fixarity(argc, 2);
    const void *p = janet_checktype(argv[0], JANET_FIBER) ? (void *) janet_unwrap_fiber(argv[0]) : janet_unwrap_abstract(argv[0]);
    if (nm_n < MAXN) { nm_ptr[nm_n] = p; snprintf(nm_str[nm_n], sizeof nm_str[0], "%s", (const char *) janet_getstring(argv, 1)); nm_n++; }
    return argv[0];
}
static Janet c_log(int32_t argc, Janet *argv) {
    janet_arity(argc, 1, 2);
    fprintf(lg, "L %lld %s %s", (long long)(vnow - T0), fname(janet_vm.root_fiber), reprs(argv[0]));
    if (argc > 1) fprintf(lg, " %s", reprs(argv[1]));
    fprintf(lg, "\n");
    return janet_wrap_nil();
}
static Janet c_now(int32_t argc, Janet *argv) {
    (void) argv; janet_fixarity(argc, 0);
    return janet_wrap_number((double)(vnow - T0));
}
/* wait (real time) until n completed threaded calls are queued on the self pipe */
static Janet c_settle(int32_t argc, Janet *argv) {
    janet_fixarity(argc, 1);
    int want = janet_getinteger(argv, 0) * (int) sizeof(JanetSelfPipeEvent);
    for (int i = 0; i < 10000; i++) {
        int avail = 0;
        ioctl(janet_vm.selfpipe[0], FIONREAD, &avail);
        if (avail >= want) return janet_wrap_true();
        usleep(500);
    }
    return janet_wrap_false();
}
static void dump_pending(const char *tag, JanetQueue *q) {
    JanetChannelPending *p = q->data;
    fprintf(lg, " %s=[", tag);
    int first = 1;
    for (int32_t i = q->head; i != q->tail; i = (i + 1 < q->capacity) ? i + 1 : 0) {
        fprintf(lg, "%s%s:%u:%s", first ? "" : ",", fname(p[i].fiber), p[i].sched_id,
                p[i].sched_id == p[i].fiber->sched_id ? "live" : "stale");
        first = 0;
    }
    fprintf(lg, "]");
}
/* (verif/dump tag) : state of every named fiber / channel, the timer heap and the task queue */
static Janet c_dump(int32_t argc, Janet *argv) {
    janet_fixarity(argc, 1);
    fprintf(lg, "S %lld %s\n", (long long)(vnow - T0), reprs(argv[0]));
    for (int i = 0; i < nm_n; i++) {
        const void *p = nm_ptr[i];
        if (nm_str[i][0] == 'c') {
            JanetChannel *c = (JanetChannel *) p;
            fprintf(lg, "S  chan %s items=%d closed=%d", nm_str[i], janet_q_count(&c->items), c->closed);
            dump_pending("rp", &c->read_pending); dump_pending("wp", &c->write_pending);
            fprintf(lg, "\n");
        } else if (nm_str[i][0] == 'p') {
            JanetStream *s = (JanetStream *) p;
            fprintf(lg, "S  stream %s rf=%s wf=%s closed=%d\n", nm_str[i], s->read_fiber ? fname(s->read_fiber) : "-",
                    s->write_fiber ? fname(s->write_fiber) : "-", !!(s->flags & JANET_STREAM_CLOSED));
        } else if (nm_str[i][0] >= 'A' && nm_str[i][0] <= 'Z') {
            JanetFiber *f = (JanetFiber *) p;
            fprintf(lg, "S  fiber %s sid=%u status=%s canceled=%d listening=%d\n", nm_str[i], f->sched_id,
                    janet_status_names[janet_fiber_status(f)], !!(f->gc.flags & JANET_FIBER_EV_FLAG_CANCELED), f->ev_callback != NULL);
        }
    }
    /* timers sorted by (when, fiber name) so heap layout does not matter */
    fprintf(lg, "S  timers");
    size_t n = janet_vm.tq_count; int *used = calloc(n + 1, sizeof(int));
    for (size_t k = 0; k < n; k++) {
        int best = -1;
        for (size_t i = 0; i < n; i++) {
            if (used[i]) continue;
            if (best < 0 || janet_vm.tq[i].when < janet_vm.tq[best].when ||
                    (janet_vm.tq[i].when == janet_vm.tq[best].when && strcmp(fname(janet_vm.tq[i].fiber), fname(janet_vm.tq[best].fiber)) < 0)) best = (int) i;
        }
        used[best] = 1;
        JanetTimeout *t = &janet_vm.tq[best];
        fprintf(lg, " %lld:%s:%u:%s:%s", (long long)(t->when - T0), fname(t->fiber), t->sched_id,
                t->curr_fiber ? "deadline" : (t->is_error ? "timeout" : "sleep"),
                t->curr_fiber ? (janet_fiber_can_resume(t->curr_fiber) ? "armed" : "bodydone") : (t->sched_id == t->fiber->sched_id ? "live" : "stale"));
    }
    free(used);
    fprintf(lg, "\n");
    return janet_wrap_nil();
}
/* (verif/stall-listener) -> port of a TCP listener on 127.0.0.1 (ephemeral port, backlog 0) whose accept queue has been filled:
 * the kernel drops further SYNs, so a non-blocking connect to it stays in progress (EINPROGRESS) for as long as the scenario
 * runs.  The descriptors live until the scenario's process exits. */
static Janet c_stall_listener(int32_t argc, Janet *argv) {
    (void) argv; janet_fixarity(argc, 0);
    int lfd = socket(AF_INET, SOCK_STREAM | SOCK_CLOEXEC, 0);
    struct sockaddr_in sa; memset(&sa, 0, sizeof sa);
    sa.sin_family = AF_INET; sa.sin_addr.s_addr = htonl(INADDR_LOOPBACK); sa.sin_port = 0;
    if (lfd < 0 || bind(lfd, (struct sockaddr *) &sa, sizeof sa) || listen(lfd, 0)) janet_panic("stall-listener: cannot listen");
    socklen_t sl = sizeof sa;
    getsockname(lfd, (struct sockaddr *) &sa, &sl);
    for (int i = 0; i < 3; i++) {
        int c = socket(AF_INET, SOCK_STREAM | SOCK_NONBLOCK | SOCK_CLOEXEC, 0);
        if (c >= 0) connect(c, (struct sockaddr *) &sa, sizeof sa);
    }
    return janet_wrap_integer(ntohs(sa.sin_port));
}
static const JanetReg cfuns[] = {
    {"verif/name", c_name, NULL}, {"verif/log", c_log, NULL}, {"verif/now", c_now, NULL},
    {"verif/settle", c_settle, NULL}, {"verif/dump", c_dump, NULL}, {"verif/stall-listener", c_stall_listener, NULL}, {NULL, NULL, NULL}
};

/* ---- one scenario ------------------------------------------------------------------------------- */
static void on_signal(int sig) {
    char st[64];
    snprintf(st, sizeof st, sig == SIGALRM ? "hang" : "crash-signal-%d", sig);
    fprintf(lg, "D %lld %s\n", (long long)(vnow - T0), sig == SIGALRM ? "HANG" : "CRASH");
    finish(st);
}
static void run_scenario(const char *id, const char *src) {
    lg = open_memstream(&lgbuf, &lgsize);
    signal(SIGALRM, on_signal); signal(SIGABRT, on_signal); signal(SIGSEGV, on_signal);
    alarm(30);
    main_thread = pthread_self();
    janet_init();
    JanetTable *env = janet_core_env(NULL);
    janet_cfuns(env, NULL, cfuns);
    Janet out;
    size_t n = strlen(src);
    char *wrapped = malloc(n + 64);
    snprintf(wrapped, n + 64, "(fn main [] %s\n)", src);
    if (janet_dostring(env, wrapped, id, &out) || !janet_checktype(out, JANET_FUNCTION)) {
        fprintf(lg, "E compile\n");
        finish("compile-error");
    }
    JanetFiber *fiber = janet_fiber(janet_unwrap_function(out), 64, 0, NULL);
    fiber->env = env;
    janet_gcroot(janet_wrap_fiber(fiber));
    nm_ptr[nm_n] = fiber; strcpy(nm_str[nm_n], "M"); nm_n++;
    janet_schedule(fiber, janet_wrap_nil());
    janet_loop();
    fprintf(lg, "D %lld LOOPDONE\n", (long long)(vnow - T0));
    finish("ok");
}

int main(int argc, char **argv) {
    if (argc < 2) return 2;
    for (int i = 2; i < argc; i++) {
        if (!strcmp(argv[i], "--early")) early_wake = 1;
        if (!strcmp(argv[i], "--gc")) gc_every_poll = 1;
        if (!strcmp(argv[i], "--late") && i + 1 < argc) late_wake = atoi(argv[++i]);
    }
    FILE *f = fopen(argv[1], "r");
    if (!f) return 2;
    char *line = NULL; size_t cap = 0; ssize_t len;
    char id[256] = ""; char *src = NULL; size_t srclen = 0, srccap = 0;
    int have = 0;
    for (;;) {
        len = getline(&line, &cap, f);
        int boundary = (len < 0) || !strncmp(line, "@@@ ", 4);
        if (boundary && have) {
            printf("@@@ %s\n", id);
            fflush(stdout);
            pid_t pid = fork();
            if (pid == 0) { run_scenario(id, src ? src : ""); _exit(0); }
            int st = 0;
            waitpid(pid, &st, 0);
            if (WIFSIGNALED(st)) { printf("@@@ end crash-signal-%d\n", WTERMSIG(st)); }
            else if (WEXITSTATUS(st) != 0) { printf("@@@ end exit-%d\n", WEXITSTATUS(st)); }
            fflush(stdout);
        }
        if (len < 0) break;
        if (boundary) {
            snprintf(id, sizeof id, "%s", line + 4);
            id[strcspn(id, "\n")] = 0;
            srclen = 0; have = 1;
            if (src) src[0] = 0;
        } else if (have) {
            if (srclen + len + 1 > srccap) { srccap = (srclen + len + 1) * 2; src = realloc(src, srccap); }
            memcpy(src + srclen, line, len); srclen += len; src[srclen] = 0;
        }
    }
    return 0;
}
