"""C08 - threads and thread channels deliver every message exactly once, race-free.

Pipeline:
 (A) tools/gen/thread.py reads the shape of the threaded-channel code in the current ev.c / marsh.c (does the re-dispatch
     branch of janet_thread_chan_cb put the item back?  is the re-dispatch there?  incref before send?  completion written
     after the body?  lock ... unlock around every queue operation?) -> Gen/Thread.lean
 (B,C) kernel check + axiom audit of Props/C08 (theorems for every configuration) and of Thread/Current.lean (the full
     theorems instantiated at the configuration of the *current* source; does not build while the source drops items)
 (D) correspondence: deterministic single-loop op sequences (give / take / select / abandon / close / pump) on the real
     implementation vs the Lean model driver, compared after every op (queue lengths, who was resumed with what)
 (E) direct oracle on the implementation: generated producer/consumer topologies over OS threads (harness/C08/topo.py),
     corpus scenarios (corpus/C08/*.janet), under plain, ASan and TSan builds, several interleavings per scenario;
     reference counts / finalizers: rcprobe.c + rcscn.py (shared objects re-sent to threads that already hold them; real
     refcount == live references at quiescent points; every object finalized exactly once after the last drop)
     (LD_PRELOAD perturbation shim harness/C08/perturb.c: seeded yields/sleeps at pthread_mutex_lock and pipe writes).
"""
import concurrent.futures as cf
import json
import os
import re
import subprocess
import sys

from vlib.core import VERIF, run_cmd
from vlib.build import BuildError
from tools.gen.csrc import ExtractError

sys.path.insert(0, os.path.join(VERIF, "harness", "C08"))
import topo  # noqa: E402
import seqops  # noqa: E402
import rcscn  # noqa: E402
from tools.gen import thread as gen_thread  # noqa: E402
from tools.gen import threadlock as gen_threadlock  # noqa: E402

THEOREMS = [
    "JanetModel.Props.C08.exactly_once",
    "JanetModel.Props.C08.exactly_once_partial",
    "JanetModel.Props.C08.exactly_once_counterexample",
    "JanetModel.Props.C08.per_sender_order_partial",
    "JanetModel.Props.C08.per_sender_order",
    "JanetModel.Props.C08.got_in_send_order",
    "JanetModel.Props.C08.no_abandon_no_stale_no_drop",
    "JanetModel.Props.C08.per_sender_order_counterexample",
    "JanetModel.Props.C08.per_sender_order_requeue",
    "JanetModel.Props.C08.per_sender_order_requeue_counterexample",
    "JanetModel.Props.C08.per_thread_order_counterexample",
    "JanetModel.Props.C08.pipe_fifo",
    "JanetModel.Props.C08.runq_fifo",
    "JanetModel.Props.C08.exactly_once_resumed",
    "JanetModel.Props.C08.exactly_once_resumed_clean",
    "JanetModel.Props.C08.scheduled_then_abandoned_counterexample",
    "JanetModel.Props.C08.writer_wakeup_forwarded",
    "JanetModel.Props.C08.writer_wakeup_accepted",
    "JanetModel.Props.C08.writer_wakeup_counterexample",
    "JanetModel.Props.C08.got_was_given",
    "JanetModel.Props.C08.payload_roundtrip",
    "JanetModel.Props.C08.supervisor_push_never_parks",
    "JanetModel.Props.C08.supervisor_events_exactly_once_in_order",
    "JanetModel.Props.C08.thread_args_roundtrip",
    "JanetModel.Props.C08.thread_handover_exactly_once",
    "JanetModel.Props.C08.thread_args_counterexample",
    "JanetModel.Props.C08.thread_returns_after_body",
    "JanetModel.Props.C08.thread_returns_after_body_counterexample",
    "JanetModel.Props.C08.refcount_ge_reachers",
    "JanetModel.Props.C08.refcount_freed_after_last_drop",
    "JanetModel.Props.C08.shared_valid_while_reachable",
    "JanetModel.Props.C08.shared_released_after_all_dropped",
    "JanetModel.Props.C08.lock_use_counterexample",
    "JanetModel.Props.C08.refcount_counterexample",
    "JanetModel.Props.C08.refcount_leak_counterexample",
    "JanetModel.Props.C08.shared_never_stranded",
    "JanetModel.Props.C08.shared_released_after_drops_and_discards",
    "JanetModel.Props.C08.stranded_counterexample",
    "JanetModel.Props.C08.deinit_leak_counterexample",
    "JanetModel.Props.C08.pack_failure_leak_counterexample",
    "JanetModel.Props.C08.lock_paths_release_exactly_once",
    "JanetModel.Props.C08.lock_discipline_counterexamples",
]
CURRENT = [
    "JanetModel.Thread.Current.exactly_once_current",
    "JanetModel.Thread.Current.forward_own_sched_id",
    "JanetModel.Thread.Current.runqueue_shape",
    "JanetModel.Thread.Current.per_sender_order_current",
    "JanetModel.Thread.Current.requeue_at_head",
    "JanetModel.Thread.Current.per_sender_order_requeue_current",
    "JanetModel.Thread.Current.exactly_once_resumed_current",
    "JanetModel.Thread.Current.payload_codec_shape",
    "JanetModel.Thread.Current.supervisor_shape",
    "JanetModel.Thread.Current.thread_plans_agree",
    "JanetModel.Thread.Current.thread_args_roundtrip_current",
    "JanetModel.Thread.Current.thread_returns_after_body_current",
    "JanetModel.Thread.Current.refcount_ge_reachers_current",
    "JanetModel.Thread.Current.shared_never_stranded_current",
    "JanetModel.Thread.Current.lock_types_shape",
    "JanetModel.Thread.Current.locks_valid_while_reachable_current",
    "JanetModel.Thread.Current.lock_discipline_current",
    "JanetModel.Thread.Current.lock_paths_current",
]
CORPUS = os.path.join(VERIF, "corpus", "C08")
SAN_ENV = {"ASAN_OPTIONS": "detect_leaks=0:abort_on_error=0:verify_asan_link_order=0", "UBSAN_OPTIONS": "print_stacktrace=1",
           "TSAN_OPTIONS": "halt_on_error=0:second_deadlock_stack=1:report_signal_unsafe=0"}


def corpus_files():
    out = []
    for fn in sorted(os.listdir(CORPUS)):
        if fn.endswith(".janet"):
            meta = {}
            with open(os.path.join(CORPUS, fn)) as f:
                for line in f:
                    m = re.match(r"#\s*(sig|expect|what|runner):\s*(.*)", line)
                    if m:
                        meta[m.group(1)] = m.group(2).strip()
            out.append((fn, meta))
    return out


def run_corpus_one(janet, fn, env, preload=None, runner=None):
    if runner:
        janet = runner
    e = dict(os.environ, **env)
    if preload:
        e["LD_PRELOAD"] = preload
    rc, out, err = run_cmd([janet, os.path.join(CORPUS, fn)], timeout=90, env=e, cwd="/var/tmp")
    lines = [l for l in out.decode(errors="replace").splitlines() if l.startswith("RESULT")]
    return rc, (lines[-1] if lines else ""), err.decode(errors="replace")[-3000:]


def san_reports(stderr):
    """-> list of (kind, summary) sanitizer reports found in stderr"""
    reps = []
    for m in re.finditer(r"WARNING: ThreadSanitizer: ([^\n(]+)", stderr):
        kind = m.group(1).strip()
        tail = stderr[m.end():m.end() + 4000]
        frames = re.findall(r"#\d+ (\w+) [^\n]*?(\w+\.c):\d+", tail)[:12]
        fn = next((f for f, src in frames if f.startswith("janet") or src in ("ev.c", "marsh.c", "gc.c", "abstract.c")), frames[0][0] if frames else "?")
        reps.append(("tsan:" + kind, fn))
    for m in re.finditer(r"ERROR: AddressSanitizer: ([\w-]+)", stderr):
        tail = stderr[m.end():m.end() + 3000]
        frames = re.findall(r"#\d+ 0x[0-9a-f]+ in (\w+)", tail)[:10]
        fn = next((f for f in frames if f.startswith("janet")), frames[0] if frames else "?")
        reps.append(("asan:" + m.group(1), fn))
    for m in re.finditer(r"runtime error: ([^\n]+)", stderr):
        reps.append(("ubsan", m.group(1)[:80]))
    return reps


def san_sig(kind, fn):
    if kind.startswith("tsan:lock-order-inversion"):
        # ev/select / ev/rselect take the locks of their thread channels in clause order (known finding)
        return "deadlock-select-lock-order"
    return kind + ":" + fn


def run(ctx, only_replay=None):
    quick = ctx.tier == "quick"
    broken = []
    # ---------------------------------------------------------------- build
    try:
        ctx.build.boot()
        plain = ctx.build.variant("plain")
    except BuildError as e:
        ctx.violation("build-failed", {"kind": "build", "error": str(e)}, found=False, what="tree does not build")
        return ctx.finish("proof", {"evaluations": 0, "distinct_nontrivial": 0, "rule": "none", "samples": []})
    # ---------------------------------------------------------------- (A) regenerate
    facts = None
    try:
        facts = gen_thread.extract(ctx.build.tree)
        ctx.gen("Thread.lean", gen_thread.render(facts))
    except ExtractError as e:
        broken.append("translator tools/gen/thread.py: %s" % e)
        ctx.broken.append(broken[-1])
    # statement trees of the functions that take / release the channel mutex (path-level lock certificate, checked in Lean)
    lock_facts = None
    try:
        lock_facts = gen_threadlock.extract(ctx.build.tree)
        ctx.gen("ThreadLock.lean", gen_threadlock.render(lock_facts))
    except ExtractError as e:
        broken.append("translator tools/gen/threadlock.py: %s" % e)
        ctx.broken.append(broken[-1])
    # ---------------------------------------------------------------- (B,C) obligations
    broken += ctx.obligations("JanetModel.Props.C08", THEOREMS)
    cur_broken = ctx.obligations("JanetModel.Thread.Current", CURRENT)
    if cur_broken:
        ctx.say("full theorems do NOT hold for the configuration of the current source: %s" % (facts and facts["flags"]))
    broken += cur_broken
    if not quick:
        ok, log = ctx.leanchecker("JanetModel.Props.C08")
        if not ok:
            broken.append("leanchecker JanetModel.Props.C08: " + log[-300:])
    # ---------------------------------------------------------------- (D) correspondence (single loop, deterministic)
    exe = ctx.driver()
    nseq = 400 if quick else 6000
    seqs = seqops.corpus_sequences() + [seqops.gen_sequence(ctx.rng.fork("seq%d" % i), s_after_close=bool(facts and facts["flags"].get("supervisorPushClosedSafe"))) for i in range(nseq)]
    # family `requeue`: stale hand-off returned by the requeue branch of janet_thread_chan_cb with 2..8 later gives of the same sender queued
    nrq = 60 if quick else 600
    seqs += [seqops.gen_requeue_sequence(ctx.rng.fork("rqseq%d" % i)) for i in range(nrq)]
    corr_diffs, corr_lines, corr_err = [], 0, None
    seq_cov = {}
    # when the translator no longer recognises the source (facts is None) the histories are still run: the implementation-side
    # oracle (conservation, liveness) needs no model; the model then runs at the configuration of the last known source
    corr_flags = facts["flags"] if facts else {"requeueOnNoReader": True, "requeueAtHead": True, "redispatchToNext": True, "cbChecksSchedId": True,
                                               "forwardOwnSchedId": True, "loopBumpsSchedAtResume": True}
    if exe:
        try:
            corr_diffs, corr_lines, seq_cov = seqops.compare(ctx, plain["janet"], exe, seqs, corr_flags)
        except Exception as e:  # harness failure is a broken tie, not a verdict
            corr_err = "correspondence harness failed: %r" % (e,)
            broken.append(corr_err)
            ctx.broken.append(corr_err)
        if corr_diffs:
            broken.append("correspondence model/impl on single-loop op sequences: %d differing, first %s" % (len(corr_diffs), json.dumps(corr_diffs[0])[:400]))
            ctx.broken.append(broken[-1])
    # property oracle on the op sequences (implementation side, independent of the model): conservation per sequence
    seq_viol = seqops.impl_oracle_failures
    seq_sigs = set()
    for sv in seq_viol:
        if sv["sig"] in seq_sigs or len(seq_sigs) >= 6:
            continue
        seq_sigs.add(sv["sig"])
        ctx.violation(sv["sig"], {"kind": "opseq", "ops": sv["ops"], "observed": sv["observed"], "why": sv["why"]}, what=sv["why"])
    # ---------------------------------------------------------------- (E) direct oracle: topologies over OS threads
    shim = None
    try:
        shim = build_shim(ctx)
    except Exception as e:
        ctx.notes.append("perturbation shim not built: %r" % (e,))
    jobs = []
    nplain = 220 if quick else 4000
    nasan = 24 if quick else 500
    ntsan = 12 if quick else 600
    if ctx.nviol:
        # a failing input is already in hand (op-sequence oracle): every lost message costs a stall timeout, keep (E) small
        nplain, nasan, ntsan = 40, 6, 4
    for i in range(nplain):
        r = ctx.rng.fork("topo%d" % i)
        size = "big" if i % 7 == 0 else "small"
        scn = topo.gen_scenario(r, size=size)
        jobs.append(("plain", i, scn, (i % 3 != 0), r.below(1 << 30)))
    for i in range(nasan):
        r = ctx.rng.fork("atopo%d" % i)
        jobs.append(("asan", i, topo.gen_scenario(r), False, 0))
    for i in range(ntsan):
        r = ctx.rng.fork("ttopo%d" % i)
        jobs.append(("tsan", i, topo.gen_scenario(r), False, 0))
    # ASan build + collections forced at ~1/30 of the interpreter safepoints in every thread (harness/C08/gcrun.c), topologies
    # with several receiver fibers per thread: a message referenced only by the run queue / a pipe event must stay marked
    ngc = (30 if quick else 600) if not ctx.nviol else 6
    for i in range(ngc):
        r = ctx.rng.fork("gtopo%d" % i)
        jobs.append(("asan_gc", i, topo.gen_scenario(r, features={"gc", "select", "gabandon"} if i % 2 else None), False, r.below(1 << 30)))
    variants = {"plain": plain}
    for vn in ("asan", "tsan"):
        try:
            variants[vn] = ctx.build.variant(vn)
        except BuildError as e:
            broken.append("variant %s does not build: %s" % (vn, str(e)[-300:]))
            variants[vn] = None

    variants["asan_gc"] = None
    if variants.get("asan"):
        try:
            variants["asan_gc"] = {"janet": ctx.build.harness("asan", "c08gcrun", [os.path.join(VERIF, "harness/C08/gcrun.c")])}
        except BuildError as e:
            broken.append("gc-forcing runner does not compile against the current tree: %s" % str(e)[-300:])

    def one(job):
        vn, i, scn, perturb, pseed = job
        v = variants[vn]
        if v is None:
            return job, None, []
        env = dict(os.environ, **SAN_ENV)
        env["C08_PSEED"] = str(pseed)
        env["C08_GCN"] = "30"
        res = topo.run_scenario(v["janet"], scn, env=env, timeout=60 if vn == "plain" else 150,
                                preload=shim if (perturb and vn == "plain" and shim) else None)
        if vn == "tsan" and res["rc"] == 66:
            res["rc"] = 0  # TSan's exit status when it printed reports; the reports themselves are handled below
        try:
            bad = topo.oracle(scn, res)
        except Exception as e:  # output of the implementation that the oracle cannot interpret is a failure of the run, not of the check
            bad = [("malformed-receipt", "the logs of this run could not be interpreted (%r): the implementation produced values of an unexpected shape" % (e,))]
        # a run killed by the process timeout while it was still computing (no `stall` line of the watchdog, substantial CPU
        # time) is SLOW, not stuck: its missing messages are no verdict (the machine may be heavily loaded)
        if res["rc"] is None and not any(l.startswith("stall") for l in res["logs"].get("main", [])) \
                and res.get("cpu_s") is not None and res["cpu_s"] >= 0.1 * res["timeout"]:
            bad = [b for b in bad if b[0] not in ("lost", "lost-stale-reader", "stuck")]
            res["inconclusive"] = True
        for kind, fn in san_reports(res["stderr"]):
            bad.append((san_sig(kind, fn), "sanitizer report %s in %s" % (kind, fn)))
        return job, res, bad

    results = []
    with cf.ThreadPoolExecutor(8) as ex:
        for r in ex.map(one, jobs):
            results.append(r)
    cov_feat = {}
    nrun = 0
    reported = set()
    known_seen = {}
    for job, res, bad in results:
        if res is None:
            continue
        nrun += 1
        d = topo.describe(job[2])
        for k in ("consumer_modes", "abandon", "shapes"):
            for x in d[k]:
                cov_feat[k + ":" + x] = cov_feat.get(k + ":" + x, 0) + 1
        cov_feat["threads:%d" % (d["producers"] + d["consumers"])] = cov_feat.get("threads:%d" % (d["producers"] + d["consumers"]), 0) + 1
        cov_feat["chans:%d" % d["chans"]] = cov_feat.get("chans:%d" % d["chans"], 0) + 1
        for cap in d["caps"]:
            cov_feat["cap:%d" % cap] = cov_feat.get("cap:%d" % cap, 0) + 1
        if d["aborts"]:
            cov_feat["abort-racing"] = cov_feat.get("abort-racing", 0) + 1
        for x in d.get("bad_select") or []:
            cov_feat["failed-select-then-use:" + x] = cov_feat.get("failed-select-then-use:" + x, 0) + 1
        if d.get("late_give"):
            cov_feat["give-on-closed-then-use"] = cov_feat.get("give-on-closed-then-use", 0) + 1
        if d["gc_consumers"]:
            cov_feat["gc-pressure-receivers"] = cov_feat.get("gc-pressure-receivers", 0) + 1
        for x in d["giver_abandon"]:
            cov_feat["giver-abandon:" + x] = cov_feat.get("giver-abandon:" + x, 0) + 1
        for sig, why in bad:
            if sig in reported:
                continue
            reported.add(sig)
            ctx.violation(sig, {"kind": "topology", "variant": job[0], "index": job[1], "perturb": job[3], "pseed": job[4],
                                "scenario": topo.scn_to_json(job[2]), "logs": res["logs"], "stderr": res["stderr"][-3000:], "all": bad[:10]},
                          what="[%s build] %s" % (job[0], why))
    # reference counts / finalizers of shared abstracts (harness/C08/rcprobe.c + rcscn.py)
    nrc = {"plain": 60 if quick else 1500, "asan": 20 if quick else 300}
    rc_runs, rc_cov = 0, {"echo": 0, "hold": 0, "drop": 0, "self": 0, "check": 0}
    for vn in ("plain", "asan"):
        if variants.get(vn) is None:
            continue
        try:
            rcexe = ctx.build.harness(vn, "c08rc", [os.path.join(VERIF, "harness/C08/rcprobe.c")])
        except BuildError as e:
            broken.append("refcount probe harness does not compile against the current tree (%s): %s" % (vn, str(e)[-300:]))
            continue
        rjobs = [rcscn.gen(ctx.rng.fork("rc-%s-%d" % (vn, i))) for i in range(nrc[vn])]

        def rone(scn, rcexe=rcexe):
            rc, out, err = rcscn.run_one(rcexe, scn, env=dict(os.environ, **SAN_ENV))
            bad = rcscn.oracle(scn, rc, out, err)
            for kind, fn in san_reports(err):
                bad.append((san_sig(kind, fn), "sanitizer report %s in %s" % (kind, fn)))
            return scn, rc, out, err, bad
        with cf.ThreadPoolExecutor(8) as ex:
            for scn, rc, out, err, bad in ex.map(rone, rjobs):
                rc_runs += 1
                for op in scn["ops"]:
                    rc_cov[op[0]] = rc_cov.get(op[0], 0) + 1
                for kd in scn["kinds"]:
                    rc_cov["obj:" + kd] = rc_cov.get("obj:" + kd, 0) + 1
                for sig, why in bad:
                    if sig in reported:
                        continue
                    reported.add(sig)
                    ctx.violation(sig, {"kind": "refcount", "variant": vn, "scenario": scn, "script": rcscn.render(scn), "rc": rc,
                                        "stdout": out[-3000:], "stderr": err[-2000:], "all": bad[:6]},
                                  what="[%s build] %s" % (vn, why))
    # corpus scenarios (targeted, deterministic)
    ncorp = 0
    for fn, meta in corpus_files():
        for vn in (("plain", "asan") if quick else ("plain", "asan", "tsan")):
            v = variants.get(vn)
            if v is None:
                continue
            if vn == "tsan" and meta.get("sig") == "deadlock-select-lock-order":
                continue
            runner = None
            if meta.get("runner") == "rcprobe":
                if vn == "tsan":
                    continue
                try:
                    runner = ctx.build.harness(vn, "c08rc", [os.path.join(VERIF, "harness/C08/rcprobe.c")])
                except BuildError:
                    continue
            rc, last, err = run_corpus_one(v["janet"], fn, SAN_ENV, runner=runner)
            ncorp += 1
            sreps = san_reports(err) if meta.get("sig") not in ("abort-stale-reader-dead-thread",) else []
            if last != meta.get("expect") or sreps:
                sig = meta.get("sig", "corpus:" + fn)
                if last == meta.get("expect") and sreps:
                    sig = san_sig(sreps[0][0], sreps[0][1])
                if sig in reported:
                    continue
                reported.add(sig)
                ctx.violation(sig, {"kind": "corpus", "file": os.path.join(CORPUS, fn), "variant": vn, "expected": meta.get("expect"),
                                    "observed": last, "rc": rc, "stderr": err[-2000:], "sanitizer": sreps},
                              what="%s: %s (expected `%s`, observed `%s`, rc=%r)" % (fn, meta.get("what", ""), meta.get("expect"), last, rc))
    if broken and not ctx.nviol:
        ctx.violation("broken:" + broken[0][:80], {"kind": "broken-obligation", "broken": broken, "first_diffs": corr_diffs[:5]}, found=False,
                      what="no longer shown to hold: " + "; ".join(broken)[:700])
    cov = {
        "evaluations": nrun + ncorp + len(seqs) + rc_runs,
        "distinct_nontrivial": len(set(json.dumps(topo.scn_to_json(j[2]), sort_keys=True) for j, r, b in results if r is not None)) + len(seqs),
        "rule": "topology = random (1..4 thread channels, capacities 0..8, 1..5 producers x 1..5 consumers = 2..8 OS threads, take/select/rselect consumers, "
                "scripted abandoned waits (deadline/cancel/select) and timer-driven racing aborts, close while blocked, give/select-give producers, "
                "messages = scalars/strings/nested data/shared abstracts (thread channels carrying a token, locks), supervisor notes + terminal event); "
                "non-trivial = distinct scenario; each run checked for: every given message received exactly once, structurally equal, on the right "
                "channel, per-sender order per receiver, ev/thread returned after body, supervisor messages exactly once in order, channels empty at end; "
                "op sequences = random single-loop histories compared step by step with the Lean model",
        "samples": [topo.describe(j[2]) for j, r, b in results[:3]] + [" ".join(seqs[0])[:200] if seqs else ""],
        "topology_runs": {vn: sum(1 for j, r, b in results if j[0] == vn and r is not None) for vn in ("plain", "asan", "tsan", "asan_gc")},
        "inconclusive_slow_runs": sum(1 for j, r, b in results if r is not None and r.get("inconclusive")),
        "perturbed_runs": sum(1 for j, r, b in results if j[3] and shim and j[0] == "plain"),
        "messages_checked": sum(topo.describe(j[2])["messages"] for j, r, b in results if r is not None),
        "feature_counts": dict(sorted(cov_feat.items())),
        "corpus_runs": ncorp,
        "refcount_runs": rc_runs, "refcount_ops": rc_cov,
        "opseq": {"sequences": len(seqs), "compared_lines": corr_lines, "diffs": len(corr_diffs), "coverage": seq_cov},
        "source_flags": facts["flags"] if facts else None,
        "lock_certificate": {fn: st for fn, _, _, st in lock_facts["progs"]} if lock_facts else None,
        "lock_users_outside_certificate": lock_facts["outside"] if lock_facts else None,
        "sched_point_hook_present": bool(facts and facts.get("hook_present")),
    }
    return ctx.finish("proof", cov, assumptions=[
        "message protocol: proved for the Lean model (all interleavings of atomic critical sections); the model is tied to ev.c by regenerated shape "
        "flags (tools/gen/thread.py) and by step-by-step correspondence on single-loop op sequences",
        "data races / memory errors: tested only (TSan, ASan+UBSan builds over the generated topologies), not proved; the lock DISCIPLINE "
        "(every path of the ten single-channel functions releases the mutex exactly once, queues touched only under it) is certified in Lean "
        "on regenerated statement trees; ev/select's multi-lock scan (cfun_channel_choice) is outside that certificate",
        "per_sender_order is proved in the absence of abandoned waits, and across a REQUEUED stale hand-off (no other reader pending, no later item "
        "taken yet, one stale hand-off outstanding: per_sender_order_requeue, needs requeueAtHead); with re-dispatch / later items already taken / "
        "several stale hand-offs it is false on the implementation as well (known finding reorder-stale-reader); a reorder on the requeue path is "
        "reported as reorder-requeued-item",
        "OS scheduling is perturbed (LD_PRELOAD shim at pthread_mutex_lock / write) but not enumerated",
    ])


def build_shim(ctx):
    src = os.path.join(VERIF, "harness", "C08", "perturb.c")
    out = os.path.join(ctx.build.dir, "c08_perturb.so")
    if not os.path.exists(out) or os.path.getmtime(out) < os.path.getmtime(src):
        r = subprocess.run(["gcc", "-O1", "-shared", "-fPIC", "-o", out + ".tmp", src, "-ldl", "-lpthread"], stdout=subprocess.PIPE, stderr=subprocess.STDOUT)
        if r.returncode:
            raise RuntimeError(r.stdout.decode()[-500:])
        os.replace(out + ".tmp", out)
    return out


def replay(ctx, path):
    r = json.load(open(path))
    print(json.dumps({k: v for k, v in r.items() if k not in ("logs", "scenario")}, indent=1)[:3000])
    v = ctx.build.variant(r.get("variant", "plain") if r.get("variant") in ("plain", "asan", "tsan") else ("asan" if r.get("variant") == "asan_gc" else "plain"))
    if r.get("variant") == "asan_gc":
        v = dict(v, janet=ctx.build.harness("asan", "c08gcrun", [os.path.join(VERIF, "harness/C08/gcrun.c")]))
    if r.get("kind") == "topology":
        scn = topo.scn_from_json(r["scenario"])
        fails = 0
        for k in range(10):
            res = topo.run_scenario(v["janet"], scn, env=dict(os.environ, **SAN_ENV))
            bad = topo.oracle(scn, res) + [(san_sig(a, b), "sanitizer") for a, b in san_reports(res["stderr"])]
            hit = [b for b in bad if b[0] == r.get("signature")]
            print("replay run %d: %s" % (k, [b[0] for b in bad]))
            if hit:
                fails += 1
        if fails:
            ctx.violation(r["signature"], dict(r, replayed=True), what="replay reproduces %d/10: %s" % (fails, r.get("what")))
    elif r.get("kind") == "corpus":
        fn = os.path.basename(r["file"])
        meta = dict(corpus_files()).get(fn, {})
        runner = ctx.build.harness(r.get("variant", "plain"), "c08rc", [os.path.join(VERIF, "harness/C08/rcprobe.c")]) if meta.get("runner") == "rcprobe" else None
        rc, last, err = run_corpus_one(v["janet"], fn, SAN_ENV, runner=runner)
        print("observed:", last, "rc", rc)
        if last != r.get("expected"):
            ctx.violation(r["signature"], dict(r, replayed=True), what="replay reproduces: " + r.get("what", ""))
    elif r.get("kind") == "refcount":
        exe = ctx.build.harness(r.get("variant", "plain"), "c08rc", [os.path.join(VERIF, "harness/C08/rcprobe.c")])
        rc, out, err = rcscn.run_one(exe, r["scenario"], env=dict(os.environ, **SAN_ENV))
        scn = r["scenario"]
        scn["ops"] = [tuple(o) for o in scn["ops"]]
        bad = rcscn.oracle(scn, rc, out, err)
        print(out[-1500:])
        print("replay:", bad)
        if bad:
            ctx.violation(r["signature"], dict(r, replayed=True), what="replay reproduces: " + bad[0][1])
    elif r.get("kind") == "opseq":
        return run(ctx)
    else:
        return run(ctx)
    return ctx.finish("proof", {"evaluations": 1, "distinct_nontrivial": 1, "rule": "replay", "samples": [path]})
