"""C13 - number <-> text conversion is exact when possible and never off by more than an ulp.

(A) regenerate Gen/Strtod.lean from the current strtod.c (digit table, BigNat width, thresholds, size-estimate
    multiplier, C types / casts of the BigNat intermediates, libm log2 table); the modelled functions are alpha-renamed
    to canonical identifier names before the shape assertions run  (B,C) kernel-check Props/C13 + axiom audit  (D) bit-exact correspondence of the Lean
    model (jm_c13) against the real janet_scan_number[_base] / janet_scan_int64 / janet_scan_uint64 / printing paths in an
    ASan+UBSan wrapper TU around strtod.c, incl. the BigNat digit array after the scaling loops  (E) direct oracle on
    the implementation with exact integer arithmetic: exact when representable, else one of the two adjacent doubles;
    print -> read back identity; integers to 2^53 print exactly; int64/uint64 text exact or rejected.
"""
import concurrent.futures as cf
import json
import os
import sys

from vlib.core import run_cmd, VERIF
from vlib.build import BuildError
from tools.gen import strtod as gen_strtod
from tools.gen.csrc import ExtractError

sys.path.insert(0, os.path.join(VERIF, "harness", "C13"))
import gen as G  # noqa: E402

P = "JanetModel.Props.C13."
THEOREMS = [P + t for t in (
    "mul_chain_exact", "div_chain_exact", "neg_branch_at_least_4_digits", "msd_nonzero", "mant_estimate_sound",
    "scan_uint64_exact_or_rejected", "scan_int64_exact_or_rejected",
    "extract_faithful_int", "extract_faithful_frac", "exact_when_representable", "within_one_ulp", "nearest_unique", "digit_table_correct", "ldexp_exact_normal", "int_print_exact_to_2p53",
    "ldexp_faithful_subnormal", "ldexp_overflow_faithful", "ldexp_exact_int",
    "seventeen_digits_suffice", "print17_roundtrip_partial",
    "convert_shortcircuits", "huge_shortcircuit_sound", "tiny_shortcircuit_sound", "log2_table_coarse_check",
    "scan_number_faithful", "clamp_safe", "scan_exact_when_representable", "convert_faithful", "scanner_plumbing_correct",
    "scan_end_to_end", "integer_read_exact", "log2_table_within_1ulp", "scan_number_end_to_end", "prefix_hex", "prefix_radix1", "prefix_radix2",
    "radix_parameter", "exponent_marker_spec", "print_digits_17",
    "wrap_free", "bignat_muladd_wrap_free", "bignat_div_wrap_free", "bignat_extract_wrap_free", "convert_wrap_free",
    "convert_int32_in_range", "convert_neg_branch_exponent_bound",
    "print17_roundtrip", "printed_text_accepted", "print17_roundtrip_text", "convert_reads_back", "extract_ldexp_reads_back", "tiny_shortcircuit_slack", "read_zero_exact",
)]

LITERAL_KINDS = ("structured", "structured-hexp", "from-double", "long-edge", "odd-valid", "corpus")

# multi-megabyte literals (never materialised in python / the model: the harness op `bigz` builds head + '0'*n + tail).
# value known by construction; they probe the exponent clamp `ee < INT32_MAX/40` against the mantissa's own exponent.
GIANT = [
    # (nzeros, head, tail, neg, expected magnitude class, description)
    (53687000, ".", "1e536870915", False, "inf", "10^(536870915-53687001): fraction zeros must not cancel a clamped exponent"),
    (13421700, "0x.", "1p536870915", False, "inf", "2^(536870915-4*13421701): hex float, ex *= 4"),
    (13421700, "-0x.", "1p536870915", True, "inf", "negative sign"),
    (53687000, ".", "1e53687001", False, "one", "10^0 = 1 exactly: exponent just below the clamp cancels exactly"),
    (1000000, ".", "1e1000001", False, "one", "10^0 = 1 exactly (1 MB)"),
]


ENV = dict(os.environ, ASAN_OPTIONS="detect_leaks=0:abort_on_error=0", UBSAN_OPTIONS="print_stacktrace=1")
CHUNK = 3000


def hexs(b):
    return b.hex()


def num_line(text, base):
    b = text if isinstance(text, bytes) else text.encode("latin-1")
    return ("num %d %s" % (base, b.hex())).strip()


def run_chunks(exe, lines, env=None, timeout=900):
    """run a line-protocol program over `lines` in parallel chunks; returns (outputs or None per chunk list, crashes)"""
    chunks = [lines[i:i + CHUNK] for i in range(0, len(lines), CHUNK)]

    def one(ch):
        rc, out, err = run_cmd([exe], input=("\n".join(ch) + "\n").encode(), timeout=timeout, env=env)
        o = out.decode(errors="replace").splitlines()
        return rc, o, err.decode(errors="replace")
    with cf.ThreadPoolExecutor(16) as ex:
        res = list(ex.map(one, chunks))
    outs, crashes = [], []
    for ch, (rc, o, err) in zip(chunks, res):
        if rc != 0 or len(o) != len(ch):
            # locate the offending line: first line without output, confirm by running it alone
            k = min(len(o), len(ch) - 1)
            bad = ch[k]
            rc1, o1, e1 = run_cmd([exe], input=(bad + "\n").encode(), timeout=120, env=env)
            if rc1 == 0 and len(o1.decode(errors="replace").splitlines()) == 1:
                # not reproducible alone: bisect prefixes
                lo, hi = 0, len(ch)
                while hi - lo > 1:
                    mid = (lo + hi) // 2
                    rc2, o2, e2 = run_cmd([exe], input=("\n".join(ch[lo:mid]) + "\n").encode(), timeout=timeout, env=env)
                    if rc2 != 0:
                        hi = mid
                    else:
                        lo = mid
                bad = ch[lo]
                e1 = err.encode()
                rc1 = rc
            crashes.append(dict(line=bad, rc=rc1, stderr=(e1.decode(errors="replace") if isinstance(e1, bytes) else e1)[-2500:]))
            o = o[:len(ch)] + ["<no-output>"] * (len(ch) - len(o))
        outs += o
    return outs, crashes


def build_cases(ctx, scale):
    """returns list of case dicts: line (protocol), kind, and oracle data"""
    rng = ctx.rng
    cases = []
    # corpus first
    cdir = os.path.join(VERIF, "corpus", "C13")
    for fn in sorted(os.listdir(cdir)) if os.path.isdir(cdir) else []:
        if fn.endswith(".json"):
            for c in json.load(open(os.path.join(cdir, fn))):
                c = dict(c)
                for k in ("M", "E", "P"):
                    if isinstance(c.get(k), str):
                        c[k] = int(c[k])
                c["line"] = num_line(c["text"], c["base"])
                c.setdefault("kind", "corpus")
                cases.append(c)
    for (t, neg, M, b, E, P) in G.ODD_VALID:
        cases.append(dict(line=num_line(t, 0), text=t, base=0, neg=neg, M=M, b=b, E=E, P=P, kind="odd-valid"))
    for t in G.INVALID:
        cases.append(dict(line=num_line(t, 0), text=t, base=0, kind="invalid"))
    texts = []
    for _ in range(int(30000 * scale)):
        c = G.structured(rng)
        c["line"] = num_line(c["text"], c["base"])
        cases.append(c)
        if len(c["text"]) < 40:
            texts.append(c["text"])
    for _ in range(int(12000 * scale)):
        c = G.from_double(rng)
        c["line"] = num_line(c["text"], c["base"])
        cases.append(c)
    for _ in range(int(1500 * scale)):
        c = G.near_overflow_long(rng)
        c["line"] = num_line(c["text"], c["base"])
        cases.append(c)
    for _ in range(int(20000 * scale)):
        bts, base = G.malformed(rng, texts)
        cases.append(dict(line=num_line(bts, base), kind="malformed"))
    # 64-bit integers
    for t in G.INT_INVALID:
        for op in ("i64", "u64"):
            cases.append(dict(line=(op + " " + t.encode("latin-1").hex()).strip(), kind="int-invalid", text=t))
    for _ in range(int(12000 * scale)):
        c = G.int_case(rng)
        for op in ("i64", "u64"):
            cases.append(dict(line=op + " " + c["text"].encode().hex(), kind="int", text=c["text"], value=c["value"], neg=c["neg"], signed=op == "i64"))
    for _ in range(int(4000 * scale)):
        bts, _b = G.malformed(rng, texts)
        for op in ("i64", "u64"):
            cases.append(dict(line=(op + " " + bts.hex()).strip(), kind="int-malformed"))
    for _ in range(int(3000 * scale)):
        r = rng.below(4)
        v = rng.below(1 << 64) if r < 2 else rng.choice([0, 2 ** 63 - 1, 2 ** 63, 2 ** 64 - 1, 2 ** 32, 10 ** 18]) if r == 2 else rng.below(1 << rng.range(1, 64))
        cases.append(dict(line="u64rt %d" % v, kind="u64rt", value=v))
        s = v - 2 ** 64 if v >= 2 ** 63 else v
        cases.append(dict(line="s64rt %d" % s, kind="s64rt", value=s))
    # printing
    for u in G.print_doubles(rng, int(25000 * scale)):
        cases.append(dict(line="p17 %016x" % u, kind="p17", bits=u))
    pd = G.print_doubles(rng, int(9000 * scale))
    for u in pd:
        cases.append(dict(line="pstr %016x" % u, kind="pstr", bits=u))
    for u in G.int_doubles(rng, int(4000 * scale)):
        cases.append(dict(line="pint %016x" % u, kind="pint", bits=u))
    # multi-megabyte literals around the exponent clamp (implementation + oracle only)
    for (nz, head, tail, neg, want, desc) in (GIANT[:4] if scale < 1.5 else GIANT):
        cases.append(dict(line="bigz %d %s %s" % (nz, head.encode().hex(), tail.encode().hex()), kind="giant", nz=nz, head=head, tail=tail,
                          neg=neg, want=want, desc=desc))
    # scanner plumbing state handed to convert(): sign, radix, ex, mantissa digit array (correspondence)
    lits = [c for c in cases if c["kind"] in LITERAL_KINDS + ("malformed", "invalid") and c["line"].startswith("num ")]
    for c in lits:
        if len(c["line"]) < 900 and (c["kind"] != "malformed" or rng.chance(1, 3)):
            cases.append(dict(line="st " + c["line"][4:], kind="plumbing"))
    # internal state: digit array after the scaling loops
    for _ in range(int(4000 * scale)):
        b = G.pick_radix(rng)
        n = G.mant_len(rng, 300)
        digs = G.DIGS[rng.range(1, b - 1)] + G.rand_digits(rng, b, n - 1)
        ex = rng.range(-60, 60) if rng.chance(2, 3) else rng.range(-700, 400)
        cases.append(dict(line="big %d %d %s" % (b, ex, digs.encode().hex()), kind="big", b=b, ex=ex, M=int(digs, b)))
    return cases


def oracle(c, res):
    """direct oracle on the implementation's answer `res` for case c; None if fine else reason"""
    k = c["kind"]
    if k in LITERAL_KINDS:
        return G.judge(res, c["neg"], c["M"], c["b"], c["E"], c["P"])
    if k == "giant":
        want = {"inf": G.INF_BITS, "one": 0x3FF0000000000000}[c["want"]] | ((1 << 63) if c["neg"] else 0)
        if res != "ok %016x" % want:
            return "multi-megabyte literal (%s + '0'*%d + %s: %s) must read as %016x" % (c["head"], c["nz"], c["tail"], c["desc"], want)
        return None
    if k == "invalid" or k == "int-invalid":
        return None if res == "err" else "invalid literal accepted"
    if k == "int":
        return G.judge_int(res, c["text"], c["value"], c["neg"], c["signed"])
    if k in ("u64rt", "s64rt"):
        want = "%d ok %d" % (c["value"], c["value"])
        return None if res == want else "integer text round trip: expected %r" % want
    if k == "p17":
        parts = res.split(" ")
        if len(parts) != 6:
            return "unexpected output shape"
        t1, back = parts[0], parts[5]
        if len(set(parts[:5])) != 1:
            return "the 17-digit printing paths (dtostr, %j, %.17g via formatc and string/format) disagree"
        if back != "%016x" % c["bits"]:
            return "17-digit text does not read back as the identical double"
        try:
            if G.bits_of_float(float(t1)) != c["bits"]:
                return "17-digit text is not a correct decimal of the double (python float() disagrees)"
        except ValueError:
            return "17-digit text unparsable"
        return None
    if k == "pstr":
        # 15-digit default printing is lossy by design; the property only asks integers up to 2^53 to be exact
        parts = res.split(" ")
        if len(parts) != 2 or parts[0] != parts[1]:
            return "string and describe disagree"
        x = G.float_of_bits(c["bits"])
        if x == int(x) and abs(x) <= 2 ** 53:
            want = str(int(x)) if x != 0 else "0"
            if parts[0] != want:
                return "integer-valued double prints inexactly through string (expected %s)" % want
        return None
    if k == "pint":
        parts = res.split(" ")
        if len(parts) != 13:
            return "unexpected output shape"
        x = G.float_of_bits(c["bits"])
        want = str(int(x))
        if want == "-0":
            want = "0"
        names = ["string", "describe", "%v", "%q", "%p", "%j", "fmt %v", "fmt %V", "fmt %q", "fmt %p", "fmt %j", "fmt %d"]
        for nm, got in zip(names, parts[:12]):
            w = want
            if nm.endswith("%j") and c["bits"] == 1 << 63:
                w = "-0"        # jdn keeps the sign of zero (reads back as -0.0)
            if got != w:
                return "integer-valued double prints inexactly through %s (expected %s)" % (nm, w)
        wb = c["bits"] if x != 0 else 0
        if parts[12] != "%016x" % wb:
            return "printed integer does not read back"
        return None
    if k == "big":
        # the array's top three digits / length must agree with the exact scaled value (low two digits may be garbage:
        # see bignat_div); checked fully by correspondence, here only the magnitude
        return None
    return None


def run(ctx):
    quick = ctx.tier == "quick"
    broken = []
    # (A) regenerate
    hflags = []
    try:
        ctx.build.boot()
        ctx.gen("Strtod.lean", gen_strtod.render(ctx.build.tree))
        _tab, _c, _l = gen_strtod.extract(ctx.build.tree)
        hflags = ["-DC13_SHAMT_BASE=%d" % _c["shamtBase"], "-DC13_SHAMT_DIV=%d" % _c["shamtDiv"]]
    except ExtractError as e:
        broken.append("translator tools/gen/strtod.py: %s" % e)
        ctx.broken.append(broken[-1])
    except BuildError as e:
        ctx.violation("build-failed", {"kind": "build", "error": str(e)}, found=False, what="tree does not build")
        return ctx.finish("proof", {"evaluations": 0, "distinct_nontrivial": 0})
    # (B,C) kernel check + audit
    broken += ctx.obligations("JanetModel.Props.C13", THEOREMS)
    if not quick:
        ok, log = ctx.leanchecker("JanetModel.Props.C13")
        if not ok:
            broken.append("leanchecker JanetModel.Props.C13: " + log[-300:])
    # (D) correspondence + (E) oracle
    exe = ctx.driver()
    try:
        hx = ctx.build.harness("asan", "c13scan", [os.path.join(VERIF, "harness/C13/scan.c")], extra_cflags=hflags)
    except BuildError as e:
        hx = None
        broken.append("harness does not compile against the current tree: %s" % str(e)[-400:])
    scale = 1.0 if quick else 8.0
    if broken and quick:
        scale = 3.0          # something no longer checks: search harder for a concrete failing input
    cases = build_cases(ctx, scale)
    lines = [c["line"] for c in cases]
    diffs, fails, crashes = [], [], []
    impl = None
    if hx:
        impl, crashes = run_chunks(hx, lines, env=ENV)
        for cr in crashes[:3]:
            ctx.violation("crash:" + cr["line"][:60], {"kind": "crash", "line": cr["line"], "rc": cr["rc"], "stderr": cr["stderr"]},
                          what="implementation crashed / sanitizer report on `%s`" % cr["line"][:100])
    model = None
    den_checked = den_bad = 0
    if exe:
        midx = [i for i, c in enumerate(cases) if c["kind"] != "giant"]
        mres, mcr = run_chunks(exe, [lines[i] for i in midx])
        if mcr:
            broken.append("model driver failed on %r" % mcr[0]["line"][:80])
        model = [None] * len(cases)
        for i, r in zip(midx, mres):
            model[i] = r
        # the SPEC value `denote` of every literal whose value is known by construction must be that value
        from fractions import Fraction
        dl = [c for c in cases if c["kind"] in LITERAL_KINDS and c.get("M") is not None and len(c.get("text", "")) <= 300
              and abs(c["E"]) <= 3000 and abs(c["P"]) <= 4000]
        dres, dcr = run_chunks(exe, ["den " + c["line"][4:] for c in dl])
        for c, r in zip(dl, dres):
            try:
                dn, dM, db, dE = [int(x) for x in r.split(" ")]
                if dM == 0 or c["M"] == 0:
                    got = Fraction(0) if dM == 0 else Fraction(1)
                    c = dict(c, E=0, P=0)
                elif abs(dE) > 20000:
                    raise ValueError("exponent")
                else:
                    got = Fraction(dM) * Fraction(db) ** dE
                ok = (got == Fraction(c["M"]) * Fraction(c["b"]) ** c["E"] * Fraction(2) ** c["P"]) and bool(dn) == bool(c["neg"])
            except (ValueError, ZeroDivisionError):
                ok = False
            den_checked += 1
            if not ok:
                den_bad += 1
                if den_bad == 1:
                    broken.append("spec `denote` disagrees with the by-construction value of %r: %r" % (c["text"][:80], r))
                    ctx.broken.append(broken[-1])
    if impl is not None and model is not None:
        for c, a, b in zip(cases, impl, model):
            if b is not None and a != b:
                diffs.append({"line": c["line"], "kind": c["kind"], "text": c.get("text"), "impl": a, "model": b})
        if diffs:
            broken.append("correspondence model/impl: %d differing lines, first %r" % (len(diffs), diffs[0]))
            ctx.broken.append(broken[-1])
    kinds = {}
    nearest_checked = nearest_bad = 0
    nearest_samples = []
    if impl is not None:
        for c, a in zip(cases, impl):
            kinds[c["kind"]] = kinds.get(c["kind"], 0) + 1
            why = oracle(c, a)
            if why:
                fails.append((c, a, why))
            elif "M" in c and c.get("M") is not None and a.startswith("ok ") and len(c.get("text", "")) <= 400:
                # informational (stronger than the property): in the normal range the reader is nearest, ties away from zero
                ne = G.nearest_expected(c["M"], c["b"], c["E"], c["P"])
                if ne is not None:
                    nearest_checked += 1
                    if int(a[3:], 16) & (2 ** 63 - 1) != ne:
                        nearest_bad += 1
                        if len(nearest_samples) < 5:
                            nearest_samples.append((c["text"][:80], a))
        if nearest_bad:
            broken.append("reader not nearest (ties away) in the normal range on %d literals, e.g. %r — contradicts NearestUpN of the model" % (nearest_bad, nearest_samples[0]))
            ctx.broken.append(broken[-1])
    # report: one violation per (kind, reason class), shortest input as replay
    seen = {}
    import re as _re

    def cls(w):
        return _re.sub(r"\s+", " ", _re.sub(r"-?\b[0-9a-f]*\d[0-9a-f]*\b", "", w.split("(")[0])).strip()
    for c, a, why in fails:
        key = (c["kind"] if c["kind"] not in LITERAL_KINDS else "literal",
               cls(why))
        if key not in seen or len(c["line"]) < len(seen[key][0]["line"]):
            seen[key] = (c, a, why)
    for key, (c, a, why) in sorted(seen.items(), key=lambda kv: str(kv[0])):
        n = sum(1 for c2, a2, w2 in fails if cls(w2) == key[1])
        rep = {"kind": "oracle", "case": {k: (v if not isinstance(v, int) or abs(v) < 2 ** 63 else str(v)) for k, v in c.items()}, "impl": a, "why": why, "count": n}
        ctx.violation("%s:%s" % key, rep, what="%s: %s  [%s -> %s]  (%d such cases)" % (key[0], why, (c.get("text") or c["line"])[:70], a, n))
    if not fails and not crashes and broken:
        ctx.violation("broken:" + broken[0][:80], {"kind": "broken-obligation", "broken": broken, "first_diffs": diffs[:5]}, found=False,
                      what="no longer shown to hold: " + "; ".join(broken)[:600])
    # coverage / distribution
    res_kinds = {}
    if impl is not None:
        for c, a in zip(cases, impl):
            if c["kind"] in ("structured", "structured-hexp", "from-double", "long-edge"):
                if a.startswith("ok "):
                    bits = int(a[3:], 16) & (2 ** 63 - 1)
                    cl = "zero" if bits == 0 else "inf" if bits == G.INF_BITS else "subnormal" if bits < (1 << 52) else "normal"
                else:
                    cl = "err"
                res_kinds[cl] = res_kinds.get(cl, 0) + 1
            elif c["kind"] in ("malformed", "int-malformed", "int"):
                cl = c["kind"] + ("-accepted" if a.startswith("ok") else "-rejected")
                res_kinds[cl] = res_kinds.get(cl, 0) + 1
    lit = [c for c in cases if "M" in c and "text" in c]
    exact_n = 0
    for c in lit[:20000]:
        if c["M"] is not None and G.expected(c["M"], c["b"], c["E"], c["P"])[2]:
            exact_n += 1
    radices = {}
    for c in lit:
        radices[c["b"]] = radices.get(c["b"], 0) + 1
    cov = {
        "evaluations": len(lines),
        "distinct_nontrivial": len(set(lines)),
        "rule": "one evaluation = one protocol line run on the real function(s) under ASan+UBSan, on the Lean model, and judged by the exact-arithmetic oracle; "
                "non-trivial = distinct line.  Literals: structured (value known by construction), doubles' exact expansions / midpoints / +-1 unit, "
                "long mantissas at the range edges, odd-but-valid, invalid-by-construction, mutated/malformed (correspondence only)",
        "samples": [c.get("text") or c["line"] for c in cases if c["kind"] == "structured"][:4] + [c["line"] for c in cases if c["kind"] in ("p17", "int")][:3],
        "case_kinds": kinds, "result_classes": res_kinds, "radix_histogram": {str(k): v for k, v in sorted(radices.items())},
        "max_literal_len": max((len(c["text"]) for c in lit), default=0),
        "exactly_representable_literals_in_first_20000": exact_n,
        "correspondence_lines": len(lines) if model is not None and impl is not None else 0, "correspondence_diffs": len(diffs),
        "oracle_failures": len(fails), "crashes": len(crashes),
        "nearest_ties_away_checked_normal_range": nearest_checked, "nearest_ties_away_violations": nearest_bad,
        "denote_spec_vs_construction_checked": den_checked, "denote_spec_vs_construction_bad": den_bad,
    }
    ctx.say("cases %d  kinds %s" % (len(lines), kinds))
    ctx.say("result classes %s  diffs %d  oracle failures %d" % (res_kinds, len(diffs), len(fails)))
    return ctx.finish("proof", cov, assumptions=[
        "libm: ldexp is exact round-to-nearest-even scaling (modelled, compared bit-for-bit on every run); the log2 values are taken from the libm in "
        "use at run time (Gen/Strtod.lean log2Table) and CERTIFIED to one ulp by the kernel (log2_table_within_1ulp) - no longer an assumption",
        "LibcPrinted17 (hypothesis of print17_roundtrip): snprintf %.17g prints a decimal within half a unit in its 17th significant digit of the "
        "double (compared on every p17 case); that every text of the %.17g shape is accepted by the scanner is proved (printed_text_accepted)",
        "libc_fixed0_exact: snprintf %.0f of an integer-valued double prints its exact decimal expansion (compared on every run)",
        "unsigned wrap-freedom of the BigNat routines is PROVED (wrap_free: the C-typed model, widths regenerated from the declarations and casts, equals "
        "the unbounded model on every input); signed int32_t products PROVED in range for every accepted literal (convert_int32_in_range: exponent, n*31+16, base^4, and on the negative branch shamt*31, bignat_extra's capFactor*newn, 31*n in bignat_extract - bounded through the tiny short-circuit and the length limit; the positive-branch bignat_append growth is bounded by the huge short-circuit, model/correspondence only)",
        "ClampSafe is discharged by clamp_safe from the regenerated clamp constants (eeLimit, eeSat)",
    ])


def replay(ctx, path):
    r = json.load(open(path))
    print(json.dumps(r, indent=1)[:1500])
    c = r.get("case")
    line = (c or {}).get("line") or r.get("line")
    if not line:
        return run(ctx)
    hx = ctx.build.harness("asan", "c13scan", [os.path.join(VERIF, "harness/C13/scan.c")])
    rc, out, err = run_cmd([hx], input=(line + "\n").encode(), timeout=120, env=ENV)
    res = out.decode(errors="replace").strip()
    print("implementation:", res, "rc", rc)
    if rc != 0:
        print(err.decode(errors="replace")[-1500:])
        ctx.violation(r.get("signature", "crash"), r, what="replay: still crashes")
        return ctx.finish("proof", {"evaluations": 1, "distinct_nontrivial": 1, "rule": "replay", "samples": [line]})
    if c:
        for k in ("M", "E", "P", "value"):
            if isinstance(c.get(k), str):
                c[k] = int(c[k])
        why = oracle(c, res)
        print("oracle:", why or "ok")
        if why:
            ctx.violation(r.get("signature", "replay"), r, what="replay: " + why)
    return ctx.finish("proof", {"evaluations": 1, "distinct_nontrivial": 1, "rule": "replay of one case", "samples": [line]})
