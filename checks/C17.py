"""C17 - string, buffer and sequence library functions match their reference definitions.

Pipeline:  (A) regenerate Gen/Lib.lean (range-decode / trim / case constants from capi.c, string.c, buffer.c)
           (B,C) kernel-check Props/C17 (range decode, aliasing, algebraic laws, KMP = naive, sort) + axiom audit
           (D) correspondence: generated calls run on the real janet (ASan+UBSan) and on the Lean driver jm_c17
           (E) direct oracle independent of the model: python reference implementations of the same calls;
               sort output must be an ordered permutation; inputs re-read after every call.
"""
import concurrent.futures as cf
import json
import os
import shutil
import tempfile

from vlib.core import run_cmd, VERIF
from vlib.build import BuildError
from harness.C17 import c17lib as L
from harness.C17.gen import Gen

THEOREMS = []
try:
    from harness.C17.theorems import THEOREMS  # list of fully qualified names, kept next to the harness
except ImportError:
    pass

ENV = dict(os.environ, ASAN_OPTIONS="detect_leaks=0:abort_on_error=0", UBSAN_OPTIONS="print_stacktrace=0:halt_on_error=1")
PRELUDE = os.path.join(VERIF, "harness/C17/prelude.janet")
CORPUS = os.path.join(VERIF, "corpus/C17")
CHUNK = 1500


CRASH_TOTAL = [0]


def run_janet(janet, cases, workdir, tag, timeout=300):
    """Run cases (list of (id, case)) in one janet process; on a crash continue after the crashing case.
    Returns {id: line-without-id} and a list of crash records."""
    out, crashes = {}, []
    todo = list(cases)
    prelude = open(PRELUDE).read()
    n = 0
    while todo:
        n += 1
        path = os.path.join(workdir, "%s-%d.janet" % (tag, n))
        with open(path, "w") as f:
            f.write(prelude)
            f.write("\n")
            for cid, c in todo:
                f.write(L.janet_case(cid, c))
                f.write("\n")
        rc, so, se = run_cmd([janet, path], timeout=timeout, env=ENV)
        lines = so.decode(errors="replace").splitlines()
        got = 0
        for ln in lines:
            sp = ln.split(" ", 1)
            if len(sp) == 2 and sp[0].isdigit() and got < len(todo) and int(sp[0]) == todo[got][0]:
                out[todo[got][0]] = sp[1]
                got += 1
            else:
                break
        if got == len(todo) and rc == 0:
            break
        if got >= len(todo):
            # all cases answered but the process failed at exit
            crashes.append({"id": None, "rc": rc, "stderr": se.decode(errors="replace")[-1500:]})
            break
        cid, c = todo[got]
        CRASH_TOTAL[0] += 1
        if len(crashes) >= 6 or CRASH_TOTAL[0] > 60:
            # the tree is badly broken for this chunk; enough evidence, do not restart the interpreter hundreds of times
            break
        crashes.append({"id": cid, "case": L.line(c), "janet": L.janet_case(cid, c), "rc": rc,
                        "stderr": se.decode(errors="replace")[-1500:], "timeout": rc is None})
        todo = todo[got + 1:]
    return out, crashes


def kmp_exhaustive_impl(janet, maxpat, maxlen):
    """every pattern over {a,b} up to maxpat x every text up to maxlen on the implementation vs python; returns
    (evaluations, list of patterns whose checksum differs / crash records)"""
    import itertools
    pats = [bytes(p) for n in range(1, maxpat + 1) for p in itertools.product(b"ab", repeat=n)]
    texts = [bytes(t) for n in range(0, maxlen + 1) for t in itertools.product(b"ba", repeat=n)]
    # janet enumerates `code` with bit k = 0 -> 'a'; reproduce that order
    texts = []
    for n in range(0, maxlen + 1):
        for code in range(1 << n):
            texts.append(bytes(97 if not (code >> k) & 1 else 98 for k in range(n)))
    M = 1000003

    def expect(pat):
        c = 7
        for t in texts:
            i = t.find(pat)
            while i >= 0:
                c = (c * 31 + i + 1) % M
                i = t.find(pat, i + 1)
            c = (c * 31) % M
            c = (c * 31 + 2 + (t.find(pat, 1) if len(t) >= 1 else -1)) % M
            r = t.replace(pat, b"xy")
            c = (c * 31 + len(r)) % M
            for ch in r:
                c = (c * 31 + ch) % M
            parts = t.split(pat, 2)
            c = (c * 31 + len(parts)) % M
            for p_ in parts:
                c = (c * 31 + len(p_)) % M
        return c
    script = os.path.join(VERIF, "harness/C17/kmp_exhaustive.janet")
    groups = [pats[i::16] for i in range(16)]

    def one(g):
        if not g:
            return 0, b"", b""
        return run_cmd([janet, script, str(maxlen)] + [p.hex() for p in g], timeout=1500, env=ENV)
    bad = []
    with cf.ThreadPoolExecutor(16) as ex:
        futs = [ex.submit(one, g) for g in groups]
        exp = {p.hex(): expect(p) for p in pats}
        for g, fu in zip(groups, futs):
            rc, so, se = fu.result()
            got = dict(l.split() for l in so.decode(errors="replace").splitlines() if len(l.split()) == 2)
            for p in g:
                h = p.hex()
                if h not in got:
                    bad.append({"pattern": h, "why": "no result (rc=%s) %s" % (rc, se.decode(errors="replace")[-300:])})
                elif int(got[h]) != exp[h]:
                    bad.append({"pattern": h, "why": "checksum differs"})
    return len(pats) * len(texts), bad, texts


def kmp_minimise(janet, pat_hex, texts):
    """find the first text on which find-all / replace-all / split differ from python for this pattern"""
    pat = bytes.fromhex(pat_hex)
    for t in texts:
        for f, a in (("string/find-all", [L.S(pat), L.S(t)]), ("string/replace-all", [L.S(pat), L.S(b"xy"), L.S(t)]),
                     ("string/split", [L.S(pat), L.S(t), L.I(0), L.I(3)]), ("string/find", [L.S(pat), L.S(t), L.I(1)])):
            yield (f, a)


def errclass(msg_hex):
    try:
        m = bytes.fromhex(msg_hex).decode(errors="replace")
    except ValueError:
        return "?"
    for key, cl in (("out of range", "range"), ("bad slot", "type"), ("arity", "arity"), ("expected", "type"),
                    ("overflow", "overflow"), ("too long", "overflow"), ("too large", "overflow")):
        if key in m:
            return cl
    return "other"


def split_impl(line):
    """'ok v | a | b'  /  'err | a | b ! hex'  ->  (body, msgclass)"""
    if " ! " in line:
        body, msg = line.rsplit(" ! ", 1)
        return body, errclass(msg)
    return line, None


def corpus_cases():
    out = []
    if os.path.isdir(CORPUS):
        for fn in sorted(os.listdir(CORPUS)):
            if fn.endswith(".txt"):
                for ln in open(os.path.join(CORPUS, fn)):
                    ln = ln.strip()
                    if ln and not ln.startswith("#"):
                        out.append(L.parse_line(ln))
    return out


def evaluate(ctx, janet, exe, cases, workdir, tag):
    """Run the three evaluators on `cases`; returns (records, crashes) where a record is a dict per case."""
    ided = list(enumerate(cases))
    model_out = ctx.model([L.line(c) for c in cases], exe=exe) if exe else None
    # a comparator that is not a strict order can make sort-help recurse without bound (the fiber stack then grows towards
    # 2^31 slots); the model predicts this (fuel exhausted) and those calls are not executed on the implementation
    runnable = [(cid, c) for cid, c in ided if not (model_out and model_out[cid] == "sortfuel")]
    if not exe:
        runnable = [(cid, c) for cid, c in runnable if not (c[0] in ("sort", "sorted") and len(c[1]) > 1 and c[1][1][0] == 'F'
                                                           and c[1][1][1] not in L.STRICT_WEAK)]
    chunks = [runnable[i:i + CHUNK] for i in range(0, len(runnable), CHUNK)]
    impl, crashes = {}, []
    with cf.ThreadPoolExecutor(16) as ex:
        futs = [ex.submit(run_janet, janet, ch, workdir, "%s-%d" % (tag, k), 60) for k, ch in enumerate(chunks)]
        for fu in futs:
            o, cr = fu.result()
            impl.update(o)
            crashes += cr
    recs = []
    for cid, c in ided:
        rec = {"id": cid, "case": c, "line": L.line(c), "impl": impl.get(cid), "model": model_out[cid] if model_out else None}
        orc = L.oracle(c)
        rec["oracle"] = orc
        recs.append(rec)
    return recs, crashes


def judge(rec):
    """-> list of (kind, detail) problems for one evaluated case.  kind 'oracle' = the implementation disagrees with the
    python reference definition (a property violation); kind 'model' = Lean model and implementation disagree."""
    probs = []
    if rec["impl"] is None:
        return probs
    body, cls = split_impl(rec["impl"])
    f = rec["case"][0]
    if f in ("sort", "sorted", "sort-by", "sorted-by"):
        why = L.check_sort(rec["case"], rec["impl"])
        if why:
            probs.append(("oracle", why))
    orc = rec["oracle"]
    if orc is not None:
        if orc[0] == "ok":
            exp = L.render(orc)
            if body != exp:
                probs.append(("oracle", "expected %s" % exp))
        else:
            if not body.startswith("err"):
                probs.append(("oracle", "expected an error"))
            elif orc[1] is not None:
                exp = L.render(("err", orc[1]))
                if body != exp:
                    probs.append(("oracle", "arguments after the failed call: expected %s" % exp))
    nul = L.format_unexplained_nul(rec["case"], body)
    if nul:
        probs.append(("oracle", nul))
    if f.startswith("@") and body.startswith("err") and cls != "arity":
        probs.append(("oracle", "expected an arity error (the call is outside the documented arity), got a different error"))
    m = rec["model"]
    if m is not None and m not in ("skip", "sortfuel"):
        if m == "sorterr":
            if not body.startswith("err"):
                probs.append(("model", "model: comparator runs the partition scan off the array (error); impl returned"))
        elif m != body:
            probs.append(("model", "model says %s" % m))
    return probs


def run(ctx):
    quick = ctx.tier == "quick"
    broken = []
    gen_mod = None
    # (A) regenerate
    try:
        from tools.gen import lib as gen_mod
        from tools.gen import libsrc as src_mod
    except ImportError:
        gen_mod = src_mod = None
    try:
        ctx.build.boot()
        if gen_mod is not None:
            ctx.gen("Lib.lean", gen_mod.render(ctx.build.tree))
            # normalised source text of every mirrored C function / boot.janet definition (compared in Lib/SrcTie.lean)
            ctx.gen("LibSrc.lean", src_mod.render(ctx.build.tree))
    except BuildError as e:
        ctx.violation("build-failed", {"kind": "build", "error": str(e)}, found=False, what="tree does not build")
        return ctx.finish("proof", {"evaluations": 0, "distinct_nontrivial": 0})
    except Exception as e:  # ExtractError
        if e.__class__.__name__ != "ExtractError":
            raise
        broken.append("translator tools/gen/lib.py: %s" % e)
        ctx.broken.append(broken[-1])
    # (B,C)
    if THEOREMS:
        broken += ctx.obligations("JanetModel.Props.C17", THEOREMS)
        if src_mod is not None:
            # one theorem per mirrored function: current source text = the text the mirror was transcribed from
            tb = ctx.obligations("JanetModel.Lib.SrcTie", src_mod.tie_theorems())
            if tb:
                changed = changed_sources(ctx, src_mod)
                msg = "source text of mirrored function(s) changed since the mirror was transcribed: " + ", ".join(changed or ["?"])
                broken.append(msg)
                ctx.broken.append(msg)
        if not quick:
            ok, log = ctx.leanchecker("JanetModel.Props.C17")
            if not ok:
                broken.append("leanchecker JanetModel.Props.C17: " + log[-300:])
    exe = ctx.driver()
    asan = ctx.try_variant("asan")
    if asan is None:
        return ctx.finish("proof", {"evaluations": 0, "distinct_nontrivial": 0})
    janet = asan["janet"]
    workdir = tempfile.mkdtemp(prefix="c17-", dir="/var/tmp")
    try:
        return _run(ctx, quick, broken, exe, janet, workdir)
    finally:
        shutil.rmtree(workdir, ignore_errors=True)


def _run(ctx, quick, broken, exe, janet, workdir):
    g = Gen(ctx.rng.fork("c17-cases"))
    n = 60000 if quick else 1000000
    if broken:
        n *= 3      # something in A-C broke: search harder for a failing input
    cases = corpus_cases()
    ncorpus = len(cases)
    cases += [g.case() for _ in range(n)]
    # ---- arity family: every C library function of the list, through a first-class value, with fewer arguments than its
    # documented minimum (0 … min-1, a prefix of a well-typed call) and with one more than its documented maximum
    arity = L.documented_arity(ctx.build.tree)
    ar_cases, ar_need = [], {}
    doc_vs_code = {}
    for f, (lo, hi, code) in arity.items():
        # too few arguments: below the documented minimum (and below the one in the code, where it is literal)
        lo_eff = lo if code is None else min(lo, code[0])
        ar_need[f] = {("u", k): 2 for k in range(lo_eff)}
        # too many: only where documentation and code agree on a maximum (a usage string that omits an accepted optional
        # argument is a documentation inaccuracy, listed in the evidence, not a violation)
        if code is not None and (lo, hi) != code:
            doc_vs_code[f] = {"documented": [lo, hi], "code": list(code)}
        if hi is not None and code is not None and code[1] == hi:
            ar_need[f][("o", hi + 1)] = 2
        arity[f] = (lo_eff, hi)
    for c in cases[ncorpus:]:
        f, args = c
        need = ar_need.get(f)
        if not need or not any(need.values()) or any(a[0] == 'r' for a in args):
            continue
        lo, hi = arity[f]
        wanted = [k for k in range(0, min(lo, len(args) + 1)) if need.get(("u", k))]
        over = hi is not None and len(args) == hi and need.get(("o", hi + 1))
        if not wanted and not over:
            continue
        try:
            o = L.oracle(c)
        except Exception:
            o = None
        if not o or o[0] != "ok":
            continue                      # only prefixes / extensions of calls that are well-typed
        for k in wanted:
            need[("u", k)] -= 1
            ar_cases.append(("@" + f, list(args[:k])))
        if over:
            need[("o", hi + 1)] -= 1
            ar_cases.append(("@" + f, list(args) + [L.I(0)]))
    # every function of string.c / buffer.c / array.c / tuple.c with a documented minimum >= 1, called with no argument at all
    # (needs no well-typed prefix, so also the functions that the generators do not otherwise call)
    lib4 = L.documented_arity(ctx.build.tree, files=("src/core/string.c", "src/core/buffer.c", "src/core/array.c", "src/core/tuple.c"))
    have0 = set(f for f, a in ar_cases if not a)
    for f in sorted(lib4):
        if arity.get(f, (0, 0))[0] >= 1 and ("@" + f) not in have0:
            ar_cases.append(("@" + f, []))
    cases += ar_cases
    # ---- item-length boundary family of the formatters: one directive rendered to 253 … 258 bytes (MAX_ITEM = 256) or to the
    # longest rendering its kind can reach; expected: the exact rendering below 256 bytes, an error from 256 on
    bd_first = len(cases)
    bd_cases = Gen(ctx.rng.fork("c17-format-boundary")).boundary_cases((400 if quick else 6000) * (3 if broken else 1))
    cases += bd_cases
    ctx.say("running %d cases (%d corpus) on janet(asan), model driver and python oracle" % (len(cases), ncorpus))
    recs, crashes = evaluate(ctx, janet, exe, cases, workdir, "main")
    # ---- correspondence of the item-step mirror (Lib/FormatC `formatbvItem` / `bufferFormatItem`, constants and operator from
    # the current pp.c): for every single-directive member of the family, python gives the length of the complete rendering,
    # the mirror says panic / number of bytes appended, the implementation must do the same
    item_info = {"compared": 0, "lengths": {}, "diffs": 0}
    if exe:
        singles = [(r, L.format_single_item_length(r["case"])) for r in recs[bd_first:bd_first + len(bd_cases)]]
        singles = [(r, n) for r, n in singles if n is not None and r["impl"] is not None]
        lens = sorted(set(n for _, n in singles))
        ans = dict(zip(lens, ctx.model(["fmt-item bf %d" % n for n in lens], exe=exe))) if lens else {}
        ans_bv = dict(zip(lens, ctx.model(["fmt-item bv %d" % n for n in lens], exe=exe))) if lens else {}
        first = None
        for r, n in singles:
            # the mirror is run on an item of `n` bytes '0': compare outcome, number of bytes appended, and whether the last
            # appended byte is a NUL (the terminator) or a byte of the item
            body, _ = split_impl(r["impl"])
            if body.startswith("ok s"):
                res = bytes.fromhex(body[4:].split(" ", 1)[0])
                got = "ok %d %s" % (len(res), "nul" if res[-1:] == b"\0" else "item")
            else:
                got = "panic"
            exp = ans[n].split()
            want = "ok %s %s" % (exp[1], "nul" if exp[2] == "0" else "item") if exp[0] == "ok" else ans[n]
            item_info["compared"] += 1
            key = str(n) if 250 <= n <= 260 else ("<250" if n < 250 else ">260")
            item_info["lengths"][key] = item_info["lengths"].get(key, 0) + 1
            if got != want and first is None:
                first = (r["line"], n, ans[n], got)
            if got != want:
                item_info["diffs"] += 1
        if first:
            broken.append("correspondence item step (Lib/FormatC.bufferFormatItem) vs implementation: %d differing calls, first `%s`: item of %d bytes, mirror `%s`, implementation `%s`"
                          % (item_info["diffs"], first[0][:120], first[1], first[2], first[3]))
            ctx.broken.append(broken[-1])
        if ans_bv != ans:
            broken.append("item step of janet_formatbv and of janet_buffer_format differ (mirrors disagree on some length)")
            ctx.broken.append(broken[-1])
    # ---- the arity family once more on the asan_debugstack variant (JANET_DEBUG: the fiber stack is reallocated to its exact
    # size on every change, so a read of argv[k] with k >= argc is outside the allocation and ASan reports it even when the
    # stale slot happens to hold a value of the accepted type).  Thorough tier, or VERIF_C17_DEBUGSTACK=1.
    dbg_info = None
    if ar_cases and (not quick or os.environ.get("VERIF_C17_DEBUGSTACK")):
        dbg = ctx.try_variant("asan_debugstack")
        if dbg:
            recs_d, crashes_d = evaluate(ctx, dbg["janet"], None, ar_cases, workdir, "aritydbg")
            bad_d = [r for r in recs_d if any(k == "oracle" for k, _ in judge(r))]
            dbg_info = {"calls": len(ar_cases), "crashes": len([c for c in crashes_d if c["id"] is not None]), "non_arity_errors": len(bad_d)}
            base = len(cases)
            cases += [r["case"] for r in bad_d[:8]]
            for i, r in enumerate(bad_d[:8]):
                r["id"] = base + i
                recs.append(r)
            for cr in crashes_d:
                if cr["id"] is not None:
                    cases.append(ar_cases[cr["id"]])
                    crashes.append(dict(cr, id=len(cases) - 1))
    # ---- bounded-exhaustive: KMP mirror (Lib/Kmp.lean) = naive definitions (Lib/Spec.lean) over {a,b}
    kmp_ex = None
    if exe:
        kmp_ex = ctx.model(["kmp-exhaustive 4 9" if quick else "kmp-exhaustive 5 11"], exe=exe)[0]
        if not kmp_ex.startswith("ok "):
            broken.append("Lib/Kmp mirror differs from the naive search definition: " + kmp_ex)
            ctx.broken.append(broken[-1])
    # ---- bounded-exhaustive on the implementation: search family over {a,b} vs python
    kx_n, kx_bad, kx_texts = kmp_exhaustive_impl(janet, 6 if quick else 8, 10 if quick else 12)
    if kx_bad:
        # turn the first differing pattern into concrete failing calls through the normal pipeline
        extra = list(kmp_minimise(janet, kx_bad[0]["pattern"], kx_texts))
        recs2, crashes2 = evaluate(ctx, janet, exe, extra, workdir, "kmpx")
        bad2 = [r for r in recs2 if any(k == "oracle" for k, _ in judge(r))]
        recs += bad2[:3]
        crashes += [dict(c, id=None) for c in crashes2]
        cases += [r["case"] for r in bad2[:3]]
        for i, r in enumerate(recs[-len(bad2[:3]):] if bad2 else []):
            r["id"] = len(recs) - len(bad2[:3]) + i
        if not bad2:
            broken.append("bounded-exhaustive search check differs for pattern %s (%s)" % (kx_bad[0]["pattern"], kx_bad[0]["why"]))
            ctx.broken.append(broken[-1])
    # ---- tallies
    per_fn, outcome = {}, {"ok": 0, "err": 0}
    errkinds = {}
    n_model = n_oracle = 0
    oracle_fail, model_fail = [], []
    for rec in recs:
        f = rec["case"][0]
        d = per_fn.setdefault(f, {"cases": 0, "ok": 0, "err": 0, "model": 0, "oracle": 0, "self_alias": 0})
        d["cases"] += 1
        if any(a[0] == 'r' for a in rec["case"][1]):
            d["self_alias"] += 1
        if rec["impl"] is not None:
            body, cls = split_impl(rec["impl"])
            k = "ok" if body.startswith("ok") else "err"
            d[k] += 1
            outcome[k] += 1
            if cls:
                errkinds[cls] = errkinds.get(cls, 0) + 1
        if rec["model"] == "sortfuel":
            d["predicted_nonterminating_not_run"] = d.get("predicted_nonterminating_not_run", 0) + 1
        if rec["model"] not in (None, "skip", "sortfuel"):
            d["model"] += 1
            n_model += 1
        if rec["oracle"] is not None or f in ("sort", "sorted", "sort-by", "sorted-by"):
            d["oracle"] += 1
            n_oracle += 1
        for kind, detail in judge(rec):
            (oracle_fail if kind == "oracle" else model_fail).append((rec, detail))
    # ---- report
    os.makedirs(ctx.replay_dir, exist_ok=True)   # (scratch output directories can be purged by concurrent runs)
    seen_sigs = set()
    for cr in crashes:
        if cr["id"] is None:
            continue
        c = cases[cr["id"]]
        sig = "crash:" + c[0] + ":" + crash_shape(c)
        if sig in seen_sigs or sum(1 for x in seen_sigs if x.startswith("crash:" + c[0] + ":")) >= 2 or len(seen_sigs) > 12:
            continue
        seen_sigs.add(sig)
        ctx.violation(sig, {"kind": "crash", "case": cr["case"], "janet": cr["janet"], "rc": cr["rc"], "stderr": cr["stderr"]},
                      what="janet crashed / sanitizer abort / internal error on `%s`" % cr["janet"][:300])
    for rec, detail in oracle_fail:
        c = rec["case"]
        sig = "oracle:" + c[0] + ":" + ("args" if detail.startswith("arguments") else "error" if detail.startswith("expected an error") else "result")
        if sig in seen_sigs or len(seen_sigs) > 12:
            continue
        seen_sigs.add(sig)
        ctx.violation(sig, {"kind": "oracle", "case": rec["line"], "janet": L.janet_case(0, c), "impl": rec["impl"], "detail": detail,
                            "model": rec["model"]},
                      what="%s: implementation disagrees with the reference definition on `%s`: got `%s`, %s"
                           % (c[0], L.janet_case(0, c)[:300], (rec["impl"] or "")[:200], detail[:300]))
    if model_fail:
        broken.append("correspondence Lib/Spec vs implementation: %d differing cases, first `%s`: impl `%s`, %s"
                      % (len(model_fail), model_fail[0][0]["line"][:200], (model_fail[0][0]["impl"] or "")[:200], model_fail[0][1][:200]))
        ctx.broken.append(broken[-1])
    if broken and not (oracle_fail or [c for c in crashes if c["id"] is not None]):
        ctx.violation("broken:" + broken[0][:80],
                      {"kind": "broken-obligation", "broken": broken,
                       "first_model_diffs": [{"case": r["line"], "impl": r["impl"], "model": r["model"]} for r, _ in model_fail[:5]]},
                      found=False, what="no longer shown to hold: " + "; ".join(broken)[:600])
    sizes = {}
    for c in cases:
        for a in c[1]:
            if a[0] in L.BYTES or a[0] in ('(', '['):
                b = min(len(a[1]), 256)
                b = b if b < 10 else (b // 10) * 10
                sizes[b] = sizes.get(b, 0) + 1
    cov = {
        "evaluations": len(cases) + kx_n * 4,
        "distinct_nontrivial": len(set(r["line"] for r in recs)),
        "rule": "one evaluation = one library call with generated arguments executed on janet(asan+ubsan) and compared with "
                "(a) the Lean model driver jm_c17 (result + every argument re-read after the call) and (b) the python reference; "
                "non-trivial = distinct protocol line",
        "samples": [r["line"] for r in recs[ncorpus:ncorpus + 4]] + [r["impl"] for r in recs[ncorpus:ncorpus + 2]],
        "corpus_cases": ncorpus,
        "functions": len(per_fn),
        "per_function": {k: per_fn[k] for k in sorted(per_fn)},
        "outcomes": outcome, "error_kinds": errkinds,
        "compared_with_model": n_model, "compared_with_python_oracle": n_oracle,
        "model_diffs": len(model_fail), "oracle_diffs": len(oracle_fail), "crashes": len([c for c in crashes if c["id"] is not None]),
        "argument_sizes": {str(k): sizes[k] for k in sorted(sizes)},
        "kmp_mirror_vs_naive_exhaustive": kmp_ex,
        "c_mirror_disagreements": sum(1 for r in recs if r["model"] and "MIRROR-" in r["model"]),
        "c_mirrors_run_in_driver": "string.c: find find-all split join slice trim triml trimr repeat reverse ascii-upper ascii-lower "
                                   "has-prefix? has-suffix? check-set bytes from-bytes; buffer.c: bit bit-set bit-clear bit-toggle fill popn blit push push-at; "
                                   "array.c/tuple.c: insert remove slice concat fill tuple/join; boot.janet: take drop take-while take-until drop-while "
                                   "drop-until filter count find-index find index-of map(1,2,3 sequences) reduce reduce2 min max min-of max-of sum product reverse zipcoll partition distinct; string.c also replace replace-all "
                                   "(mirror = Spec compared on every generated call; "
                                   "a disagreement prints MIRROR-MISMATCH / MIRROR-UB and counts as a model difference)",
        "search_family_exhaustive_on_impl": {"pattern_text_pairs": kx_n, "calls": kx_n * 4, "differing_patterns": len(kx_bad)},
        "arity_family": {"calls": len(ar_cases), "functions": len(set(f for f, _ in ar_cases)),
                         "documentation_vs_code_arity": doc_vs_code, "on_asan_debugstack": dbg_info,
                         "rule": "function called through a first-class value with 0..min-1 arguments (prefix of a well-typed call) and with max+1; "
                                 "min/max from the usage string of JANET_CORE_FN; expected: an error whose message says arity"},
        "format_item_boundary_family": {"calls": len(bd_cases), "item_step_mirror_vs_impl": item_info,
                                        "rule": "one directive rendered to 253..258 bytes (MAX_ITEM 256; %f of exactly representable doubles, "
                                                "the only kind that reaches it with two-digit width/precision) or to the longest rendering of its kind; "
                                                "expected = python's exact rendering below 256 bytes, an error from 256 on; no NUL byte in any "
                                                "format result that no argument contains"},
        "tested_only": "string/format / buffer/format: the subset %% %d %i %x %X %o %c %s (flags, width, precision) has a Lean definition (Lib/Format.lean) compared with the implementation; %f %e %g are compared with python % formatting only; %v %q %p %j etc. are not exercised. Conformance of every definition to the C code is by correspondence, not proof.",
    }
    return ctx.finish("proof", cov, assumptions=[
        "Lib/Spec.lean reference definitions are the documented semantics (trusted specification, cross-checked against an independent python oracle)",
        "bytes modelled as List Nat, janet numbers as Int (int32 arguments); doubles outside that fragment are compared with python only",
        "printf-style formatting: Lean reference definition for the integer/char/string subset, conformance tested, not proved; float directives python-only",
        "range: exact comparison for integers and dyadic fractions (double arithmetic exact); other floats crash-only",
    ])


def changed_sources(ctx, src_mod):
    """names of the mirrored functions whose normalised text differs from the one recorded in Lib/SrcTie.lean"""
    import re
    try:
        tie = open(os.path.join(VERIF, "lean/JanetModel/Lib/SrcTie.lean")).read()
        want = dict(re.findall(r'theorem (\S+) : LibSrc\.\S+ = ("(?:[^"\\]|\\.)*") := rfl', tie))
        return [human for ident, human, text in src_mod.extract(ctx.build.tree) if want.get(ident) != src_mod.lean_str(text)]
    except Exception as e:   # diagnostics only
        return ["(could not compare: %s)" % e]


def crash_shape(c):
    """coarse shape of the arguments so that one defect gives one signature"""
    out = []
    for a in c[1]:
        if a[0] == 'i':
            v = a[1]
            out.append("big" if abs(v) >= 2**30 else "neg" if v < 0 else "int")
        else:
            out.append(a[0])
    return ",".join(out)


def replay(ctx, path):
    r = json.load(open(path))
    print(json.dumps(r, indent=1)[:3000])
    if "case" not in r:
        return run(ctx)
    case = L.parse_line(r["case"])
    asan = ctx.try_variant("asan")
    exe = ctx.driver()
    workdir = tempfile.mkdtemp(prefix="c17r-", dir="/var/tmp")
    try:
        recs, crashes = evaluate(ctx, asan["janet"], exe, [case], workdir, "replay")
    finally:
        shutil.rmtree(workdir, ignore_errors=True)
    bad = False
    for cr in crashes:
        print("REPLAY: crash rc=%s\n%s" % (cr["rc"], cr["stderr"][-800:]))
        bad = True
    for rec in recs:
        print("REPLAY impl  :", rec["impl"])
        print("REPLAY model :", rec["model"])
        print("REPLAY oracle:", L.render(rec["oracle"]) if rec["oracle"] else None)
        for kind, detail in judge(rec):
            print("REPLAY %s disagreement: %s" % (kind, detail))
            bad = bad or kind == "oracle"
    if bad:
        print("VIOLATION property=C17 replay=%s" % path)
    return 1 if bad else 0
