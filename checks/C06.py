"""C06 - channels conserve values, keep order, respect capacity and lose no wake-ups.

(A) tools/gen/ev.py regenerates Gen/Ev.lean from the current ev.c (operators of the capacity tests, presence of the three
    sched_id / waiting-reader checks, JANET_MAX_Q_CAPACITY; every other modelled fragment is shape-checked);
(B,C) Props/C06.lean is re-checked by the kernel over that configuration + axiom audit;
(D) correspondence: generated programs (exhaustive small families, random larger ones, corpus) are run in-process on the
    real ev.c (wrapper TU, ASan, virtual clock) and on the compiled Lean model; the complete event logs (channel queues,
    run queue, sched_ids at every operation and every loop iteration, results, final fiber states) must be identical;
    ring-buffer scripts likewise (capacity/head/tail/contents after every janet_q_* call);
(E) direct oracle of the property on the implementation's event log (harness/C06/progs.py: oracle), independent of the model.
"""
import json
import os
import subprocess
import sys
import concurrent.futures as cf

from vlib.core import run_cmd, VERIF
from vlib.build import BuildError
from tools.gen import ev as gen_ev
from tools.gen.csrc import ExtractError

sys.path.insert(0, os.path.join(VERIF, "harness", "C06"))
import progs as P  # noqa: E402

THEOREMS = [
    "JanetModel.Props.C06.queue_refines_list",
    "JanetModel.Props.C06.give_blocks_iff",
    "JanetModel.Props.C06.take_blocks_iff",
    "JanetModel.Props.C06.fifo_per_channel_partial",
    "JanetModel.Props.C06.select_exactly_one",
    "JanetModel.Props.C06.close_wakes_all",
    "JanetModel.Props.C06.conservation",
    "JanetModel.Props.C06.nothing_twice",
    "JanetModel.Props.C06.select_losing_give_value_delivered",
    "JanetModel.Props.C06.select_give_to_waiting_taker_sticks",
    "JanetModel.Props.C06.take_wakes_stale_select_writer",
    "JanetModel.Props.C06.close_wakes_stale_select_waiter",
]
SOURCE_OBLIGATIONS = [
    "JanetModel.Props.C06.chan_invariant",
    "JanetModel.Props.C06.fifo_per_channel",
    "JanetModel.Props.C06.no_lost_wakeup",
    "JanetModel.Props.C06.terminates_when_matchable",
    "JanetModel.Props.C06.suspends_registered_exactly",
    "JanetModel.Props.C06.runG_is_run",
    "JanetModel.Props.C06.registration_kept",
    "JanetModel.Props.C06.no_suspended_matchable",
    "JanetModel.Props.C06.terminates_when_matchable_full",
    "JanetModel.Props.C06.order_per_giver_handout",
    "JanetModel.Props.C06.order_per_giver_taker",
    "JanetModel.Props.C06.noSelfMatch_needed",
    "JanetModel.Props.C06.selfMatch_drops_value",
    "JanetModel.Props.C06.supervisor_event_delivered",
    "JanetModel.Props.C06.closed_supervisor_event_skipped",
    "JanetModel.Props.C06.rselect_any_order",
    "JanetModel.Props.C06.close_keeps_items_take_gets_nil",
    "JanetModel.Props.C06.full_iff_give_waits",
    "JanetModel.Props.C06.count_capacity_law",
    "JanetModel.Props.C06.current_good",
    "JanetModel.Props.C06.no_lost_wakeup_partial",
]
SOURCE_CHECKS = ["JanetModel.Props.C06.current_source_checks"]
# garbage collection of queued values: obligations on the walks of janet_chanat_mark / janet_chanat_mark_fq as extracted
MARK_OBLIGATIONS = [
    "JanetModel.Props.C06.current_mark_walks",
    "JanetModel.Props.C06.mark_visits_exactly_queued",
    "JanetModel.Props.C06.take_never_dangling",
    "JanetModel.Props.C06.waiting_fiber_never_freed",
    "JanetModel.Props.C06.queued_value_survives_collection",
    "JanetModel.Props.C06.short_walk_hands_out_freed_value",
]
# simulation list model <-> JanetQueue ring machine for whole histories (Ev/Refine*.lean); the ring replay runs in the
# driver after every step and its head/tail/capacity are part of every logged state (` g=h/t/c`)
REFINE_OBLIGATIONS = [
    "JanetModel.Props.C06.items_are_ring_contents",
    "JanetModel.Props.C06.world_items_never_dangling",
    "JanetModel.Props.C06.driver_rings_are_world_items",
]
ENV = dict(os.environ, ASAN_OPTIONS="detect_leaks=0:abort_on_error=0", UBSAN_OPTIONS="print_stacktrace=1")
NPROC = int(os.environ.get("VERIF_JOBS", "16"))
LAST_STDOUT_TAIL = {}
TIMEOUTS = []   # chunks whose harness process ran into the timeout although the program it stopped at runs alone
GEOM = {}   # program id -> (log points with a wrapped items ring, of these with count >= limit, max ring capacity,
            #                forced collections, heap payloads made, payload contents read back)


# ---------------------------------------------------------------------------------------------- running things
def run_harness_chunk(hx, items):
    """items: list of (id, seed, program) -> {id: (verdict, rng list, log)}; plus crash info"""
    data = []
    for pid, seed, prog in items:
        src = P.janet_source(prog).encode()
        data.append(b"P %s %d %d\n" % (pid.encode(), seed, len(src)) + src)
    rc, out, err = run_cmd([hx], input=b"".join(data), timeout=1200, env=ENV)
    res = {}
    if len(items) == 1:
        LAST_STDOUT_TAIL[items[0][0]] = out.decode(errors="replace")[-300:]
    for line in out.decode(errors="replace").splitlines():
        if line.startswith("S "):
            g = line.split()
            if len(g) >= 5:
                GEOM[g[1]] = tuple(int(x) for x in g[2:8])
            continue
        if not line.startswith("P "):
            continue
        parts = line.split(" ", 4)
        if len(parts) < 5:
            parts += [""] * (5 - len(parts))
        _, pid, verdict, rng, log = parts
        res[pid] = (verdict, [int(x) for x in rng[2:].split(",") if x], log)
    return rc, res, err.decode(errors="replace")


def run_harness(hx, items):
    """parallel over NPROC processes.  A chunk whose process ended early is continued: the program it stopped at is run alone
    (its own crash report), the programs after it are run as a new chunk; after MAX_CRASHES_PER_CHUNK crashes the rest of the chunk
    is run one by one up to a budget (a tree on which most programs crash is reported from the first few, not explored)."""
    MAX_CRASHES_PER_CHUNK, SINGLE_BUDGET = 6, 60
    chunks = [items[i::NPROC] for i in range(NPROC)]
    results, crashes = {}, []

    def work(chunk):
        res_all, crash_all, ncrash = {}, [], 0
        while chunk:
            rc, res, err = run_harness_chunk(hx, chunk)
            res_all.update(res)
            missing = [it for it in chunk if it[0] not in res]
            if rc == 0 and not missing:
                break
            first = missing[0] if missing else chunk[-1]
            rc1, res1, err1 = run_harness_chunk(hx, [first])
            if rc is None and rc1 == 0 and first[0] in res1:
                # the chunk's process hit the harness timeout (an overloaded machine), the program itself runs: not a result
                TIMEOUTS.append(first[0])
                res_all.update(res1)
            else:
                ncrash += 1
                res_all.update(res1)
                crash_all.append({"program": first[2], "seed": first[1], "rc": rc1 if rc1 != 0 else rc,
                                  "stderr": sanitizer_report(err1 if rc1 != 0 else err), "stdout_tail": LAST_STDOUT_TAIL.get(first[0], "")})
            chunk = missing[1:]
            if ncrash >= MAX_CRASHES_PER_CHUNK:
                for it in chunk[:SINGLE_BUDGET]:
                    res_all.update(run_harness_chunk(hx, [it])[1])
                break
        return res_all, crash_all
    with cf.ThreadPoolExecutor(NPROC) as ex:
        for res, cr in ex.map(work, chunks):
            results.update(res)
            crashes += cr
    return results, crashes


def sanitizer_report(err):
    """the part of stderr that says what happened: from the sanitizer's ERROR line (first 3000 characters), else the tail"""
    i = err.find("ERROR: ")
    return err[i:i + 3000] if i >= 0 else err[-3000:]


def crash_message(c):
    """short, address-free description of a crash: sanitizer error kind + the innermost frames inside janet"""
    import re
    text = c.get("stdout_tail", "") + c.get("stderr", "")
    if "top level signal" in text:
        return "top level signal"
    err = c.get("stderr", "")
    m = re.search(r"ERROR: (\w+Sanitizer): ([\w-]+)", err)
    if m:
        frames = re.findall(r"#\d+ 0x[0-9a-f]+ in (\w+) [^\n]*?/src/core/(\w+\.c):\d+", err.split("\n\n")[0])
        return "%s %s in %s" % (m.group(1), m.group(2), " < ".join("%s (%s)" % f for f in frames[:3]) or "?")
    m = re.search(r"runtime error: [^\n]*", err)
    if m:
        return m.group(0)[:160]
    return err[-160:].strip() or "process ended"


def run_model(exe, lines):
    chunks = [lines[i::NPROC] for i in range(NPROC)]

    def one(ch):
        if not ch:
            return []
        r = subprocess.run([exe], input=("\n".join(ch) + "\n").encode(), stdout=subprocess.PIPE, stderr=subprocess.PIPE)
        if r.returncode != 0:
            raise RuntimeError("model driver failed: " + r.stderr.decode(errors="replace")[-400:])
        return r.stdout.decode(errors="replace").splitlines()
    with cf.ThreadPoolExecutor(NPROC) as ex:
        outs = list(ex.map(one, chunks))
    res = [None] * len(lines)
    for k, o in enumerate(outs):
        for j, line in enumerate(o):
            res[k + j * NPROC] = line
    return res


# ---------------------------------------------------------------------------------------------- inputs
def load_corpus():
    out = []
    d = os.path.join(VERIF, "corpus", "C06")
    if os.path.isdir(d):
        for fn in sorted(os.listdir(d)):
            if fn.endswith(".json"):
                with open(os.path.join(d, fn)) as f:
                    j = json.load(f)
                out.append((fn[:-5], prog_from_json(j)))
    return out


def prog_from_json(j):
    return P.keep_opts(j, {"limits": j["limits"], "fibers": [[tuple_op(o) for o in ops] for ops in j["fibers"]]})


def tuple_op(o):
    if o[0] in "sr":
        return (o[0], [tuple(c) for c in o[1]])
    return tuple(o)


def gen_programs(ctx, quick, boost):
    """-> list of (id, seed, program), and a description of the distribution"""
    items, dist = [], {}
    for name, prog in load_corpus():
        items.append(("corpus-" + name, 0, prog))
    dist["corpus"] = len(items)
    fams = [  # (nch, total ops, quick sample, max_clauses)
        (1, 1, None, 2), (1, 2, None, 2), (1, 3, None, 2), (1, 4, None, 2),
        (2, 1, None, 2), (2, 2, None, 2), (3, 1, None, 2), (2, 3, 6000 if quick else 200000, 2),
        (3, 2, 3000 if quick else None, 2), (2, 4, 2500 if quick else 100000, 2), (3, 4, 1500 if quick else 60000, 1),
        (3, 3, 1500 if quick else 40000, 1),
    ]
    complete = []
    for nch, total, sample, mc in fams:
        size = P.family_size(nch, total, max_clauses=mc)
        tag = "E%d.%d" % (nch, total)
        if sample is not None and boost > 1:
            sample *= boost
        if sample is None or sample >= size:
            idxs = range(size)
            dist[tag] = "all %d" % size
            complete.append({"family": tag, "programs": size, "channels": nch, "operations_in_total": total, "capacities": "every vector in {0,1,2}^%d" % nch,
                             "shapes": "every split of the %d operations over 1..4 fibers (main may have none, spawned fibers at least one)" % total,
                             "alphabet": "%d operations: give / take / close on each channel, (ev/sleep 0), every ev/select with 1..%d ordered clauses "
                                         "(take c | give c) on distinct channels" % (len(P.op_alphabet(nch, max_clauses=mc)), min(mc, nch))})
        else:
            r = ctx.rng.fork(tag)
            idxs = sorted(set(r.below(size) for _ in range(sample)))
            dist[tag] = "%d of %d" % (len(idxs), size)
        for ix in idxs:
            items.append(("%s.%d" % (tag, ix), 0, P.family_nth(nch, total, ix, max_clauses=mc)))
    # complete family of single-fiber pumps: EVERY give/take sequence of length <= n that one fiber runs on one channel
    # of capacity 1..cap without waiting; heap payloads (kind per value), a collection forced at every log point.  The
    # items ring (4 slots, 10 after the first resize) is walked round: every (head, tail) geometry with count <= cap occurs.
    pcap, plen = (3, 12) if quick and boost == 1 else (3, 14) if quick else (4, 16)
    npump = 0
    for cap in range(1, pcap + 1):
        for n in range(1, plen + 1):
            for k, seq in enumerate(P.pump_sequences(cap, n)):
                items.append(("P%d.%d.%d" % (cap, n, k), 0, P.pump_program(cap, seq, heap=5, gc=3 if (k + n) % 16 == 0 else 1)))
                npump += 1
    complete.append({"family": "P", "programs": npump, "channels": 1, "capacities": "1..%d" % pcap, "shapes": "one fiber, 1..%d operations" % plen,
                     "alphabet": "give / take; every sequence during which the fiber never waits (0 <= queued <= capacity); heap payloads, "
                                 "a collection forced at every log point (every 16th program: at every interpreter safepoint)"})
    dist["complete_families"] = complete
    dist["P: ALL non-waiting single-fiber give/take sequences, capacity 1..%d, length 1..%d, heap payloads, forced collections" % (pcap, plen)] = "all %d" % npump

    def heapify(k, prog):
        """every 4th random program: heap payloads + a collection at every log point (every 32nd: at every safepoint too)"""
        return P.with_heap(prog, 5 if k % 8 else 1 + (k // 8) % 4, 3 if k % 32 == 0 else 1) if k % 4 == 0 else prog
    nrand = (4000 if quick else 120000) * boost
    r = ctx.rng.fork("random")
    for k in range(nrand):
        big = k % 5 == 4
        prog = P.random_program(r, max_fibers=6 if big else 4, max_ops=6 if big else 4, max_ch=3, max_cap=2 if not big else 3,
                                max_clauses=3 if not big else 4)
        items.append(("R%d" % k, r.below(1 << 31), heapify(k, prog)))
    dist["random(<=4x4x3, every 5th <=6x6x3)"] = nrand
    # cancellation and timers: ev/cancel of another fiber, ev/sleep with a duration, ev/with-deadline around the next
    # operations - these make stale run-queue tasks (a fiber scheduled twice before it runs) and stale timers
    ntime = (3000 if quick else 80000) * boost
    r = ctx.rng.fork("timing")
    for k in range(ntime):
        items.append(("T%d" % k, r.below(1 << 31), heapify(k, P.random_program(r, max_fibers=4, max_ops=5 if k % 3 else 4, timing=True))))
    dist["random with ev/cancel, ev/sleep d, ev/with-deadline"] = ntime
    # selects that name one channel in several clauses can match themselves (known finding select-self-match-...)
    nself = (1500 if quick else 30000) * boost
    r = ctx.rng.fork("selfmatch")
    for k in range(nself):
        items.append(("S%d" % k, r.below(1 << 31), heapify(k, P.random_program(r, max_ch=2, same_chan=True))))
    dist["random with same-channel selects"] = nself
    # long single-fiber give/take pumps that walk the items ring buffer round (head > tail, resizes) before a select /
    # give on the full channel: the capacity rule must not depend on where the ring happens to be
    nring = (700 if quick else 30000) * boost
    r = ctx.rng.fork("ringwrap")
    for k in range(nring):
        items.append(("W%d" % k, r.below(1 << 31), P.with_heap(P.ringwrap_program(r), 5 if k % 8 else 1 + (k // 8) % 4, 3 if k % 16 == 0 else 1)))
    nwait = (1500 if quick else 40000) * boost
    r = ctx.rng.fork("waiters")
    for k in range(nwait):
        items.append(("K%d" % k, r.below(1 << 31), P.with_heap(P.waiters_program(r), 5, 1)))
    dist["waiters (3-6 fibers waiting repeatedly on 1-2 channels of capacity 0..1, served by main between sleeps; heap payloads, forced "
         "collections, spawned fibers referenced by the event loop / the channels only)"] = nwait
    nsup = (1200 if quick else 40000) * boost
    r = ctx.rng.fork("supervised")
    for k in range(nsup):
        items.append(("V%d" % k, r.below(1 << 31), heapify(k, P.supervised_program(r))))
    dist["random with supervisor channels (ev/go f nil chan), listeners and closes of the supervisor channel"] = nsup
    dist["ring-wrap pumps (1-2 channels, caps 1..3, up to 11 values pumped through before a select/give on the full channel, then drained; heap payloads, forced collections)"] = nring
    dist["of the random families: every 4th program with heap payloads and a collection forced at every log point"] = sum(
        1 for pid, _, p in items if p.get("heap") and pid[0] in "RTSV")
    return items, dist


def queue_scripts(ctx, n):
    r = ctx.rng.fork("queue")
    scripts = ["p1 p2 p3 o o p4 p5 p6 p7 h9 o", "o h1 h2 h3 h4 o o o o o", "p1 o p2 o p3 o p4 o p5 p6 p7 p8 p9 p10 p11 p12"]
    for _ in range(n):
        ops, v = [], 0
        bias = r.range(35, 75)
        for _ in range(r.range(1, 120)):
            x = r.below(100)
            v += 1
            if x < bias:
                ops.append("p%d" % v)
            elif x < bias + 8:
                ops.append("h%d" % v)
            else:
                ops.append("o")
        scripts.append(" ".join(ops))
    return scripts


# ---------------------------------------------------------------------------------------------- minimisation
def minimise(hx, prog, seed, kind):
    """greedy: drop fibers / ops / clauses while the implementation still fails the oracle with the same kind"""
    def fails(p):
        rc, res, err = run_harness_chunk(hx, [("m", seed, p)])
        if "m" not in res:
            return kind == "crash"
        f, _ = P.oracle(p, res["m"][0], res["m"][2])
        return any(k == kind for k, _ in f)
    cur = prog
    changed, budget = True, 150
    while changed and budget > 0:
        changed = False
        cands = []
        nf = len(cur["fibers"])
        sups = cur.get("sups") or [None] * nf

        def mk(fibers, sv=None):
            d = P.keep_opts({k: v for k, v in cur.items() if k != "sups"}, {"limits": cur["limits"], "fibers": fibers})
            sv = sups if sv is None else sv
            if any(x is not None for x in sv):
                d["sups"] = list(sv)
            return d
        for f in range(nf - 1, 0, -1):
            cands.append(mk(cur["fibers"][:f] + cur["fibers"][f + 1:], sups[:f] + sups[f + 1:]))
        for f in range(1, nf):
            if sups[f] is not None:
                cands.append(mk(cur["fibers"], sups[:f] + [None] + sups[f + 1:]))
        for f in range(nf):
            for i in range(len(cur["fibers"][f])):
                fs = [list(x) for x in cur["fibers"]]
                del fs[f][i]
                if f == 0 or fs[f]:
                    cands.append(mk(fs))
                op = cur["fibers"][f][i]
                if op[0] in "sr" and len(op[1]) > 1:
                    for k in range(len(op[1])):
                        fs = [list(x) for x in cur["fibers"]]
                        fs[f][i] = ("s", op[1][:k] + op[1][k + 1:])
                        cands.append(mk(fs))
                if op[0] == "r":
                    fs = [list(x) for x in cur["fibers"]]
                    fs[f][i] = ("s", op[1])
                    cands.append(mk(fs))
        for c in cands:
            budget -= 1
            if budget <= 0:
                break
            used = set()
            for ops in c["fibers"]:
                for op in ops:
                    used.add(op[1]) if op[0] in "gtc" else None
                    if op[0] in "sr":
                        used.update(cl[1] for cl in op[1])
            if fails(c):
                cur = c
                changed = True
                break
    return cur


def confirm_standalone(ctx, prog, secs=5):
    """replay evidence only (not used for the verdict): does the stock janet binary still run after `secs` seconds?"""
    try:
        v = ctx.build.variant("plain")
        path = "/var/tmp/c06-replay-%d.janet" % os.getpid()
        with open(path, "w") as f:
            f.write(P.janet_standalone(prog))
        rc, out, err = run_cmd([v["janet"], path], timeout=secs)
        os.unlink(path)
        return {"timeout_s": secs, "still_running_after_timeout": rc is None, "exit_code": rc, "stderr": err.decode(errors="replace")[-1500:]}
    except Exception as e:  # pragma: no cover
        return {"error": repr(e)}


# ---------------------------------------------------------------------------------------------- the check
def run(ctx, only=None):
    quick = ctx.tier == "quick"
    broken = []
    cfgbits = None
    # (A) regenerate
    try:
        ctx.build.boot()
        tree = ctx.build.tree
    except BuildError as e:
        ctx.violation("build-failed", {"kind": "build", "error": str(e)}, found=False, what="tree does not build")
        return ctx.finish("proof", {"evaluations": 0, "distinct_nontrivial": 0})
    try:
        ctx.gen("Ev.lean", gen_ev.render(tree))
        cfgbits = gen_ev.cfg_bits(tree)
        ctx.say("Gen/Ev.lean: cfg bits (pushStrict choiceStrict choiceSeesReader popSkipsStale closeChecks resumeBumps) = %s" % cfgbits)
    except ExtractError as e:
        broken.append("translator tools/gen/ev.py: %s" % e)
        ctx.broken.append(broken[-1])
        ctx.say("BROKEN TIE:", e)
    # (B,C) kernel check + audit
    b = ctx.obligations("JanetModel.Props.C06", THEOREMS)
    b += ctx.obligations("JanetModel.Ev.SourceObligations", SOURCE_OBLIGATIONS)
    b += ctx.obligations("JanetModel.Ev.SourceChecks", SOURCE_CHECKS)
    b += ctx.obligations("JanetModel.Ev.MarkSource", MARK_OBLIGATIONS)
    b += ctx.obligations("JanetModel.Ev.RefineSource", REFINE_OBLIGATIONS)
    broken += b
    if b:
        ctx.say("broken obligations: %s" % "; ".join(x[:160] for x in b[:4]))
    if not quick and not b:
        ok, log = ctx.leanchecker("JanetModel.Props.C06")
        if not ok:
            broken.append("leanchecker JanetModel.Props.C06: " + log[-300:])
    # (D) correspondence
    exe = ctx.driver()
    try:
        hx = ctx.build.harness("asan", "c06chan", [os.path.join(VERIF, "harness/C06/chanrun.c")])
    except BuildError as e:
        hx = None
        broken.append("harness does not compile against the current tree: %s" % str(e)[-600:])
        ctx.broken.append(broken[-1])
    boost = 3 if broken else 1          # something no longer checks: search harder
    items, dist = gen_programs(ctx, quick, boost)
    complete_fams = dist.pop("complete_families", [])
    if only is not None:
        items = only
    ctx.say("programs: %d  %s" % (len(items), dist))
    nviol_kinds, diffs, crashes = {}, [], []
    stats_total, verdicts = {}, {}
    results = {}
    if hx:
        results, crashes = run_harness(hx, items)
        ctx.say("implementation ran %d programs" % len(results))
    model_out = None
    if exe and hx:
        lines = [P.model_line(prog, results[pid][1] if pid in results else [], "gen") for pid, seed, prog in items]
        model_out = run_model(exe, lines)
        for (pid, seed, prog), mo in zip(items, model_out):
            if pid not in results:
                continue
            verdict, rng, log = results[pid]
            if (verdict + " " + log) != mo:
                diffs.append({"id": pid, "program": P.short(prog), "prog": prog, "seed": seed, "impl": verdict + " " + log, "model": mo})
        ctx.say("model ran %d programs, %d differing logs" % (len(model_out), len(diffs)))
        if diffs:
            a, b = diffs[0]["impl"].split(";"), diffs[0]["model"].split(";")
            k = next((i for i, (x, y) in enumerate(zip(a, b)) if x != y), min(len(a), len(b)))
            ctx.say("first differing log: %s\n   impl : %s\n   model: %s" % (diffs[0]["program"], a[k:k + 2], b[k:k + 2]))
            broken.append("correspondence model/implementation: %d of %d event logs differ, first: %s" % (len(diffs), len(items), diffs[0]["program"]))
            ctx.broken.append(broken[-1])
    # ring buffers
    qdiff, mdiff = [], []
    if exe and hx:
        scripts = queue_scripts(ctx, 300 if quick else 20000)
        rc, out, err = run_cmd([hx], input=("".join("Q %s\n" % s for s in scripts)).encode(), timeout=600, env=ENV)
        impl_q = out.decode(errors="replace").splitlines()
        model_q = ctx.model(["Q " + s for s in scripts], exe=exe)
        if rc != 0 or len(impl_q) != len(scripts):
            crashes.append({"queue_scripts": True, "rc": rc, "stderr": err.decode(errors="replace")[-2000:]})
        for s, a, m in zip(scripts, impl_q, model_q):
            if a != m:
                qdiff.append({"script": s, "impl": a, "model": m})
        if qdiff:
            broken.append("correspondence janet_q_* ring buffer: %d scripts differ, first %r" % (len(qdiff), qdiff[0]["script"][:80]))
            ctx.broken.append(broken[-1])
        nq = sum(len(s.split()) for s in scripts)
        # direct oracle for the ring buffer: contents == reference list
        for s, a in zip(scripts, impl_q):
            ref, bad = [], None
            for op, st in zip(s.split(), a.split(" ")):
                rcq, popped = st.split("/")[0], st.split("/")[1]
                content = st[st.index("[") + 1:-1]
                if op[0] == "p":
                    ref.append(op[1:])
                elif op[0] == "h":
                    ref.insert(0, op[1:])
                else:
                    want = ref.pop(0) if ref else "-1"
                    if popped != want:
                        bad = "pop returned %s, expected %s" % (popped, want)
                if content != ",".join(ref):
                    bad = "contents %s, expected %s" % (content, ",".join(ref))
                if bad:
                    break
            if bad:
                nviol_kinds.setdefault("queue", []).append({"script": s, "why": bad, "impl": a})
        # mark scripts: the same ops on the items ring of a real channel holding fresh heap strings; after every op the real
        # gcmark callback runs and the set of marked ids is compared (a) with the walk extracted from the source, evaluated
        # by the model driver, (b) directly with the reference content of the ring (independent of the model)
        mscripts = [sc for sc in scripts if len(sc.split()) <= 4000]
        rc, out, err = run_cmd([hx], input=("".join("M %s\n" % sc for sc in mscripts)).encode(), timeout=600, env=ENV)
        impl_m = out.decode(errors="replace").splitlines()
        model_m = ctx.model(["M " + sc for sc in mscripts], exe=exe)
        if rc != 0 or len(impl_m) != len(mscripts):
            crashes.append({"queue_scripts": True, "mark_scripts": True, "rc": rc, "stderr": err.decode(errors="replace")[-2000:]})
        nmark = 0
        for sc, a, m in zip(mscripts, impl_m, model_m):
            if a != m:
                mdiff.append({"script": sc, "impl": a, "model": m})
            ref, bad = [], None
            for op, st in zip(sc.split(), a.split(" ")):
                if op[0] == "p":
                    ref.append(int(op[1:]))
                elif op[0] == "h":
                    ref.insert(0, int(op[1:]))
                elif ref:
                    ref.pop(0)
                nmark += 1
                got = [int(x) for x in st.strip("[]").split(",") if x]
                if got != sorted(ref):
                    bad = "after %s the channel's mark function marked %r, the queue holds %r (unmarked queued values: %r)" % (
                        op, got, ref, sorted(set(ref) - set(got)))
                    break
            if bad:
                nviol_kinds.setdefault("mark", []).append({"script": sc, "why": bad, "impl": a})
        if mdiff:
            broken.append("correspondence janet_chanat_mark walk: %d scripts differ, first %r" % (len(mdiff), mdiff[0]["script"][:80]))
            ctx.broken.append(broken[-1])
    else:
        nq = 0
        nmark = 0
    # (E) direct oracle on the implementation logs
    failing = []
    selfmatch_anomalies = 0
    for pid, seed, prog in items:
        if pid not in results:
            continue
        verdict, rng, log = results[pid]
        verdicts[verdict] = verdicts.get(verdict, 0) + 1
        fails, stats = P.oracle(prog, verdict, log)
        for k, v in stats.items():
            stats_total[k] = stats_total.get(k, 0) + v
        if any(k == P.SELF_MATCH for k, _ in fails):
            # everything else this program shows is a consequence of the select that matched itself
            selfmatch_anomalies += 1
            fails = [(k, t) for k, t in fails if k == P.SELF_MATCH][:1]
        if fails:
            failing.append((pid, seed, prog, fails))
            for k in set(k for k, _ in fails):
                nviol_kinds.setdefault(k, []).append(pid)
    ctx.say("oracle: %d programs fail; kinds %s" % (len(failing), {k: len(v) for k, v in nviol_kinds.items()}))
    # ---- report
    reported = 0
    # one replay per distinct crash message: the smallest program, minimised
    by_msg = {}
    for c in crashes:
        if "program" not in c:
            by_msg.setdefault("queue-scripts", c)
            continue
        msg = crash_message(c)
        size = sum(len(o) for o in c["program"]["fibers"])
        if msg not in by_msg or size < sum(len(o) for o in by_msg[msg]["program"]["fibers"]):
            by_msg[msg] = c
    for msg, c in sorted(by_msg.items()):
        if "program" in c and hx:
            small = minimise(hx, c["program"], c.get("seed", 0), "crash")
            c = dict(c, program=small, prog=small, short=P.short(small), kind="crash", rng_seed=c.get("seed", 0))
        ctx.violation("crash:" + msg[:100], dict({"kind": "crash", "detail": msg, "janet": P.janet_standalone(c["program"]) if "program" in c else None,
                                                "crashing_programs": len(crashes)}, **{k: v for k, v in c.items() if k != "detail"}),
                      what="the implementation ended / crashed while running a channel program (%s)%s" % (msg[:200], ": " + P.short(c["program"]) if "program" in c else ""))
        reported += 1
    if "queue" in nviol_kinds:
        q = nviol_kinds["queue"][0]
        ctx.violation("queue:" + q["why"][:40], {"kind": "queue", "detail": q}, what="janet_q_* ring buffer does not behave as a FIFO list: " + q["why"])
        reported += 1
    if "mark" in nviol_kinds:
        q = min(nviol_kinds["mark"], key=lambda x: len(x["script"]))
        ctx.violation("mark:queued-value-not-marked", {"kind": "mark", "detail": q, "failing_scripts": len(nviol_kinds["mark"])},
                      what="the channel's gcmark callback does not mark every queued value (a collection would free it while it is "
                           "queued and a later take hands out a dangling reference): " + q["why"])
        reported += 1
    # one replay per failure kind: the smallest failing program of that kind, minimised
    by_kind = {}
    for pid, seed, prog, fails in failing:
        size = sum(len(o) for o in prog["fibers"]) * 10 + len(prog["fibers"])
        for k, text in fails:
            if k not in by_kind or size < by_kind[k][0]:
                by_kind[k] = (size, pid, seed, prog, text)
    for k in sorted(by_kind, key=lambda k: (k != "received-not-given", k)):
        size, pid, seed, prog, text = by_kind[k]
        if k in P.KNOWN_KINDS and ctx._match_known(k) is not None:
            ctx.violation(k, {"kind": k, "program": P.short(prog)}, what=text)   # prints the KNOWN-FINDING line once
            continue
        small = minimise(hx, prog, seed, k)
        rc, res, err = run_harness_chunk(hx, [("m", seed, small)])
        verdict, rng, log = res.get("m", ("crash", [], ""))
        f2, _ = P.oracle(small, verdict, log)
        text2 = next((t for kk, t in f2 if kk == k), text)
        rep = {"kind": k, "program": P.short(small), "prog": small, "rng_seed": seed, "oracle": text2, "all_failures": f2[:8],
               "implementation_verdict": verdict, "implementation_log": log.split(";"), "janet": P.janet_standalone(small),
               "found_in": pid, "failing_programs_of_this_kind": len(nviol_kinds.get(k, [])), "broken": broken[:6]}
        if verdict == "idle-forever":
            rep["standalone_run"] = confirm_standalone(ctx, small)
        ctx.violation(k if k in P.KNOWN_KINDS else "%s:%s" % (k, P.short(small)), rep, what="%s: %s   [%s]" % (k, text2, P.short(small)))
        reported += 1
    if broken and not reported:
        ctx.violation("broken:" + broken[0][:80], {"kind": "broken-obligation", "broken": broken, "first_diffs": [dict(d, prog=None) for d in diffs[:3]],
                                                    "queue_diffs": qdiff[:3]}, found=False,
                      what="no longer shown to hold: " + "; ".join(broken)[:700])
    nontrivial = sum(1 for pid, seed, prog in items if pid in results and sum(len(o) for o in prog["fibers"]) >= 2)
    cov = {
        "evaluations": len(results) + nq + nmark,
        "distinct_nontrivial": len(set(P.short(prog) for pid, seed, prog in items)),
        "rule": "a program = channel capacities + per-fiber operation lists (give/take/select/rselect/close/(ev/sleep 0)); exhaustive families "
                "E<nch>.<total ops> enumerate every shape (<=4 fibers), every operation from the alphabet (selects with <=2 ordered clauses) "
                "and every capacity vector in 0..2.  `complete_families` lists exactly which families are enumerated COMPLETELY in this run "
                "(this tier) with their definition and size; every other E family and the full 4 fibers x 4 ops x 3 channels box (about 10^20 "
                "programs) is SAMPLED (counts in `distribution`); non-trivial = distinct program text",
        "complete_families": complete_fams if only is None else [],
        "samples": [P.short(prog) for pid, seed, prog in items[:2] + items[len(items) // 2:len(items) // 2 + 2] + items[-2:]],
        "distribution": dist, "programs_with_two_or_more_ops": nontrivial,
        "verdicts": verdicts, "oracle_event_counts": stats_total,
        "correspondence_programs": len(model_out or []), "correspondence_diffs": len(diffs),
        "harness_chunk_timeouts": len(TIMEOUTS), "queue_ops": nq, "queue_diffs": len(qdiff), "mark_script_ops": nmark, "mark_script_diffs": len(mdiff),
        "oracle_failing_programs": len(failing), "oracle_failure_kinds": {k: len(v) for k, v in nviol_kinds.items()},
        "selfmatch_select_anomalies": selfmatch_anomalies, "cfg_bits": cfgbits, "broken": broken[:8],
        "ring_geometry": {
            "programs_with_wrapped_items_ring": sum(1 for pid, _, _ in items if GEOM.get(pid, (0, 0, 0))[0] > 0),
            "log_points_with_wrapped_items_ring": sum(GEOM.get(pid, (0, 0, 0))[0] for pid, _, _ in items),
            "log_points_with_wrapped_and_full_items_ring": sum(GEOM.get(pid, (0, 0, 0))[1] for pid, _, _ in items),
            "max_items_ring_capacity": max([GEOM.get(pid, (0, 0, 0))[2] for pid, _, _ in items] or [0]),
            "programs_whose_items_ring_was_resized_beyond_4": sum(1 for pid, _, _ in items if GEOM.get(pid, (0, 0, 0))[2] > 4),
        },
        "heap_and_collections": {
            "programs_with_heap_payloads": sum(1 for _, _, p in items if p.get("heap")),
            "programs_with_collection_at_every_log_point": sum(1 for _, _, p in items if p.get("gc", 0) & 1),
            "programs_with_collection_at_every_safepoint": sum(1 for _, _, p in items if p.get("gc", 0) & 2),
            "forced_collections_at_log_points": sum(GEOM.get(pid, (0,) * 6)[3] for pid, _, _ in items if len(GEOM.get(pid, ())) >= 6),
            "heap_payloads_made": sum(GEOM.get(pid, (0,) * 6)[4] for pid, _, _ in items if len(GEOM.get(pid, ())) >= 6),
            "payload_contents_read_back": sum(GEOM.get(pid, (0,) * 6)[5] for pid, _, _ in items if len(GEOM.get(pid, ())) >= 6),
            "heap_programs_with_wrapped_items_ring": sum(1 for pid, _, p in items if p.get("heap") and GEOM.get(pid, (0, 0, 0))[0] > 0),
            "log_points_with_wrapped_ring_in_heap_programs": sum(GEOM.get(pid, (0, 0, 0))[0] for pid, _, p in items if p.get("heap")),
            "payload_kinds": "1 string, 2 buffer, 3 array @[id string], 4 tuple [id string]; `mix` = kind chosen per value",
        },
    }
    return ctx.finish("proof", cov, assumptions=[
        "model = lean/JanetModel/Ev (hand-written mirror of ev.c's single-threaded channel code); tie = regenerated Gen/Ev.lean + event-log equality",
        "virtual clock: every clock read is 1 ms later, so (ev/sleep 0) timers fire in registration order at the next loop iteration",
        "hang = the loop enters its poll with no timer, no runnable task and only suspended fibers (logical, no wall clock)",
        "`given` includes values offered by a select give clause that janet enqueues at registration (counted: losing_give_delivered)",
        "threaded channels, cancellation, deadlines, supervisors are outside this model (C07/C08)",
    ])


def replay(ctx, path):
    with open(path) as f:
        r = json.load(f)
    print(json.dumps({k: r.get(k) for k in ("kind", "program", "oracle", "implementation_verdict")}, indent=1))
    if r.get("prog"):
        prog = prog_from_json(r["prog"])
        return run(ctx, only=[("replay", r.get("rng_seed", 0), prog)])
    return run(ctx)
