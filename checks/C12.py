"""C12 - PEG matching conforms to the PEG semantics for every grammar and text.

(A) regenerate Gen/Peg.lean (opcode enum, verifier operand sizes, mode/window leak flags, case hashes of peg_rule)
(B,C) kernel check Props/C12 + axiom audit
(D) correspondence: real peg/compile -> bytecode read from JanetPeg -> Lean Op interpreter; same source grammar -> Lean Spec
    interpreter; both against real peg/match / find / find-all / replace / replace-all (ASan, exact-size text)
(E) direct oracles: Spec (documented meaning) vs real; independent python reference interpreter vs real (core combinators);
    find / find-all / replace / replace-all vs repeated real peg/match.
"""
import concurrent.futures as cf
import json
import os
import sys

from vlib.core import run_cmd, VERIF, SplitMix64
from vlib.build import BuildError
from tools.gen import peg as gen_peg
from tools.gen import pegskel as gen_pegskel
from tools.gen.csrc import ExtractError

sys.path.insert(0, os.path.join(VERIF, "harness", "C12"))
import peggen  # noqa: E402
import pegref  # noqa: E402

THEOREMS = ["JanetModel.Props.C12." + t for t in (
    "op_eq_den", "capLoad_restores", "opMatcher_eq_denMatcher", "entry_points_op_eq_den",
    "never_reads_outside", "den_never_reads_outside", "match_attempt_never_reads_outside", "depth_balanced", "depth_exhaustion",
    "find_all_agrees_with_repeated_match", "find_agrees_with_repeated_match", "find_first_error",
    "replace_all_agrees_with_repeated_match", "replace_agrees_with_repeated_match", "match_attempt_end_in_range",
    "compile_validated_correct", "compiled_entry_points_eq_source",
    "compile_correct", "compile_entry_points_eq_source", "compile_simulation", "compile_entry_zero", "compile_entry_points_from_zero",
    "backref_flag_unobservable", "backref_flag_unobservable_op", "compiled_backref_flag_certified", "compile_flag_sound", "compile_correct_real_flag", "op_run_keeps_window", "op_run_keeps_depth",
    "lenprefix_leak_breaks_op_eq_den", "decode_sizes_agree",
    "op_run_fuel_mono", "op_run_fuel_unique", "op_step_mono", "den_run_fuel_mono", "op_eq_den_any_fuel",
    "entry_points_fuel_mono", "entry_points_fuel_mono_den", "op_run_returns", "op_returns_of_den", "tail_choice_diverges")]
# facts about the CURRENT peg.c (Gen/Peg.lean) that the model relies on; they fail to check on a tree with the defects
TIE = ["JanetModel.Peg.Tie." + t for t in (
    "lenprefix_mode_restored", "no_mode_leaks", "no_window_leaks", "number_capture_not_raw", "recursion_guard", "depth_exits_balanced")]
ENV = dict(os.environ, ASAN_OPTIONS="detect_leaks=0:abort_on_error=0", UBSAN_OPTIONS="print_stacktrace=1")
CANON = os.path.join(VERIF, "harness", "C12", "case_canon.json")
# the statements of these opcode cases of the CURRENT peg.c, translated into the IR Peg/Skel.lean (Gen/PegSkel.lean), are proved
# to BE the Op.step case (semantic comparison, Peg/TieSkel.lean); every other case is compared in canonical form (CANON)
TIESKEL = ["JanetModel.Peg.TieSkel." + t for t in (
    "rule_if", "rule_ifnot", "rule_not", "rule_drop", "rule_only_tags", "rule_sub", "rule_accumulate", "rule_capture",
    "rule_position", "rule_constant", "rule_group", "rule_nth", "rule_error", "rule_between", "rule_to_thru", "rule_til", "rule_choice", "rule_sequence", "rule_lenprefix", "rule_split", "rule_replace", "rule_matchtime", "rule_nchar", "rule_notnchar", "rule_line",
    "rule_column", "rule_argument", "rule_literal", "rule_range", "rule_set", "rule_look", "rule_capture_num", "rule_gettag",
    "rule_backmatch", "rule_unref", "rule_readint", "rule_readint_returns",
    # the loop cases without fuel hypotheses (fuel-free meaning `Skel.Returns`), bounds from the window invariant
    "rule_to_thru_returns", "rule_til_returns", "rule_choice_returns", "rule_sequence_returns", "rule_lenprefix_returns",
    "rule_unref_returns", "rule_between_returns", "rule_split_returns", "rule_to_thru_text_bound", "rule_til_text_bound",
    "betweenLoop_mono", "splitLoop_mono") + tuple(
    # operand layout extracted: the same programs on the RAW words of the bytecode at pc = Op.step of what Decode.decode returns
    "decoded_" + x for x in (
        "if", "ifnot", "not", "drop", "only_tags", "sub", "accumulate", "capture", "position", "constant", "group", "nth", "error",
        "nchar", "notnchar", "line", "column", "argument", "replace", "matchtime", "range", "look", "capture_num", "literal", "set",
        "to", "thru", "til", "lenprefix", "between", "split", "unref", "gettag", "backmatch", "choice", "sequence", "readint"))]
# the two fuel-hypothesis cases restated about the whole run (fuel monotonicity, Peg/FuelMono.lean)
TIESKELRUN = ["JanetModel.Peg.TieSkel." + t for t in (
    "between_returns_of_run", "split_returns_of_run", "between_returns_any_fuel", "split_returns_any_fuel",
    "decoded_between_of_run", "decoded_split_of_run")]
ENTRIES = ("match", "find", "findall", "replace", "replaceall")


def hx(b):
    return b.hex() if b else "-"


def src_hex(s):
    return s.encode().hex()


class Case:
    """one grammar x text x start x args x subst"""

    def __init__(self, g, text, start, args, subst, origin="gen"):
        self.g, self.text, self.start, self.args, self.subst, self.origin = g, text, start, args, subst, origin
        self.gpos = ('seq', [g, ('position', 0)])
        self.noscan = False  # long texts: peg/match only
        self.real = {}      # entry -> answer of the implementation
        self.scan = {}      # i -> answer of real peg/match of (* G ($)) at i
        self.dump = None
        self.model = {}     # (kind, entry) -> answer

    def args_src(self):
        return "[" + " ".join(peggen.jval(a, quoted=False) for a in self.args) + "]"

    def subst_src(self):
        return peggen.jval(self.subst, quoted=False)

    def describe(self):
        return {"grammar": peggen.janet_source(self.g), "text_hex": self.text.hex(), "start": self.start,
                "args": self.args_src(), "subst": self.subst_src(), "origin": self.origin}

    def harness_lines(self):
        G, GP = src_hex(peggen.janet_source(self.g)), src_hex(peggen.janet_source(self.gpos))
        T, A, S = hx(self.text), src_hex(self.args_src()), src_hex(self.subst_src())
        L = [("dump", "dump %s - 0 - -" % G)]
        if self.noscan:
            return L + [("match", "match %s %s %d %s -" % (G, T, self.start, A))]
        for e in ENTRIES:
            L.append((e, "%s %s %s %d %s %s" % (e, G, T, self.start, A, S if e.startswith("replace") else "-")))
        for i in range(self.start, len(self.text) + 1):
            L.append(("scan%d" % i, "match %s %s %d %s -" % (GP, T, i, A)))
        return L

    def model_lines(self, leak):
        L = []
        T, A, S = hx(self.text), peggen.vals_field(self.args), ",".join(peggen.vtok(self.subst))
        gc, recursive = peggen.canon_tags(self.g)
        self.expect_valid = not recursive and not peggen.has_struct(self.g)
        spec = peggen.spec_field(gc)
        if self.dump and self.dump.startswith("B "):
            _, hb, words, consts = self.dump.split(" ")
            if not recursive:       # the validator unrolls the grammar: a recursive one never ends (exponential up to its fuel)
                L.append((("validate", "compile"), "validate %s %s %s" % (words, consts, spec)))
            # the compile model (Peg/Compile.lean: rule cache, keyword references, nested / recursive grammars, constants)
            # is run on EVERY grammar; it answers "-" only for what it explicitly rejects
            L.append((("cmodel", "compile"), "compile %s" % spec))
            # certificate for `has_backref`: no reachable instruction reads the tag stack (compiled_backref_flag_certified)
            L.append((("notag", "compile"), "notag %s %s" % (words, consts)))
            for kind in ("op", "den"):
                for e in (ENTRIES if kind == "op" and not self.noscan else ("match",)):
                    L.append(((kind, e), "%s %s %s %d %s %s %s %d %s%s" % (kind, e, hb, leak, words, consts, T, self.start, A,
                                                                         (" " + S) if e.startswith("replace") else "")))
        for e in (("match",) if self.noscan else ENTRIES):
            L.append((("spec", e), "spec %s %s %s %d %s%s" % (e, spec, T, self.start, A, (" " + S) if e.startswith("replace") else "")))
        return L


CMODEL_KINDS = {'str', 'int', 'bool', 'range', 'set', 'look', 'choice', 'seq', 'if', 'ifnot', 'lenprefix', 'sub', 'til', 'split', 'not',
                'to', 'thru', 'drop', 'onlytags', 'error', 'error0', 'any', 'some', 'opt', 'between', 'atleast', 'atmost', 'repeat',
                'capture', 'accumulate', 'group', 'unref', 'nth', 'number', 'position', 'line', 'column', 'backmatch', 'backref',
                'argument', 'readint'}


def compile_model_applies(g):
    """forms the compile model (Peg/Compile.lean) covers, and no sub-form occurring twice (the real compiler's rule cache
    would share it)"""
    if not set(peggen.kinds(g)) <= CMODEL_KINDS:
        return False
    seen = set()

    def walk(p):
        src = peggen.to_janet(p)
        if src in seen:
            return False
        seen.add(src)
        if p[0] == 'error0':
            if "0" in seen:
                return False
            seen.add("0")
        return all(walk(c) for c in peggen.children(p))
    return walk(g)


# ------------------------------------------------------------------------------------------------ expected from repeated match
def subst_apply(subst, matched, caps_shown):
    """text substitution for the modelled substitutes, on shown capture values"""
    if isinstance(subst, bytes):
        return subst
    name = subst[1]
    vals = ["s" + matched.hex()] + caps_shown

    def tostr(sv):
        if sv == "n":
            return b""
        if sv == "t":
            return b"true"
        if sv == "f":
            return b"false"
        if sv[0] == "i":
            return sv[1:].encode()
        if sv[0] in "sk":
            return bytes.fromhex(sv[1:])
        if sv[0] in "lu":
            return sv[1:].encode()
        if sv[0] == "a":
            return b"<array>"
        raise ValueError(sv)
    if name == "f-cat":
        return b"".join(tostr(v) for v in vals)
    if name == "f-count":
        return str(len(vals)).encode()
    if name == "f-first":
        return tostr(vals[0])
    if name == "f-last":
        return tostr(vals[-1])
    raise ValueError(name)


def split_top(s):
    """split 'a,b[c,d],e' at top-level commas"""
    out, depth, cur = [], 0, []
    for ch in s:
        if ch == "[":
            depth += 1
        elif ch == "]":
            depth -= 1
        if ch == "," and depth == 0:
            out.append("".join(cur))
            cur = []
        else:
            cur.append(ch)
    if cur:
        out.append("".join(cur))
    return out


def expected_from_scan(case):
    """find / findall / replace / replaceall computed from single real peg/match results of (* G ($)) at every position"""
    n, st = len(case.text), case.start

    def at(i):
        a = case.scan.get(i)
        if a is None or a == "M-":
            return None
        if a.startswith("E:"):
            raise RuntimeError(a)
        caps = split_top(a[2:-1])
        return int(caps[-1][1:]), caps[:-1]
    exp = {}
    try:
        hit = None
        for i in range(st, n):
            if at(i) is not None:
                hit = i
                break
        exp["find"] = "F-" if hit is None else "F%d" % hit
    except RuntimeError as e:
        exp["find"] = str(e)
    try:
        exp["findall"] = "A[" + ",".join(str(i) for i in range(st, n) if at(i) is not None) + "]"
    except RuntimeError as e:
        exp["findall"] = str(e)
    for entry, only_one in (("replace", True), ("replaceall", False)):
        try:
            out, trail, i = b"", 0, st
            while i < n:
                r = at(i)
                if r is None:
                    i += 1
                    continue
                end, caps = r
                out += case.text[trail:i] if trail < i else b""
                out += subst_apply(case.subst, case.text[i:end], caps)
                trail = end
                i = end + 1 if end == i else end
                if only_one:
                    break
            if trail < n:
                out += case.text[trail:]
            exp[entry] = "R" + out.hex()
        except RuntimeError as e:
            exp[entry] = str(e)
        except ValueError:
            pass
    return exp


def ref_answer(case):
    """answer of the python reference interpreter for `match`, or None when outside its fragment"""
    ks = peggen.kinds(case.g)
    if not set(ks) <= pegref.CORE:
        return None
    try:
        r = pegref.match_at(case.g, case.text, case.start, case.args)
        if r is None:
            return "M-"
        return "M[" + ",".join(pegref.show(v) for v in r[1]) + "]"
    except (pegref.Unsupported, pegref.Deep, RecursionError):
        return None
    except pegref.PegError:
        return None


# ------------------------------------------------------------------------------------------------ running
def run_harness(hx_exe, lines, timeout=600):
    rc, out, err = run_cmd([hx_exe], input=("\n".join(lines) + "\n").encode(), timeout=timeout, env=ENV)
    return rc, out.decode(errors="replace").splitlines(), err.decode(errors="replace")


def run_chunk(hx_exe, drv, cases, leak, timeout=120):
    """returns (crash_info or None)"""
    hl = []
    for c in cases:
        for key, l in c.harness_lines():
            hl.append((c, key, l))
    rc, out, err = run_harness(hx_exe, [l for _, _, l in hl], timeout=timeout)
    crash = None
    if rc != 0 or len(out) != len(hl):
        # the line after the last answered one crashed / hung
        k = min(len(out), len(hl) - 1)
        crash = {"case": hl[k][0], "line": hl[k][2], "entry": hl[k][1], "rc": rc, "stderr": err[-3000:]}
    for (c, key, _), a in zip(hl, out):
        if key == "dump":
            c.dump = a
        elif key.startswith("scan"):
            c.scan[int(key[4:])] = a
        else:
            c.real[key] = a
    if drv:
        ml = []
        for c in cases:
            if c.dump is None:
                continue
            for key, l in c.model_lines(leak):
                ml.append((c, key, l))
        if not ml:
            return crash
        sp = __import__("subprocess")
        try:
            r = sp.run([drv], input=("\n".join(l for _, _, l in ml) + "\n").encode(), stdout=-1, stderr=-1, timeout=max(60, 2 * timeout))
        except sp.TimeoutExpired:
            # a case on which the list-based Lean model is too slow (e.g. a lenprefix count in the millions): run the cases one by
            # one and leave the slow ones unanswered (counted as model_timeouts in the evidence, compared by the other oracles)
            for c in cases:
                cl = [(k, l) for cc, k, l in ml if cc is c]
                if not cl:
                    continue
                try:
                    r1 = sp.run([drv], input=("\n".join(l for _, l in cl) + "\n").encode(), stdout=-1, stderr=-1, timeout=10)
                    o1 = r1.stdout.decode(errors="replace").splitlines()
                    if r1.returncode == 0 and len(o1) == len(cl):
                        for (k, _), a in zip(cl, o1):
                            c.model[k] = a
                except sp.TimeoutExpired:
                    c.model_timeout = True
            return crash
        mo = r.stdout.decode(errors="replace").splitlines()
        if r.returncode != 0 or len(mo) != len(ml):
            raise RuntimeError("model driver failed: rc=%s %d/%d lines %s" % (r.returncode, len(mo), len(ml), r.stderr.decode(errors="replace")[-300:]))
        for (c, key, _), a in zip(ml, mo):
            c.model[key] = a
    return crash


def compare(case):
    """list of (kind, entry, expected, observed) disagreements; kind in spec|op|den|scan|ref"""
    diffs = []
    if case.dump == "CE":
        return [("compile", "dump", "compiles", "CE")]
    for e in ENTRIES:
        real = case.real.get(e)
        if real is None:
            continue
        sp = case.model.get(("spec", e))
        if sp is not None and sp != real:
            diffs.append(("spec", e, sp, real))
        op = case.model.get(("op", e))
        if op is not None and op != real:
            diffs.append(("op", e, op, real))
    va = case.model.get(("validate", "compile"))
    if va is not None and getattr(case, "expect_valid", False) and va != "V1":
        diffs.append(("validate", "compile", "V1", va))
    cm = case.model.get(("cmodel", "compile"))
    if cm is not None and case.dump and case.dump.startswith("B "):
        # word for word: has_backref, bytecode, constants table; the entry rule is address 0.  "-" = rejected by the model
        if cm != "-" and cm != case.dump + " E0":
            diffs.append(("cmodel", "compile", cm, case.dump + " E0"))
    nt = case.model.get(("notag", "compile"))
    if nt is not None and case.dump and case.dump.startswith("B 0 ") and not nt.startswith("T1"):
        # peg/compile says has_backref = 0 but a reachable instruction reads tags (or the certificate cannot be built)
        diffs.append(("notag", "compile", "T1", nt))
    dn, op = case.model.get(("den", "match")), case.model.get(("op", "match"))
    if dn is not None and op is not None and dn != op and not (case.leak & 1):
        diffs.append(("den", "match", dn, op))
    # entry points against repeated real matching
    if all(i in case.scan for i in range(case.start, len(case.text) + 1)):
        exp = expected_from_scan(case)
        for e, v in exp.items():
            if e in case.real and case.real[e] != v:
                diffs.append(("scan", e, v, case.real[e]))
        # and peg/match itself against (* G ($)) at start
        a, b = case.real.get("match"), case.scan.get(case.start)
        if a is not None and b is not None and not a.startswith("E:") and not b.startswith("E:"):
            if (a == "M-") != (b == "M-") or (a != "M-" and split_top(b[2:-1])[:-1] != split_top(a[2:-1])):
                diffs.append(("scan", "match", b, a))
    ra = ref_answer(case)
    case.ref = ra
    if ra is not None and "match" in case.real and not case.real["match"].startswith("E:") and ra != case.real["match"]:
        diffs.append(("ref", "match", ra, case.real["match"]))
    return diffs


def corpus_cases():
    out = []
    d = os.path.join(VERIF, "corpus", "C12")
    if os.path.isdir(d):
        for f in sorted(os.listdir(d)):
            if f.endswith(".json"):
                with open(os.path.join(d, f)) as fh:
                    for j in json.load(fh):
                        out.append(case_from_json(j, "corpus/" + f))
    return out


def val_from_json(v):
    if isinstance(v, dict):
        if "hex" in v:
            return bytes.fromhex(v["hex"])
        if "kw" in v:
            return ('kw', v["kw"].encode())
        if "fn" in v:
            return ('fn', v["fn"])
        if "struct" in v:
            return ('struct', [(val_from_json(k), val_from_json(x)) for k, x in v["struct"]])
    return v


def val_to_json(v):
    if isinstance(v, bytes):
        return {"hex": v.hex()}
    if isinstance(v, tuple):
        if v[0] == 'kw':
            return {"kw": v[1].decode()}
        if v[0] == 'fn':
            return {"fn": v[1]}
        if v[0] == 'struct':
            return {"struct": [[val_to_json(k), val_to_json(x)] for k, x in v[1]]}
    return v


def patt_to_json(p):
    out = [p[0]]
    for x in p[1:]:
        if isinstance(x, tuple) and x and isinstance(x[0], str) and x[0] not in ('kw', 'fn', 'struct'):
            out.append({"p": patt_to_json(x)})
        elif isinstance(x, list):
            if p[0] == 'grammar':
                out.append([[n, patt_to_json(q)] for n, q in x])
            elif p[0] == 'range':
                out.append([list(t) for t in x])
            else:
                out.append([patt_to_json(q) for q in x])
        elif isinstance(x, bool) or x is None or isinstance(x, int):
            out.append(x)
        else:
            out.append({"v": val_to_json(x)})
    return out


def patt_from_json(j):
    k = j[0]
    out = [k]
    for x in j[1:]:
        if isinstance(x, dict) and "p" in x:
            out.append(patt_from_json(x["p"]))
        elif isinstance(x, dict) and "v" in x:
            out.append(val_from_json(x["v"]))
        elif isinstance(x, list):
            if k == 'grammar':
                out.append([(n, patt_from_json(q)) for n, q in x])
            elif k == 'range':
                out.append([tuple(t) for t in x])
            else:
                out.append([patt_from_json(q) for q in x])
        else:
            out.append(x)
    return tuple(out)


def case_to_json(c):
    return {"grammar": patt_to_json(c.g), "source": peggen.janet_source(c.g), "text_hex": c.text.hex(), "start": c.start,
            "args": [val_to_json(a) for a in c.args], "subst": val_to_json(c.subst), "noscan": c.noscan}


def case_from_json(j, origin):
    c = _case_from_json(j, origin)
    c.noscan = bool(j.get("noscan"))
    return c


def _case_from_json(j, origin):
    return Case(patt_from_json(j["grammar"]), bytes.fromhex(j["text_hex"]), j.get("start", 0),
                [val_from_json(a) for a in j.get("args", [])], val_from_json(j.get("subst", {"hex": "58"})), origin)


def gen_cases(rng, n, per_grammar=3, max_depth=4, features=None, context=False, scoping=False, family=None):
    g = peggen.Gen(rng, max_depth=max_depth, features=features)
    out = []
    while len(out) < n:
        if family is not None:
            p = getattr(g, family)()
        else:
            p = g.scoping() if scoping else (g.context() if context else g.top())
        if peggen.size(p) > 40:
            continue
        for _ in range(per_grammar + (2 if scoping else 0)):
            t = g.scoping_text(p) if scoping else g.text_for(p)
            st = rng.choice([0, 0, 0, 1, 2, len(t)])
            st = min(st, len(t))
            out.append(Case(p, t, st, g.args(), g.subst(), "gen" if family is None else "gen/" + family))
    return out[:n]


def shrink(case, still_fails, seconds=45):
    """greedy structural minimisation of the grammar and the text while `still_fails(case)` holds (bounded wall time)"""
    import time
    t_end = time.time() + seconds
    def variants(p):
        for c in peggen.children(p):
            yield c
        k = p[0]
        if k in ('seq', 'choice') and len(p[1]) > 1:
            for i in range(len(p[1])):
                yield (k, p[1][:i] + p[1][i + 1:])
        if k == 'grammar':
            return
        # replace one child by a shrunk version
        kids = peggen.children(p)
        for i, c in enumerate(kids):
            for v in variants(c):
                yield replace_child(p, i, v)

    def replace_child(p, i, v):
        k = p[0]
        if k in ('seq', 'choice'):
            return (k, p[1][:i] + [v] + p[1][i + 1:])
        if k in ('if', 'ifnot', 'lenprefix', 'sub', 'split', 'til'):
            return (k, v, p[2]) if i == 0 else (k, p[1], v)
        if k in ('not', 'any', 'some', 'opt', 'to', 'thru', 'drop', 'onlytags', 'error'):
            return (k, v)
        if k in ('look', 'atleast', 'atmost', 'repeat', 'capture', 'accumulate', 'group', 'unref'):
            return (k, p[1], v)
        if k in ('between', 'replace', 'cmt', 'nth', 'number'):
            return (k, p[1], p[2], v)
        return p
    best = case
    budget = 150
    improved = True
    while improved and budget > 0:
        improved = False
        cands = []
        for v in variants(best.g):
            cands.append(Case(v, best.text, best.start, best.args, best.subst, best.origin))
        for i in range(len(best.text)):
            t = best.text[:i] + best.text[i + 1:]
            cands.append(Case(best.g, t, min(best.start, len(t)), best.args, best.subst, best.origin))
        if best.start:
            cands.append(Case(best.g, best.text, 0, best.args, best.subst, best.origin))
        if best.args:
            cands.append(Case(best.g, best.text, best.start, best.args[:-1], best.subst, best.origin))
        for c in cands:
            budget -= 1
            if budget <= 0 or time.time() > t_end:
                budget = 0
                break
            try:
                if peggen.size(c.g) + len(c.text) < peggen.size(best.g) + len(best.text) + (1 if c.start < best.start else 0) and still_fails(c):
                    best, improved = c, True
                    break
            except Exception:
                continue
    return best


def private_copies(paths):
    """Copies of the harness / driver executables in a directory of this process, removed at exit: a long sweep must not depend
    on files that a concurrent run may relink (lean/.lake/build/bin) or that another check's build-cache purge may remove
    (/var/tmp/janet-verif/<hash> is purged after 30 minutes without use; /repo HEAD may move while a thorough run is going)."""
    import atexit
    import shutil
    import tempfile
    d = tempfile.mkdtemp(prefix="c12-%d-" % os.getpid(), dir="/var/tmp")
    atexit.register(shutil.rmtree, d, True)
    out = []
    for p_ in paths:
        if p_ is None:
            out.append(None)
            continue
        q = os.path.join(d, os.path.basename(p_))
        shutil.copy2(p_, q)
        out.append(q)
    return out


def tieskel_failures(ctx):
    """names of the theorems of Peg/TieSkel.lean in which lake reported an error (from the build log)"""
    import re
    logp = os.path.join(ctx.replay_dir, "lake-JanetModel.Peg.TieSkel.log")
    import vlib.core as vcore
    src = os.path.join(vcore.LEAN, "JanetModel", "Peg", "TieSkel.lean")
    try:
        with open(logp) as f:
            log = f.read()
        with open(src) as f:
            lines = f.read().splitlines()
    except OSError:
        return []
    starts = [(i + 1, m.group(1) or "example at line %d" % (i + 1)) for i, l in enumerate(lines)
              for m in [re.match(r"(?:theorem (\w+)|example\b|def \w+|macro\b)", l)] if m]
    out = []
    for m in re.finditer(r"error: [^\n]*TieSkel\.lean:(\d+):", log):
        ln = int(m.group(1))
        name = None
        for a, nm in starts:
            if a <= ln:
                name = nm
        if name and name not in out:
            out.append(name)
    return out


def run(ctx, only_cases=None):
    quick = ctx.tier == "quick"
    broken = []
    # (A) regenerate + tie on the shape of peg_rule
    leak = 0
    tie_info = {"cases_changed": [], "ir_rules": list(gen_pegskel.IR_RULES)}
    try:
        ctx.build.boot()
        tree = ctx.build.tree
        ctx.gen("Peg.lean", gen_peg.render(tree))
        x = gen_peg.extract(tree)
        leak = (1 if "RULE_LENPREFIX" in x["mode_leaks"] else 0) + (2 if x["num_raw"] else 0)
        ctx.gen("PegSkel.lean", gen_pegskel.render(tree))
        sk = gen_pegskel.extract(tree)
        with open(CANON) as f:
            known = json.load(f)
        # cases whose C-function callback runs between janet_gclock / janet_gcunlock (recognised as ONE pair, dropped)
        tie_info["gc_locked_callback"] = sk.get("gc_locked", [])
        for r, why in sorted(sk["problems"].items()):
            broken.append("tie: peg_rule case %s is no longer in the statement language of Peg/Skel.lean (%s)" % (r, why))
        for r, c in sorted(sk["canons"].items()):
            if c in known.get(r, []):
                continue
            tie_info["cases_changed"].append(r)
            if r in gen_pegskel.IR_RULES:
                continue          # decided semantically by Peg/TieSkel.lean below
            broken.append("tie: peg_rule case %s differs from the source the Lean model (Peg/Op.lean) mirrors: %s" % (
                r, gen_pegskel.token_diff(known[r][0], c) if known.get(r) else "unknown case"))
        if x["num_raw"]:
            broken.append("translator: RULE_CAPTURE_NUM accumulates the matched text instead of the captured number when the grammar has no back-reference")
        if x["depth_bad"]:
            broken.append("translator: down1/up1 not balanced on some path of peg_rule case(s) %s (exit balances %s)" % (
                ",".join(x["depth_bad"]), {k: x["depth_exits"][k] for k in x["depth_bad"]}))
        if x["mode_leaks"] or x["window_leaks"]:
            broken.append("translator: peg_rule can return with s->mode / s->text_end not restored in %s" % ",".join(x["mode_leaks"] + x["window_leaks"]))
    except ExtractError as e:
        broken.append("translator tools/gen/peg.py: %s" % e)
    except BuildError as e:
        ctx.violation("build-failed", {"kind": "build", "error": str(e)}, found=False, what="tree does not build")
        return ctx.finish("proof", {"evaluations": 0, "distinct_nontrivial": 0})
    ctx.broken += broken
    # (B,C)
    broken += ctx.obligations("JanetModel.Props.C12", THEOREMS)
    broken += ctx.obligations("JanetModel.Peg.Tie", TIE)
    sk_broken = ctx.obligations("JanetModel.Peg.TieSkel", TIESKEL)
    if sk_broken:
        named = tieskel_failures(ctx)
        if named:
            msg = "JanetModel.Peg.TieSkel: the current peg.c case no longer IS the Op.step case for " + ", ".join(named)
            ctx.broken.append(msg)
            sk_broken = sk_broken + [msg]
    broken += sk_broken
    if not sk_broken:
        broken += ctx.obligations("JanetModel.Peg.TieSkelRun", TIESKELRUN)
    tie_info["ir_rules_changed_but_proved_equal"] = [] if sk_broken else [r for r in tie_info["cases_changed"] if r in gen_pegskel.IR_RULES]
    if not quick:
        ok, log = ctx.leanchecker("JanetModel.Props.C12")
        if not ok:
            broken.append("leanchecker JanetModel.Props.C12: " + log[-300:])
    # (D,E)
    drv = ctx.driver()
    try:
        hx_exe = ctx.build.harness("asan", "c12pegrun", [os.path.join(VERIF, "harness/C12/pegrun.c")])
    except BuildError as e:
        hx_exe = None
        broken.append("harness does not compile against the current tree: %s" % str(e)[-400:])
    hx_exe, drv = private_copies([hx_exe, drv])
    n = 2400 if quick else 180000
    if broken:
        n *= 3          # something no longer checks: search harder for a concrete failing input
    cases = corpus_cases() if only_cases is None else list(only_cases)
    if only_cases is None:
        cases += gen_cases(ctx.rng.fork("core"), n // 4, features=set(pegref.CORE), max_depth=4)
        cases += gen_cases(ctx.rng.fork("context"), n // 3, context=True)
        cases += gen_cases(ctx.rng.fork("scoping"), n // 8, scoping=True)
        cases += gen_cases(ctx.rng.fork("all"), n - n // 4 - n // 3 - n // 8, max_depth=4)
        # nested text windows with window-end-sensitive matching after the inner window; tagged captures nested in another
        # capture mode with a later reader of the tag (on top of the budget above)
        cases += gen_cases(ctx.rng.fork("windows"), n // 8, family="windows", per_grammar=4)
        cases += gen_cases(ctx.rng.fork("tagged-nest"), n // 8, family="tagged_nest", per_grammar=3)
    for c in cases:
        c.leak = leak
    stats = {"cases": len(cases), "harness_lines": 0, "model_lines": 0}
    diffs_all, crashes = [], []
    if hx_exe and drv:
        solo = [c for c in cases if "solo" in c.origin]      # scenarios that may abort the process run alone
        rest = [c for c in cases if "solo" not in c.origin]
        # small chunks: the time one chunk takes must not depend on the size of the sweep (a loaded box must not turn a big
        # chunk into a "hang"); quick: <= 32 chunks of ~110 cases, thorough: chunks of ~300 cases
        nchunks = max(1, min(32, len(rest) // 40)) if quick else max(1, len(rest) // 300)
        chunks = [[c] for c in solo] + [rest[i::nchunks] for i in range(nchunks)]
        def one(ch):
            try:
                ctx.build._touch()          # keep the build directory of this tree alive during a long sweep
            except (OSError, AttributeError):
                pass
            t0 = 120 if quick else 300
            cr = run_chunk(hx_exe, drv, ch, leak, t0)
            if cr and cr["rc"] is None:
                # timeout: once more, alone and with four times the budget, before calling it a hang (load, not the input)
                cr = run_chunk(hx_exe, drv, ch, leak, 4 * t0)
            return cr
        with cf.ThreadPoolExecutor(16) as ex:
            res = list(ex.map(one, chunks))
        crashes = [r for r in res if r]
        for c in cases:
            stats["harness_lines"] += 1 + len(c.real) + len(c.scan)
            stats["model_lines"] += len(c.model)
            for d in compare(c):
                diffs_all.append((c, d))
    # ---- report
    kinds_hist, outcome_hist, ref_checked = {}, {}, 0
    for c in cases:
        for k, v in peggen.kinds(c.g).items():
            kinds_hist[k] = kinds_hist.get(k, 0) + v
        o = c.real.get("match", "?")
        o = "fail" if o == "M-" else ("error" if o.startswith("E:") else ("match+caps" if o not in ("M[]", "?") else ("match" if o == "M[]" else "?")))
        outcome_hist[o] = outcome_hist.get(o, 0) + 1
        if getattr(c, "ref", None) is not None:
            ref_checked += 1

    def single_fails(kind):
        def f(c2):
            c2.leak = leak
            cr = run_chunk(hx_exe, drv, [c2], leak)
            if cr:
                return kind == "crash"
            return any(d[0] == kind for d in compare(c2))
        return f
    reported = set()
    for cr in crashes[:4]:
        c = cr["case"]
        m = shrink(c, single_fails("crash"))
        run_chunk(hx_exe, drv, [m], leak)
        sig = "crash:" + peggen.janet_source(m.g)[:60]
        if sig in reported:
            continue
        reported.add(sig)
        ctx.violation(sig, {"kind": "crash", "case": case_to_json(m), "line": cr["line"], "rc": cr["rc"], "stderr": cr["stderr"]},
                      what="implementation crashed / hung (rc None = timeout) / sanitizer report in peg %s on %s" % (cr["entry"], m.describe()))
    # property-level disagreements first: spec / ref / scan are oracles of the property itself
    order = {"spec": 0, "ref": 1, "scan": 2, "compile": 3, "op": 4, "den": 5, "validate": 6, "cmodel": 7, "notag": 8}
    diffs_all.sort(key=lambda cd: (order[cd[1][0]], peggen.size(cd[0].g) + len(cd[0].text)))
    direct = [cd for cd in diffs_all if cd[1][0] in ("spec", "ref", "scan")]
    seen_sigs = 0
    for c, d in direct:
        if seen_sigs >= 3:
            break
        m = shrink(c, single_fails(d[0]))
        m.leak = leak
        run_chunk(hx_exe, drv, [m], leak)
        dd = [x for x in compare(m) if x[0] == d[0]] or [d]
        ops = sorted(set(k for k in peggen.kinds(m.g) if k not in ('str', 'seq', 'choice', 'int', 'capture', 'grammar', 'range', 'set')))
        sig = "%s:%s:%s" % (d[0], dd[0][1], "+".join(ops))
        if sig in reported:
            continue
        reported.add(sig)
        seen_sigs += 1
        ctx.violation(sig, {"kind": "semantics", "oracle": {"spec": "Lean Spec (documented meaning)", "ref": "python reference interpreter",
                                                          "scan": "repeated real peg/match"}[d[0]],
                            "entry": dd[0][1], "expected": dd[0][2], "observed": dd[0][3], "case": case_to_json(m), "unminimised": case_to_json(c),
                            "model_answers": {"%s/%s" % k: v for k, v in m.model.items()}, "broken": broken},
                      what="peg/%s on %s: implementation gives %s, %s gives %s" % (dd[0][1], m.describe(), dd[0][3], d[0], dd[0][2]))
    model_only = [cd for cd in diffs_all if cd[1][0] in ("op", "den", "compile", "validate", "cmodel", "notag")]
    if model_only:
        c, d = model_only[0]
        broken.append("correspondence %s/%s: %d differing answers, first on %s: model %s, implementation %s" % (d[0], d[1], len(model_only), c.describe(), d[2], d[3]))
        ctx.broken.append(broken[-1])
    if broken and not direct and not crashes:
        ctx.violation("broken:" + broken[0][:80], {"kind": "broken-obligation", "broken": broken}, found=False,
                      what="no longer shown to hold: " + "; ".join(broken)[:800])
    cov = {
        "evaluations": stats["harness_lines"] + stats["model_lines"],
        "distinct_nontrivial": len(set((peggen.janet_source(c.g), c.text, c.start) for c in cases if peggen.size(c.g) > 1)),
        "rule": "generated grammars (every combinator, depth <= 4, nested grammars, guarded recursion, tags, all capture modes) x texts over "
                "{a,b,1,\\n}+noise incl. empty, start offsets, 0-3 extra args; per case: real dump/match/find/find-all/replace/replace-all + "
                "real match of (* G ($)) at every position (ASan, exact-size text); Lean Op+Den on the dumped bytecode, Lean Spec on the source; "
                "python reference on the core fragment; non-trivial = distinct (grammar,text,start) with grammar size > 1",
        "samples": [c.describe() for c in cases[:2] + cases[-2:]],
        "case_families": {o: sum(1 for c in cases if c.origin == o) for o in sorted(set(c.origin for c in cases))},
        "cases": len(cases), "harness_answers": stats["harness_lines"], "model_answers": stats["model_lines"],
        "python_reference_checked": ref_checked, "combinator_histogram": dict(sorted(kinds_hist.items())), "match_outcomes": outcome_hist,
        "text_lengths": {str(k): sum(1 for c in cases if len(c.text) == k) for k in sorted(set(len(c.text) for c in cases))},
        "compiled_bytecode_validated_against_source": sum(1 for c in cases if c.model.get(("validate", "compile")) == "V1"),
        "compile_model_compared_with_real": sum(1 for c in cases if c.model.get(("cmodel", "compile"), "-") != "-"),
        "compile_model_words_equal_real": sum(1 for c in cases if c.dump and c.model.get(("cmodel", "compile")) == c.dump + " E0"),
        "compile_model_rejected_not_compared": sum(1 for c in cases if c.model.get(("cmodel", "compile")) == "-"),
        "compile_model_recursive_grammars": sum(1 for c in cases if c.model.get(("cmodel", "compile"), "-") != "-" and peggen.canon_tags(c.g)[1]),
        "compile_model_fraction_of_compiled_grammars": "%d/%d" % (
            sum(1 for c in cases if c.dump and c.model.get(("cmodel", "compile")) == c.dump + " E0"),
            sum(1 for c in cases if c.dump and c.dump.startswith("B "))),
        "has_backref_0_certified_unobservable": "%d/%d" % (
            sum(1 for c in cases if c.dump and c.dump.startswith("B 0 ") and c.model.get(("notag", "compile"), "").startswith("T1")),
            sum(1 for c in cases if c.dump and c.dump.startswith("B 0 "))),
        "has_backref_1": sum(1 for c in cases if c.dump and c.dump.startswith("B 1 ")),
        "validation_expected": sum(1 for c in cases if getattr(c, "expect_valid", False)),
        "model_timeouts": sum(1 for c in cases if getattr(c, "model_timeout", False)),
        "peg_rule_tie": tie_info,
        "disagreements": len(diffs_all), "crashes": len(crashes), "lenprefix_mode_leak_in_source": bool(leak & 1), "number_raw_accumulate_in_source": bool(leak & 2),
    }
    return ctx.finish("proof", cov, assumptions=[
        "Spec = documented meaning of each combinator read as one instruction of the denotational semantics (Peg/Spec.lean, Peg/Den.lean); "
        "where documentation is silent the observed behaviour is followed (notes/C12.md)",
        "compiled-vs-source: compile_correct is proved for EVERY grammar accepted by the executable model of peg_compile1 "
        "(Peg/Compile.lean: all of peg_specials, rule cache, keyword references, nested and recursive grammars, constants); the model is "
        "tied to peg.c by comparing has_backref, bytecode and constants word for word with the real peg/compile on every generated "
        "grammar (fraction in coverage.compile_model_fraction_of_compiled_grammars); tags are numbered by the harness in emit_tag order; "
        "the REAL compiler's output is additionally validated per non-recursive grammar by the proved-sound validator",
        "Env.stackn (janet_vm.stackn at entry, used by the C-stack charge around capture functions) is 0 in the driver: the "
        "'C stack recursed too deeply' error of RULE_REPLACE/RULE_MATCHTIME is modelled and covered by op_eq_den but not exercised by correspondence",
        "number scanning, janet_to_string of non-modelled values, user functions other than the harness' f-* are outside the model"])


def replay(ctx, path):
    with open(path) as f:
        r = json.load(f)
    print(json.dumps({k: v for k, v in r.items() if k not in ("unminimised", "model_answers")}, indent=1)[:3000])
    if "case" not in r:
        return run(ctx)
    return run(ctx, only_cases=[case_from_json(r["case"], "replay")])
