"""C19 - arbitrarily deep nesting or recursion yields an error, not a crash.

(A) tools/gen/callgraph.py: LLVM-IR call graph of the bootstrapped amalgamation -> Gen/Depth.lean (cycle nodes, edges,
    guard marks from source idioms, rank certificate)
(B,C) Props/C19: `bounded_depth` for every graph; per-run obligation `rankOK Gen.cg = true` (kernel `decide`); hand models
    of the non-recursive designs (compare/equals traversal stack, parser state stack, gc spill) and tail-call frame reuse
(D) correspondence: model driver (jm_c19) vs implementation on the fiber frame arithmetic of tail calls / guard counter
(E) direct oracle: dynamic sweep of every recursive consumer x container kind x depth 1..10^6 under 1 MB and 8 MB
    native stack; a process killed by a signal / sanitizer stack-overflow report is the violation (replay = consumer,
    kind, depth).  Unguarded cycles reported by the static part are mapped to consumers and swept harder.
"""
import concurrent.futures as cf
import json
import os
import re
import resource
import subprocess
import time

from vlib.core import VERIF
from vlib.build import BuildError
from tools.gen import callgraph as cgm
from tools.gen import cgstack as csm
from tools.gen import cgguard as cgg
from tools.gen.csrc import ExtractError

SWEEP = os.path.join(VERIF, "harness/C19/sweep.janet")

DATA_KINDS = ["tuple", "btuple", "array", "struct", "structkey", "table", "tablekey", "mixed", "tproto", "sproto", "wide",
              "carray", "ctable"]
IMMUTABLE = ["tuple", "btuple", "struct", "structkey", "sproto", "wide"]
SRC_KINDS = ["tuple", "btuple", "array", "struct", "table", "structkey", "tablekey", "mixed", "wide"]
ACYCLIC = [k for k in DATA_KINDS if k not in ("carray", "ctable")]

# consumer -> (kinds, max depth cap or None, group)
CONSUMERS = {
    "parse": (SRC_KINDS, None, "parse"), "parse-quote": (["tuple", "btuple", "array", "struct", "table"], None, "parse"),
    "parse-all": (["tuple", "array", "table"], None, "parse"), "eval-string": (["tuple", "btuple", "array", "struct"], None, "parse"),
    "compare": (DATA_KINDS, None, "compare"), "less": (ACYCLIC, None, "compare"), "equal": (DATA_KINDS, None, "compare"),
    "notequal": (ACYCLIC, None, "compare"), "deep-eq": (DATA_KINDS, None, "compare"),
    "hash": (DATA_KINDS, None, "hash"), "table-key": (ACYCLIC, None, "hash"),
    "describe": (DATA_KINDS, None, "print"), "string": (DATA_KINDS, None, "print"), "fmt-j": (DATA_KINDS, None, "print"),
    "fmt-p": (DATA_KINDS, None, "print"), "fmt-P": (["tuple", "table", "carray"], None, "print"),
    "fmt-q": (DATA_KINDS, None, "print"), "fmt-m": (DATA_KINDS, None, "print"), "fmt-v": (DATA_KINDS, None, "print"),
    "pp": (DATA_KINDS, None, "print"), "pp-depth": (["tuple", "array", "struct", "table", "carray"], None, "print"),
    "marshal": (DATA_KINDS, None, "marshal"), "unmarshal": (["tuple", "btuple", "array", "struct", "table", "wide"], None, "marshal"),
    "unmarshal-defs": (["tuple"], None, "marshal"), "unmarshal-abstract": (["tuple"], None, "marshal"),
    # one consumer per recursive edge kind of unmarshal: value of a function environment, funcdef constant, environment
    # of a fiber's stack frame, fiber child (sub-def and abstract payload are the two above)
    "unmarshal-env": (["tuple"], None, "marshal"), "unmarshal-constants": (["tuple"], None, "marshal"),
    "unmarshal-fiber-env": (["tuple"], None, "marshal"), "unmarshal-fiber-child": (["tuple"], None, "marshal"),
    # MARSHAL (then unmarshal, then compare the nesting) of values nested through the abstract types whose marshal hook
    # calls back into the marshaller: compiled PEG holding a compiled PEG in its constant pool, channel holding a
    # channel as queued item; directly or through a tuple / table
    "marshal-abstract-peg": (["direct", "tuple", "table"], None, "marshal"),
    "marshal-abstract-chan": (["direct", "tuple", "table"], None, "marshal"),
    "compile-destructure-head": (["btuple"], None, "compile"),
    "freeze": (DATA_KINDS, None, "freeze"), "thaw": (DATA_KINDS, None, "freeze"),
    "gc": (DATA_KINDS, None, "gc"), "gc-closures": (["tuple"], None, "gc"), "gc-fibers": (["tuple"], None, "gc"),
    "gc-fiber-children": (["tuple"], 2 ** 17, "gc"),
    "peg-compile": (["tuple", "btuple", "array", "struct", "table", "wide", "mixed"], None, "peg"),
    "peg-match": (["tuple", "btuple", "array", "struct"], None, "peg"),
    "macex": (["tuple"], None, "macro"), "macex-chain": (["tuple"], None, "macro"), "macex1": (["tuple"], None, "macro"),
    "compile": (SRC_KINDS + ["tproto", "sproto"], None, "compile"),
    "compile-qq": (ACYCLIC, None, "compile"), "compile-qq-nest": (["tuple"], None, "compile"),
    "compile-destructure": (["btuple", "array", "struct", "table", "mixed"], None, "compile"),
    "compile-destructure-var": (["btuple"], None, "compile"), "compile-destructure-param": (["btuple"], None, "compile"),
    "call": (["tuple"], None, "call"), "call-mutual": (["tuple"], None, "call"), "call-fiber": (["tuple"], None, "call"),
    "call-cfun": (["tuple"], None, "call"), "call-method": (["tuple"], None, "call"), "call-gen": (["tuple"], None, "call"),
    "call-apply": (["tuple"], None, "call"),
    "asm": (["tuple"], None, "asm"), "asm-env": (["tuple"], None, "asm"), "asm-type": (["tuple"], None, "asm"),
    "disasm": (["tuple"], 256, "asm"), "asm-disasm": (["tuple"], None, "asm"),
    "ffi-struct": (["tuple"], None, "ffi"), "ffi-struct-chain": (["tuple"], None, "ffi"),
    "ffi-write-chain": (["tuple"], None, "ffi"), "ffi-sig-chain": (["tuple"], None, "ffi"),
    "nest-macro-compile": (["tuple"], 128, "nest"), "nest-peg-cmt": (["tuple"], 512, "nest"), "nest-qq": (["tuple"], 256, "nest"),
    "tail": (["tuple"], None, "tail"), "tail-mutual": (["tuple"], None, "tail"), "tail-apply": (["tuple"], None, "tail"),
    "tail-varargs": (["tuple"], None, "tail"),
}

# functions on an unguarded cycle -> the consumers that drive them (witness search, step E)
ENTRY_CONSUMERS = {
    "janet_asm1": ["asm", "asm-disasm"], "janet_asm_addenv": ["asm-env"], "doarg_1": ["asm-type"],
    "janet_disasm": ["disasm", "asm-disasm"], "janet_disasm_defs": ["disasm", "asm-disasm"],
    "destructure": ["compile-destructure", "compile-destructure-var", "compile-destructure-param"],
    "dohead_destructure": ["compile-destructure-head"],
    "janet_mark_fiber": ["gc-fibers", "gc-fiber-children"], "janet_mark_function": ["gc-fibers", "gc-closures"],
    "janet_mark_funcenv": ["gc-fibers", "gc-closures"], "janet_mark_funcdef": ["asm-disasm", "disasm"],
    "build_struct_type": ["ffi-struct"], "decode_ffi_type": ["ffi-struct"], "janet_ffi_read_one": ["ffi-struct-chain"],
    "janet_ffi_write_one": ["ffi-write-chain"], "sysv64_classify_ext": ["ffi-sig-chain"],
    "unmarshal_one_def": ["unmarshal-defs", "unmarshal-constants"], "unmarshal_one_abstract": ["unmarshal-abstract"],
    "unmarshal_one_env": ["unmarshal-env", "unmarshal-fiber-env"], "unmarshal_one_fiber": ["unmarshal-fiber-child", "unmarshal-fiber-env"],
    "marshal_one_abstract": ["marshal-abstract-peg", "marshal-abstract-chan"],
    "janet_marshal_janet": ["marshal-abstract-peg", "marshal-abstract-chan"],
    "janet_unmarshal_janet": ["unmarshal-abstract", "marshal-abstract-peg", "marshal-abstract-chan"],
}
GROUP_OF_PREFIX = [("janet_mark", "gc"), ("marshal_", "marshal"), ("unmarshal_", "marshal"), ("janetc_", "compile"),
                   ("peg_", "peg"), ("spec_", "peg"), ("janet_pretty", "print"), ("print_jdn", "print"),
                   ("janet_formatb", "print"), ("run_vm", "call"), ("janet_call", "call"), ("janet_continue", "call"),
                   ("quasiquote", "compile"), ("macroexpand", "macro")]


UNMARSHAL_EDGE_CONSUMERS = ["unmarshal-defs", "unmarshal-abstract", "unmarshal-env", "unmarshal-constants", "unmarshal-fiber-env",
                            "unmarshal-fiber-child"]
MARSHAL_ABSTRACT_CONSUMERS = ["marshal-abstract-peg", "marshal-abstract-chan"]


def depth_schedule(limits, tier, top):
    ds = set()
    d = 1
    while d <= top:
        ds.add(d)
        d *= 2
    ds.add(top)
    if tier == "quick":
        ds.discard(2 ** 19)
    for lim in limits:
        for k in (1, 2):                # several consumers spend 2 guard units per nesting level (others: bisected)
            for e in (-2, -1, 0, 1, 2):
                v = lim // k + e
                if 1 <= v <= top:
                    ds.add(v)
    if tier != "quick":
        d = 3
        while d <= top:
            ds.add(d)
            d *= 2
    return sorted(ds)


def _limit_stack(kb):
    def f():
        if kb:
            resource.setrlimit(resource.RLIMIT_STACK, (kb * 1024, kb * 1024))
        resource.setrlimit(resource.RLIMIT_CORE, (0, 0))
    return f


RES = re.compile(r"^(BEGIN|RES) (\S+) (\S+) (\d+)(?: (.*))?$")


def run_one(janet, consumer, kind, depths, stack_kb, timeout, env):
    """run the sweep script on a list of depths; returns (results {depth: 'ok'|'err:..'}, crash or None)
    crash = dict(depth=, rc=, stderr=)"""
    results = {}
    todo = list(depths)
    crash = None
    while todo:
        try:
            r = subprocess.run([janet, SWEEP, consumer, kind] + [str(d) for d in todo], stdout=subprocess.PIPE,
                               stderr=subprocess.PIPE, timeout=timeout, env=env, preexec_fn=_limit_stack(stack_kb))
            rc, out, err = r.returncode, r.stdout, r.stderr
        except subprocess.TimeoutExpired as e:
            rc, out, err = None, e.stdout or b"", e.stderr or b""
        began = None
        for line in out.decode(errors="replace").splitlines():
            m = RES.match(line)
            if not m:
                continue
            if m.group(1) == "BEGIN":
                began = int(m.group(4))
            else:
                results[int(m.group(4))] = m.group(5) or ""
                began = None
        if rc == 0 and began is None:
            break
        if began is None:
            # died outside a measured section (start-up): report as crash at the first pending depth
            began = todo[0] if rc != 0 else None
        if rc is None:
            results[began] = "timeout"
            todo = [d for d in todo if d > began][:0]   # larger depths only get slower: stop here
            break
        crash = dict(depth=began, rc=rc, stderr=err.decode(errors="replace")[-1500:])
        results[began] = "CRASH rc=%s" % rc
        break                                            # larger depths would crash as well; bisect handles the minimum
    return results, crash


def is_crash(rc, stderr):
    return rc is not None and (rc < 0 or rc >= 128 or "AddressSanitizer" in stderr or "runtime error" in stderr)


def sweep(ctx, janet, jobs, stack_kb, timeout, env, label):
    """jobs: list of (consumer, kind, depths).  returns (table, crashes)"""
    table, crashes = {}, []

    def work(job):
        c, k, ds = job
        res, crash = run_one(janet, c, k, ds, stack_kb, timeout, env)
        if crash:
            # minimise: smallest crashing depth between the last finished depth and the crash depth
            lo = max([d for d, v in res.items() if d < crash["depth"] and not v.startswith("CRASH")] or [0])
            hi = crash["depth"]
            while hi - lo > 1:
                mid = (lo + hi) // 2
                r2, c2 = run_one(janet, c, k, [mid], stack_kb, timeout, env)
                if c2:
                    hi, crash = mid, c2
                    res[mid] = r2[mid]
                else:
                    lo = mid
                    res[mid] = r2.get(mid, "?")
            crash["depth"] = hi
            crash["last_ok_depth"] = lo
        return job, res, crash

    with cf.ThreadPoolExecutor(int(os.environ.get("VERIF_JOBS", "16"))) as ex:
        for (c, k, ds), res, crash in ex.map(work, jobs):
            table[(c, k)] = res
            if crash:
                crash.update(consumer=c, kind=k, stack_kb=stack_kb, variant=label)
                crashes.append(crash)
    return table, crashes


def transitions(table):
    """(consumer, kind) -> (last ok depth, first err depth, message) for every ok->err transition in the sweep"""
    out = {}
    for (c, k), res in table.items():
        ds = sorted(res)
        for a, b in zip(ds, ds[1:]):
            if res[a] == "ok" and res[b].startswith("err:"):
                out[(c, k)] = (a, b, res[b])
                break
    return out


def refine_limits(ctx, janet, table, stack_kb, timeout, env, label, keep=None):
    """bisect every ok->err transition to the exact guard depth T and run T-2..T+2 there
    (keep: restrict to these (consumer, kind) pairs - quick tier: first kind of every consumer and the suspects)"""
    tr = transitions(table)
    if keep is not None:
        tr = {k: v for k, v in tr.items() if k in keep}
    crashes = []
    limits = {}

    def work(item):
        (c, k), (lo, hi, msg) = item
        extra = {}
        while hi - lo > 1:
            mid = (lo + hi) // 2
            r, cr = run_one(janet, c, k, [mid], stack_kb, timeout, env)
            extra.update(r)
            if cr:
                return (c, k), None, extra, cr
            if r.get(mid) == "ok":
                lo = mid
            else:
                hi = mid
        around = [d for d in range(hi - 2, hi + 3) if d >= 1 and d not in extra and d not in table[(c, k)]]
        r, cr = run_one(janet, c, k, around, stack_kb, timeout, env)
        extra.update(r)
        return (c, k), hi, extra, cr

    with cf.ThreadPoolExecutor(int(os.environ.get("VERIF_JOBS", "16"))) as ex:
        for key, t, extra, cr in ex.map(work, sorted(tr.items())):
            table[key].update(extra)
            if t is not None:
                limits[key] = (t, tr[key][2])
            if cr:
                cr.update(consumer=key[0], kind=key[1], stack_kb=stack_kb, variant=label)
                crashes.append(cr)
    return limits, crashes


def peg_kinds(ctx, janet, broken):
    """kinds for the peg-comb consumers: every use form of harness/C19/pegtemplates.janet; cross-checked against the
    combinator names in the current peg.c (a special without template and not listed as leaf = broken tie)"""
    code = ('(def T (dofile "%s")) (each [n i f] (((T (quote all-uses)) :value)) (print "USE " n "#" i)) '
            '(each n ((T (quote leaf)) :value) (print "LEAF " n))') % os.path.join(VERIF, "harness/C19/pegtemplates.janet")
    r = subprocess.run([janet, "-e", code], stdout=subprocess.PIPE, stderr=subprocess.PIPE, timeout=60)
    uses, leaf = [], set()
    for line in r.stdout.decode().splitlines():
        if line.startswith("USE "):
            uses.append(line[4:])
        elif line.startswith("LEAF "):
            leaf.add(line[5:])
    if r.returncode or not uses:
        broken.append("pegtemplates.janet does not load: " + r.stderr.decode(errors="replace")[-300:])
        ctx.broken.append(broken[-1])
        return []
    try:
        specials = cgm.peg_specials(ctx.build.tree)
    except ExtractError as e:
        broken.append("translator peg_specials: %s" % e)
        ctx.broken.append(broken[-1])
        return uses
    have = set(u.split("#")[0] for u in uses) | leaf
    missing = sorted(n for n, fn in specials if n not in have)
    if missing:
        broken.append("PEG specials without a recursion template in harness/C19/pegtemplates.janet: %s" % ", ".join(missing))
        ctx.broken.append(broken[-1])
    return uses


SCANNING = ("thru", "to", "til", "split", "sub")


def peg_drift(ctx, broken):
    """depth-counter balance oracle: every use form x sub-rule outcome x text on the real peg_rule (wrapper TU, ASan);
    a match that returns normally must leave PegState.depth where it was"""
    try:
        hx = ctx.build.harness("asan", "c19pegdepth", [os.path.join(VERIF, "harness/C19/pegdepth.c")])
    except BuildError as e:
        broken.append("harness pegdepth.c does not compile against the current tree: %s" % str(e)[-300:])
        ctx.broken.append(broken[-1])
        return {"matches": 0}
    env = dict(os.environ, ASAN_OPTIONS="detect_leaks=0:abort_on_error=0")
    rc, out, err = run_cmd_([hx, os.path.join(VERIF, "harness/C19/pegdrift.janet")], "", env)
    lines = out.splitlines()
    summ = [l for l in lines if l.startswith("SUMMARY ")]
    if rc != 0 or not summ:
        ctx.violation("pegdepth-crash", {"kind": "crash", "rc": rc, "stderr": err[-1500:], "stdout": out[-500:]},
                      what="peg depth-balance harness crashed (rc=%s)" % rc)
        return {"matches": 0, "crashed": True}
    n, errs, nd = [int(x) for x in summ[0].split()[1:4]]
    drifts = [l for l in lines if l.startswith("DRIFT ")]
    return {"matches": n, "errors": errs, "drifts": nd, "first": drifts[:5], "by_special": sorted(set(l.split()[1] + "#" + l.split()[2] for l in drifts))}


def consumers_for(bad_cycles):
    out = []
    for cyc in bad_cycles:
        for fn in cyc:
            for c in ENTRY_CONSUMERS.get(fn, []):
                if c not in out:
                    out.append(c)
            for pre, grp in GROUP_OF_PREFIX:
                if fn.startswith(pre):
                    for c, (_, _, g) in CONSUMERS.items():
                        if g == grp and c not in out:
                            out.append(c)
    return out


def run(ctx, only=None):
    quick = ctx.tier == "quick"
    if os.environ.get("C19_ONLY"):          # development aid (mutation testing): restrict the sweep to some consumers
        only = os.environ["C19_ONLY"].split(",")
    broken = []
    g = None
    try:
        ctx.build.boot()
    except BuildError as e:
        ctx.violation("build-failed", {"kind": "build", "error": str(e)}, found=False, what="tree does not build")
        return ctx.finish("proof", {"evaluations": 0, "distinct_nontrivial": 0})
    # (A) regenerate ------------------------------------------------------------------------------------------
    gcerts = None
    try:
        g = cgm.extract(ctx.build)
        # (A1) guards are PROPOSED by source idiom and must be borne out by a control-flow certificate from the IR
        # (tools/gen/cgguard.py -> Gen/DepthGuard.lean, obligations cg_guards_certified / cg_exemptions_certified); a
        # proposal without certificate is withdrawn (it may still be a written exemption, else its cycle is unguarded)
        try:
            gcerts = cgg.extract(ctx.build, g)
            deny = sorted(n for n, _ in gcerts.uncertified if n not in cgg.CHECKERS and not (gcerts.ir_proposed and n.startswith("janet_continue")))
            if deny or gcerts.ir_proposed:
                for nm, why in gcerts.uncertified:
                    ctx.say("guard idiom matched in %s but the IR has no depth test dominating its recursive calls: %s" % (nm, why[:300]))
                for nm, tag in sorted(gcerts.ir_proposed.items()):
                    ctx.say("guard recognised from the IR alone (no source idiom matched): %s as %s" % (nm, tag))
                acc = dict(gcerts.ir_proposed)
                g = cgm.extract(ctx.build, deny=deny, accept=acc)
                gcerts = cgg.extract(ctx.build, g)
                deny2 = sorted(n for n, _ in gcerts.uncertified if n not in cgg.CHECKERS and n not in deny)
                if deny2:
                    deny = sorted(set(deny) | set(deny2))
                    g = cgm.extract(ctx.build, deny=deny, accept=acc)
                    gcerts = cgg.extract(ctx.build, g)
                for nm in deny:
                    ctx.say("  -> %s: %s" % (nm, "covered by the written exemption (" + g.bounded[nm][:80] + "...)" if nm in g.bounded else "NOT a guard any more"))
            for nm, why in gcerts.uncertified:
                broken.append("no guard certificate for %s: %s [theorem cg_guards_certified]" % (nm, why[:300]))
                ctx.broken.append(broken[-1])
                ctx.say(broken[-1])
            for e in gcerts.exempt:
                for f in e["fails"]:
                    broken.append("exemption %s no longer borne out by the IR: %s [theorem cg_exemptions_certified]" % (e["name"], f[:300]))
                    ctx.broken.append(broken[-1])
                    ctx.say(broken[-1])
            ctx.gen("DepthGuard.lean", cgg.render(gcerts, g))
            # (A1b) counter balance on the IR: net charges per block + level labels -> Gen/DepthBalance.lean (cg_counters_balanced_ir)
            bals, bskip = cgg.balance_certs(ctx.build, g, gcerts)
            ctx.gen("DepthBalance.lean", cgg.render_balance(bals))
            for nm, why in bskip:
                broken.append("no IR balance certificate for %s: %s [theorem cg_counters_balanced_ir]" % (nm, why[:200]))
                ctx.broken.append(broken[-1])
                ctx.say(broken[-1])
            for b in bals:
                bad = [(x, y) for (x, y) in b["cfg"] if (b["live"] >> x) & 1 and not (b["stops"] >> x) & 1 and y not in b["rets"]
                       and b["level"][y] != b["level"][x] + b["delta"][x]]
                low = [p for p in b["calls"] if p[1] < 1][{"peg_rule": 2}.get(b["fn"], 0):]      # Props.C19.unchargedAllowed
                neg = [k for k in range(b["n"]) if (b["live"] >> k) & 1 and b["level"][k] < 0]
                if bad or low or neg:
                    broken.append("depth counter %s of %s is not balanced on the IR CFG: %s [theorem cg_counters_balanced_ir]" % (
                        b["counter"], b["fn"], ("blocks %d -> %d are reached with different numbers of outstanding charges" % bad[0]) if bad else
                        ("recursive call in block %d is made without a charge" % low[0][0]) if low else "block %d is reached after more releases than charges" % neg[0]))
                    ctx.broken.append(broken[-1])
                    ctx.say(broken[-1])
            gcerts.balance = bals
            ctx.say("guard certificates: %d functions certified on the IR CFG (%d blocks, %d edges, %d checks, %d recursive-call blocks), "
                    "withdrawn: %s" % (len(gcerts.certs), sum(c["n"] for c in gcerts.certs), sum(len(c["cfg"]) for c in gcerts.certs),
                                       sum(len(c["checks"]) for c in gcerts.certs), sum(len(c["targets"]) for c in gcerts.certs), g.denied))
        except ExtractError as e:
            broken.append("translator tools/gen/cgguard.py: %s" % e)
            ctx.broken.append(broken[-1])
            ctx.say(broken[-1])
        ctx.gen("Depth.lean", cgm.render(g))
        for nm, err in g.exemption_failures:
            ctx.say("exemption no longer valid: %s: %s" % (nm, err))
        for pth in g.unbalanced:
            broken.append("depth counter %s not balanced in %s at %s (%s exit): %d charge(s), %d release(s) [theorem cg_counters_balanced]"
                          % (pth[0], pth[1], pth[2], pth[3], pth[4], pth[5]))
            ctx.broken.append(broken[-1])
            ctx.say(broken[-1])
        for a, b, operand, why in g.deptharg["unknown"]:
            broken.append("marshal depth not handed on by %s (towards %s): `%s` - %s; the depth count restarts there "
                          "[theorem cg_depth_arg_charged]" % (a, b, operand, why))
            ctx.broken.append(broken[-1])
            ctx.say(broken[-1])
        for cyc in g.deptharg["cycles"]:
            broken.append("marshal depth argument not charged on the call cycle %s [theorem cg_depth_arg_charged]" % " -> ".join(cyc))
            ctx.broken.append(broken[-1])
            ctx.say(broken[-1])
        ctx.say("call graph: %d functions, %d call sites, %d on cycles in %d SCCs, %d guard functions; unguarded cycles: %s"
                % (g.nfuncs, g.ncalls, len(g.nodes), len(g.comps), len(g.guard), g.bad))
    except ExtractError as e:
        broken.append("translator tools/gen/callgraph.py: %s" % e)
        ctx.broken.append(broken[-1])
    # (A2) native frame sizes (gcc -fstack-usage, flags of the plain and nohooks variants) -> Gen/DepthStack.lean
    st = None
    if g is not None:
        try:
            st = csm.extract(ctx.build, g)
            ctx.gen("DepthStack.lean", csm.render(st, g))
            tot, parts = csm.budget(st, g)
            ctx.say("stack budget along the heaviest SCC-DAG path: %d of %d bytes (%s)" % (
                st.dag_total, csm.STACK_LIMIT, " -> ".join("%s %d" % (p[1], p[2]) for p in st.dag_path)))
            if st.dag_total >= csm.STACK_LIMIT:
                broken.append("native stack budget along the SCC DAG %d >= %d bytes [theorem cg_dag_budget_ok]" % (st.dag_total, csm.STACK_LIMIT))
                ctx.broken.append(broken[-1])
            ctx.say("stack budget (all SCCs summed): %d of %d bytes (%d functions outside cycles %d B, %d inlined, unbounded dynamic frames outside cycles: %s); "
                    "largest classes: %s" % (tot, csm.STACK_LIMIT, st.transit_n, st.transit, len(st.inlined), st.unbounded,
                                             ", ".join("%s %d" % kv for kv in sorted(parts.items(), key=lambda kv: -kv[1])[:4])))
            for kind, fn, ok in st.sites + [("gc->funcdef", "janet_mark_funcdef", st.funcdef_charged)]:
                if not ok:
                    broken.append("%s (%s) can start another depth-counter instance without handing on the depth it has used: live guard "
                                  "frames multiply (L x L instead of 2L) [theorems cg_reentry_shared, cg_stack_budget_ok]" % (fn, kind))
                    ctx.broken.append(broken[-1])
                    ctx.say(broken[-1])
            if not st.acyclic:
                broken.append("no stack potential exists: a call cycle without a charging guard [theorem cg_pot_ok]")
                ctx.broken.append(broken[-1])
            elif tot >= csm.STACK_LIMIT:
                worst = sorted(parts.items(), key=lambda kv: -kv[1])[0]
                broken.append("native stack budget %d >= %d bytes; largest class %s = %d [theorem cg_stack_budget_ok]" % (tot, csm.STACK_LIMIT, worst[0], worst[1]))
                ctx.broken.append(broken[-1])
                ctx.say(broken[-1])
        except ExtractError as e:
            broken.append("translator tools/gen/cgstack.py: %s" % e)
            ctx.broken.append(broken[-1])
            ctx.say(broken[-1])
    # (B,C) kernel check -------------------------------------------------------------------------------------
    THEOREMS = lean_theorems()
    if THEOREMS:
        broken += ctx.obligations("JanetModel.Props.C19", THEOREMS)
        if not quick:
            ok, log = ctx.leanchecker("JanetModel.Props.C19")
            if not ok:
                broken.append("leanchecker JanetModel.Props.C19: " + log[-300:])
    # corpus: minimised past failures, run first -------------------------------------------------------------------
    corpus_run(ctx)
    # (D) correspondence: frame arithmetic of push / call / tail call, model driver vs fiber.c ------------------------
    corr = tail_correspondence(ctx, g, broken, quick)
    # (E) dynamic sweep ----------------------------------------------------------------------------------------
    v = ctx.try_variant("plain")
    if v is None:
        return ctx.finish("proof", {"evaluations": 0, "distinct_nontrivial": 0})
    drift = peg_drift(ctx, broken)
    if drift.get("drifts"):
        broken.append("peg_rule depth counter not balanced: %d of %d matches leave PegState.depth changed; first: %s"
                      % (drift["drifts"], drift["matches"], drift["first"][0]))
        ctx.broken.append(broken[-1])
    pk = peg_kinds(ctx, v["janet"], broken)
    leaky = set(drift.get("by_special", []))
    if pk:
        CONSUMERS["peg-comb"] = (pk, None, "peg")
        CONSUMERS["peg-compile-comb"] = (pk, 4096, "peg")
    limits_static = [g.limits.get("JANET_RECURSION_GUARD", 1024), g.limits.get("JANET_MAX_PROTO_DEPTH", 200),
                     g.limits.get("JANET_MAX_MACRO_EXPAND", 200)] if g else [1024, 200]
    top = 10 ** 6
    sched = depth_schedule(limits_static, ctx.tier, top)
    suspects = consumers_for(g.bad) if g and g.bad else []
    if g and any(pth[1] == "peg_rule" for pth in g.unbalanced):
        suspects += ["peg-comb", "peg-match"]
    if g and g.deptharg["cycles"]:
        suspects += ["marshal", "unmarshal"] + UNMARSHAL_EDGE_CONSUMERS + MARSHAL_ABSTRACT_CONSUMERS
    if st and not st.all_transfer:
        suspects += ["nest-macro-compile", "nest-peg-cmt", "nest-qq"]
    # a linear recursion that survives depth D under 8 MB survives D/8 under 1 MB, and no C frame is smaller than 32
    # bytes (2^18 * 32 B = 8 MB): quick tier drives the first kind of every consumer (and every suspect named by the
    # static part) to 10^6 and the other kinds to 2^18; thorough drives everything to 10^6.
    jobs = []
    for c, (kinds, cap, grp) in sorted(CONSUMERS.items()):
        if only and c not in only:
            continue
        for i, k in enumerate(kinds):
            t = top if (not quick or i == 0 or c in suspects) else 2 ** 18
            if c == "peg-comb":
                # witness search: a use form with a depth-counter drift is driven to 10^6; scanning combinators re-read
                # the rest of the text at every level (quadratic), so they stop at 2^17 in the quick tier
                t = top if (k in leaky or not quick) else (2 ** 17 if k.split("#")[0] in SCANNING else 2 ** 18)
            if cap:
                t = min(t, cap)
            jobs.append((c, k, [d for d in sched if d <= t]))
    jobs.sort(key=lambda j: (-max(j[2]), j[0], j[1]))      # deepest sweeps first: no long job left for the end of the pool
    env = dict(os.environ, ASAN_OPTIONS="detect_leaks=0:abort_on_error=0:detect_stack_use_after_return=0")
    all_crashes, tables, guard_limits = [], {}, {}
    # quick tier: the verdict configuration only; the 1 MB stack (informational) and ASan run in the thorough tier
    configs = [("plain-8MB", v["janet"], 8192)] + ([] if quick else [("plain-1MB", v["janet"], 1024)])
    if not quick:
        va = ctx.try_variant("asan")
        if va:
            configs.append(("asan-8MB", va["janet"], 8192))
    t0 = time.time()
    for label, janet, kb in configs:
        js = jobs
        if label.startswith("asan"):
            js = [(c, k, [d for d in ds if d <= 2 ** 16]) for c, k, ds in jobs]
        elif kb < 8192:
            firsts = set((c, CONSUMERS[c][0][0]) for c in CONSUMERS)
            js = [(c, k, [d for d in ds if d <= 2 ** 15]) for c, k, ds in jobs if not quick or (c, k) in firsts]
        table, crashes = sweep(ctx, janet, js, kb, 600, env, label)
        keep = None
        if quick:
            keep = set((c, CONSUMERS[c][0][0]) for c in CONSUMERS) | set((c, k) for c, k, _ in jobs if c in suspects)
        lim, cr2 = refine_limits(ctx, janet, table, kb, 600, env, label, keep)
        tables[label] = table
        guard_limits[label] = lim
        all_crashes += crashes + cr2
        ctx.say("sweep %s: %d consumer x kind combinations, %d runs, %d crashes (%.0fs)" % (
            label, len(table), sum(len(r) for r in table.values()), len(crashes) + len(cr2), time.time() - t0))
    # the image builders of the unmarshal consumers cut real images apart: they must work at depth 1 on this tree
    for c in UNMARSHAL_EDGE_CONSUMERS + ["unmarshal"] + MARSHAL_ABSTRACT_CONSUMERS:
        for (cc, k), res in sorted(tables.get("plain-8MB", {}).items()):
            if cc == c and res and not str(res.get(min(res), "")).startswith("ok"):
                broken.append("sweep consumer %s/%s does not work on this tree at depth %d: %s (image builder of harness/C19/sweep.janet no longer fits the marshal format)"
                              % (c, k, min(res), res.get(min(res))))
                ctx.broken.append(broken[-1])
    for (cc, k), res in sorted(tables.get("plain-8MB", {}).items()):
        for d, r in sorted(res.items()):
            if str(r).startswith("err:HARNESS"):
                broken.append("sweep consumer %s/%s at depth %d: %s" % (cc, k, d, r))
                ctx.broken.append(broken[-1])
                break
    # report ---------------------------------------------------------------------------------------------------
    observations = []
    by_consumer = {}
    stack_budget_1mb = []
    for cr in all_crashes:
        if cr["stack_kb"] < 8192:
            # verdicts only at the default 8 MB stack; the 1 MB sweep is informational (native bytes per level x limit)
            stack_budget_1mb.append({k: cr[k] for k in ("consumer", "kind", "depth", "variant", "rc")})
            continue
        if CONSUMERS[cr["consumer"]][2] == "ffi":
            # ffi.c (unsafe foreign interface) is not one of the consumers the property names: recorded, not a violation
            observations.append({k: cr[k] for k in ("consumer", "kind", "depth", "variant", "rc")})
            continue
        by_consumer.setdefault((cr["consumer"], cr["variant"].split("-")[1] if "-" in cr["variant"] and not cr["variant"].startswith("asan") else cr["variant"]), []).append(cr)
    for (c, stack), crs in sorted(by_consumer.items()):
        crs.sort(key=lambda x: (x["depth"], x["variant"]))
        first = crs[0]
        ctx.violation("crash:%s@%s" % (c, stack),
                      {"kind": "crash", "consumer": c, "container": first["kind"], "depth": first["depth"],
                       "stack_kb": first["stack_kb"], "variant": first["variant"], "rc": first["rc"],
                       "last_ok_depth": first.get("last_ok_depth"), "stderr": first["stderr"],
                       "cmd": "ulimit -s %d; <%s>/janet %s %s %s %d" % (first["stack_kb"], first["variant"].split("-")[0], SWEEP, c, first["kind"], first["depth"]),
                       "all": [{k: x[k] for k in ("kind", "depth", "variant", "rc")} for x in crs],
                       "static": [cyc for cyc in (g.bad if g else []) if any(c in ENTRY_CONSUMERS.get(fn, []) for fn in cyc)],
                       "broken_obligations": broken[:10],
                       "grammar": ("harness/C19/pegtemplates.janet use form %s; grammar built by consumer peg-comb in harness/C19/sweep.janet"
                                   % first["kind"]) if c.startswith("peg-") and "#" in first["kind"] else None},
                      what="consumer `%s` on %s nested %d deep kills the process (rc=%s, %s)" % (c, first["kind"], first["depth"], first["rc"], first["variant"]))
    # tail calls must COMPLETE at every depth (fiber limited to 256 slots): an error here means a tail call pushed a frame
    for label, table in tables.items():
        for (c, k), res in sorted(table.items()):
            if CONSUMERS[c][2] != "tail":
                continue
            badd = sorted(d for d, r in res.items() if r != "ok" and not r.startswith("CRASH"))
            if badd:
                ctx.violation("tail-not-constant:" + c, {"kind": "tail", "consumer": c, "container": k, "depth": badd[0], "result": res[badd[0]],
                                                          "variant": label, "stack_kb": 8192},
                              what="tail-call loop `%s` of depth %d does not run in constant fiber stack: %s" % (c, badd[0], res[badd[0]]))
        if ctx.nviol and label.endswith("8MB"):
            break
    by_consumer = {c: v for (c, _), v in by_consumer.items()}
    if g and g.bad:
        covered = set()
        for cyc in g.bad:
            cyc_consumers = consumers_for([cyc])
            if any(c in by_consumer for c in cyc_consumers):
                covered.add(tuple(cyc))
        for cyc in g.bad:
            if tuple(cyc) not in covered:
                ctx.violation("unguarded-cycle:" + ",".join(cyc)[:120],
                              {"kind": "broken-obligation", "theorem": "JanetModel.Props.C19.cg_rank_ok", "cycle": cyc,
                               "consumers_tried": [c for fn in cyc for c in ENTRY_CONSUMERS.get(fn, [])]},
                              found=False, what="call cycle without depth guard: %s (no crashing input found)" % " -> ".join(cyc))
    if broken and ctx.nviol == 0:
        ctx.violation("broken:" + broken[0][:80], {"kind": "broken-obligation", "broken": broken}, found=False,
                      what="no longer shown to hold: " + "; ".join(broken)[:600])
    nruns = sum(len(r) for t in tables.values() for r in t.values())
    outcomes = {}
    for t in tables.values():
        for (c, k), res in t.items():
            for d, r in res.items():
                key = r.split(":")[0] if not r.startswith("err:") else r
                outcomes[key] = outcomes.get(key, 0) + 1
    lim_sample = {"%s/%s" % k: v for k, v in sorted(guard_limits.get("plain-8MB", {}).items())}
    cov = {
        "evaluations": nruns,
        "distinct_nontrivial": len(set((c, k, d) for t in tables.values() for (c, k), res in t.items() for d in res)),
        "rule": "one evaluation = one (consumer, container kind, depth, stack limit) run of harness/C19/sweep.janet in its own process; "
                "depths: powers of two to 10^6 plus limit/k +-2 for the generated limits, plus bisected ok->err transition +-2; "
                "non-trivial = distinct (consumer, kind, depth)",
        "samples": ["%s %s %d -> %s" % (c, k, d, r) for (c, k), res in list(tables.get("plain-8MB", {}).items())[:4] for d, r in sorted(res.items())[-2:]],
        "consumers": len(set(c for c, _, _ in jobs)), "combinations": len(jobs), "depths": sched,
        "stack_configs": [c[0] for c in configs], "outcome_histogram": outcomes,
        "guard_depth_found": lim_sample,
        "observations_out_of_scope": observations,
        "informational_1MB_stack_crashes": stack_budget_1mb,
        "tail_frame_correspondence": corr,
        "peg_depth_balance_oracle": drift,
        "exemptions": None if not g else {"bounded_by_argument": g.bounded, "indirect_edges": sorted(set(w for _, _, w in g.exempted)),
                                          "failed_revalidation": g.exemption_failures},
        "stack_budget": None if not st else {"total_bytes": csm.budget(st, g)[0], "limit_bytes": csm.STACK_LIMIT, "per_class": csm.budget(st, g)[1],
                                             "classes": [{k: c[k] for k in ("name", "limit", "unit", "how", "fns")} for c in st.classes],
                                             "dag_total_bytes": st.dag_total, "dag_heaviest_path": st.dag_path, "scc_budgets": st.scc_budget,
                                             "scc_reach_pairs": len(st.claimed), "module_call_edges": len(st.all_edges), "transit_bytes": st.transit, "functions_outside_cycles": st.transit_n, "libc_allowance": csm.LIBC_ALLOWANCE,
                                             "max_head": st.max_head, "inlined_everywhere": len(st.inlined), "dynamic_unbounded": st.unbounded,
                                             "reentry_sites": st.sites + [("gc->funcdef", "janet_mark_funcdef", st.funcdef_charged)],
                                             "variants": list(csm.SU_VARIANTS), "unrolled": st.unrolled, "pure_checkers": st.demoted},
        "guard_certificates": None if not gcerts else {
            "certified": [{"fn": c["fn"], "kind": c["kind"], "counter": c["counter"], "charge": c["charge"], "compare": "%s %d" % (c["pred"], c["k"]),
                           "blocks": c["n"], "edges": len(c["cfg"]), "checks": len(c["checks"]), "recursive_call_blocks": len(c["targets"]),
                           "inits": c["inits"], "stops": c["stopcallees"]} for c in gcerts.certs],
            "ir_counter_balance": [{"fn": b["fn"], "counter": b["counter"], "blocks": b["n"], "recursive_calls": len(b["calls"]),
                                    "charge_keeping_exits": sum(1 for (x, y) in b["cfg"] if y in b["rets"] and (b["live"] >> x) & 1 and not (b["stops"] >> x) & 1
                                                                and b["level"][y] < b["level"][x] + b["delta"][x]),
                                    "restores_saved_copy_in_blocks": b["restores"]} for b in getattr(gcerts, "balance", [])],
            "idiom_matched_but_not_certified": g.denied, "never_returning_without_attribute": [c["fn"] for c in gcerts.noreturn_used],
            "exemptions": [{"name": e["name"], "callers": e.get("callers"), "writers": e.get("writers"), "certs": [c["fn"] for c in e["certs"]], "fails": e["fails"]} for e in gcerts.exempt]},
        "counter_balance": None if not g else {"path_classes": len(g.balance), "unbalanced": g.unbalanced,
                                               "functions": sorted(set(pth[1] for pth in g.balance))},
        "depth_argument_charging": None if not g else {"functions": g.deptharg["fns"], "non_charging_edges": g.deptharg["zero"],
                                                       "uncharged_cycles": g.deptharg["cycles"],
                                                       "depth_not_derived_from_caller": [list(u) for u in g.deptharg["unknown"]],
                                                       "context_sites": [list(x) for x in g.deptharg["sites"] if x[1].startswith("janet_") or x[0].startswith("janet_")]},
        "callgraph": None if not g else {"functions": g.nfuncs, "call_sites": g.ncalls, "address_taken": len(g.ir.addr_taken),
                                         "cycle_functions": len(g.nodes), "sccs": len(g.comps), "guards": len(g.guard),
                                         "edges": len(g.edges), "unguarded_cycles": g.bad, "cut": g.cut,
                                         "exempted_indirect_edges": len(g.exempted)},
    }
    return ctx.finish("proof", cov, assumptions=[
        "LLVM IR at -O0 is a faithful account of the C call structure; indirect calls over-approximated by same-type address-taken functions",
        "edges into the non-returning janet_panic*/janet_signalv family are cut; exemption list in tools/gen/callgraph.py",
        "guard marks are proposed by source idiom and accepted only with a control-flow certificate read from the -O0 LLVM IR (compare of the counter location with a constant whose pass edge every path to a recursive call takes; Lean-checked); trusted there: the IR text parser of tools/gen/cgguard.py (blocks, successors, operand provenance of the compare, which blocks call into the SCC). That the counter is charged on every path is the balance / depth-argument obligations (source text) and the sweep",
        "native stack budget: frame sizes are gcc -fstack-usage figures for the plain (-O1) and nohooks (-O2) flags; functions outside call cycles occur at most once per chain (translator's SCC analysis); libc internals covered by a 64 KiB allowance; per-class counts of live guard frames are hypotheses of stack_bytes_bounded (pool classes: Nest model; marsh / funcdef-nesting: one live counter instance assumed); verdict of the sweep at the default 8 MB stack, 1 MB informational",
        "janet-level recursion is bounded by the fiber's maxstack (default 2^31-1 slots = 16 GiB of heap): cyclic inputs to freeze/thaw/deep= are run in a fiber limited to 2^22 slots",
    ])


def corpus_run(ctx):
    cdir = os.path.join(VERIF, "corpus/C19")
    env = dict(os.environ, ASAN_OPTIONS="detect_leaks=0:abort_on_error=0")
    vp = ctx.try_variant("plain")
    va = ctx.try_variant("asan")
    if not vp or not va:
        return
    for f in sorted(os.listdir(cdir)):
        if not f.endswith(".janet"):
            continue
        for label, v in (("plain", vp), ("asan", va)):
            if label == "asan" and f not in ("binop-method-stack.janet", "tailcall-vararg-realloc.janet"):
                continue
            try:
                r = subprocess.run([v["janet"], os.path.join(cdir, f)], stdout=subprocess.PIPE, stderr=subprocess.PIPE, timeout=600,
                                   env=env, preexec_fn=_limit_stack(8192))
                rc, err = r.returncode, r.stderr.decode(errors="replace")
            except subprocess.TimeoutExpired:
                continue
            if is_crash(rc, err):
                ctx.violation("corpus:" + f, {"kind": "corpus", "file": os.path.join(cdir, f), "variant": label, "rc": rc, "stderr": err[-1500:]},
                              what="corpus scenario %s kills the process (rc=%s, %s)" % (f, rc, label))
                break


def tail_correspondence(ctx, g, broken, quick):
    exe = ctx.driver()
    try:
        hx = ctx.build.harness("asan", "c19tail", [os.path.join(VERIF, "harness/C19/tailframe.c")])
    except BuildError as e:
        broken.append("harness tailframe.c does not compile against the current tree: %s" % str(e)[-300:])
        ctx.broken.append(broken[-1])
        return {"sequences": 0}
    if not exe:
        broken.append("model driver jm_c19 does not build")
        return {"sequences": 0}
    env = dict(os.environ, ASAN_OPTIONS="detect_leaks=0:abort_on_error=0")
    nseq = 300 if quick else 5000
    rng = ctx.rng.fork("tailframes")
    lines_h, kinds = [], {"push": 0, "tail": 0, "call": 0, "ret": 0, "arity": 0, "grow": 0}
    for i in range(nseq):
        lines_h.append("new %d %d" % (rng.choice([0, 1, 8, 16, 64, 200]), rng.range(0, 40)))
        nargs, depth = 0, 1            # arguments pushed since the last frame operation; live frames (known exactly: an
        for _ in range(rng.range(1, 30)):   # arity mismatch leaves the fiber unchanged)
            r = rng.below(11)
            if r < 4:
                k = rng.choice([0, 1, 1, 2, 3, 5, 17, 100])
                lines_h.append("push %d" % k)
                nargs += k
            elif r == 10:
                if depth >= 2:
                    lines_h.append("ret")
                    depth -= 1
                    nargs = 0
            else:
                slot = rng.choice([0, 1, 2, 5, 9, 30, 120, 700])
                arity = rng.range(0, min(slot, 6))
                vararg = rng.below(3) == 0
                mn = arity if rng.below(4) else rng.range(0, arity)
                mx = 2147483647 if vararg else (arity if rng.below(4) else arity + rng.range(0, 3))
                lines_h.append("%s %d %d %d %d %d" % ("tail" if r < 8 else "call", slot, arity, mn, mx, 1 if vararg else 0))
                if mn <= nargs <= mx:
                    nargs = 0
                    depth += 0 if r < 8 else 1
    rc, out, err = run_cmd_([hx], "\n".join(lines_h) + "\n", env)
    impl = out.splitlines()
    if rc != 0 or len(impl) != len(lines_h):
        ctx.violation("tailframe-crash", {"kind": "crash", "rc": rc, "stderr": err[-1500:], "ops": lines_h[:max(0, len(impl) - 5):len(impl) + 1][-20:]},
                      what="fiber frame functions crashed / sanitizer report (rc=%s)" % rc)
        return {"sequences": nseq, "crashed": True}
    # the model builds the fresh fiber itself (fiberNew = fiber_alloc + fiber_reset + janet_fiber_funcframe)
    lines_m = [("fnew" + l[3:]) if l.startswith("new") else l for l in lines_h]
    lines_m.append("rankok")
    model = ctx.model(lines_m, exe=exe)
    diffs = []
    for l, a, b in zip(lines_h, impl, model):
        kinds[l.split()[0]] = kinds.get(l.split()[0], 0) + 1
        if a == "arity":
            kinds["arity"] += 1
        if a != b:
            diffs.append({"op": l, "impl": a, "model": b})
    if diffs:
        broken.append("correspondence fiber frame arithmetic: %d differing lines, first %r" % (len(diffs), diffs[0]))
        ctx.broken.append(broken[-1])
    drv_ok = model[-1].strip()
    py_ok = "true" if (g is not None and not g.bad) else "false"
    if g is not None and not drv_ok.startswith(py_ok):
        broken.append("driver rankOK=%s but translator found unguarded cycles=%s" % (drv_ok, g.bad))
        ctx.broken.append(broken[-1])
    ms = maxstack_correspondence(ctx, exe, broken, quick)
    return {"sequences": nseq, "ops": len(lines_h), "op_mix": kinds, "diffs": len(diffs), "first_diffs": diffs[:3], "driver_rankok": drv_ok,
            "maxstack": ms}


def maxstack_correspondence(ctx, exe, broken, quick):
    """fiber-stack side: the real VM (plain and asan builds) runs non-tail self recursions of four shapes on fibers with
    `maxstack` M; the depth reached and the error must be what the Lean model (vcall / vpushn / fiberNew, driver op
    `overflow`) predicts from the slot counts; every run must end in the CATCHABLE error "stack overflow"."""
    rng = ctx.rng.fork("maxstack")
    ms = [0, 1, 4, 5, 17, 18, 19, 64, 1000] + [rng.range(2, 60) for _ in range(6)] + [rng.range(60, 5000) for _ in range(6)]
    ms += [rng.range(5000, 200000) for _ in range(2 if quick else 12)]
    script = os.path.join(VERIF, "harness/C19/maxstack.janet")
    env = dict(os.environ, ASAN_OPTIONS="detect_leaks=0:abort_on_error=0")
    rows, bad = [], []
    for label in ("plain", "asan"):
        v = ctx.try_variant(label)
        if not v:
            continue
        rc, out, err = run_cmd_([v["janet"], script] + [str(m) for m in ms], "", env)
        got = [l.split(None, 10) for l in out.splitlines() if l.startswith("MS ")]
        if is_crash(rc, err) or rc != 0 or len(got) != 4 * len(ms):
            ctx.violation("maxstack-crash", {"kind": "crash", "rc": rc, "variant": label, "stderr": err[-1500:], "maxstacks": ms,
                                             "cmd": "%s %s %s" % (v["janet"], script, " ".join(str(m) for m in ms))},
                          what="deep non-tail recursion on a fiber with a small maxstack kills the process (rc=%s, %s)" % (rc, label))
            return {"runs": 0, "crashed": True}
        model = ctx.model(["overflow " + " ".join(g[2:9]) for g in got], exe=exe)
        for g, m in zip(got, model):
            impl = "%s %s" % (g[9], g[10] if len(g) > 10 else "")
            rows.append((label, g[1], int(g[4]), int(g[9])))
            if (g[10] if len(g) > 10 else "") != "stack overflow":
                # the property itself: the recursion must end in the catchable error
                ctx.violation("maxstack-no-error:" + g[1], {"kind": "maxstack", "variant": label, "shape": g[1], "maxstack": int(g[4]), "result": impl},
                              what="recursion %s on a fiber with maxstack %s did not raise 'stack overflow': %s" % (g[1], g[4], impl))
            if impl.strip() != m.strip():
                bad.append({"variant": label, "shape": g[1], "args": " ".join(g[2:9]), "impl": impl, "model": m})
    if bad:
        broken.append("correspondence maxstack (vm.c JOP_CALL test + fiber.c frames vs Depth/FiberStack.lean): %d of %d differ, first %r" % (len(bad), len(rows), bad[0]))
        ctx.broken.append(broken[-1])
    return {"runs": len(rows), "maxstacks": ms, "diffs": len(bad), "first_diffs": bad[:3], "depth_reached_range": [min(r[3] for r in rows), max(r[3] for r in rows)] if rows else None,
            "samples": ["%s %s M=%d -> %d frames, stack overflow" % r for r in rows[:6]]}


def run_cmd_(cmd, inp, env):
    r = subprocess.run(cmd, input=inp.encode(), stdout=subprocess.PIPE, stderr=subprocess.PIPE, env=env, timeout=600)
    return r.returncode, r.stdout.decode(errors="replace"), r.stderr.decode(errors="replace")


def lean_theorems():
    p = os.path.join(VERIF, "lean/JanetModel/Props/C19.lean")
    if not os.path.exists(p):
        return []
    names = []
    with open(p) as f:
        for line in f:
            m = re.match(r"^theorem\s+([\w.']+)", line)
            if m:
                names.append("JanetModel.Props.C19." + m.group(1))
    return names


def replay(ctx, path):
    r = json.load(open(path))
    print(json.dumps({k: r[k] for k in r if k != "stderr"}, indent=1)[:2000])
    if r.get("kind") == "corpus":
        corpus_run(ctx)
        return ctx.finish("proof", {"evaluations": 1, "distinct_nontrivial": 1, "rule": "replay of corpus scenario", "samples": [r.get("file")]})
    if r.get("kind") == "crash" and "consumer" in r:
        variant = r.get("variant", "plain-8MB").split("-")[0]
        v = ctx.try_variant(variant)
        env = dict(os.environ, ASAN_OPTIONS="detect_leaks=0:abort_on_error=0")
        res, crash = run_one(v["janet"], r["consumer"], r["container"], [r["depth"]], r.get("stack_kb", 8192), 600, env)
        print("replay:", res, "crash" if crash else "no crash")
        if crash:
            ctx.violation("crash:" + r["consumer"], dict(r, replayed=True), what="replayed: still crashes")
            return ctx.finish("proof", {"evaluations": 1, "distinct_nontrivial": 1, "rule": "replay", "samples": [str(res)]})
        return ctx.finish("proof", {"evaluations": 1, "distinct_nontrivial": 1, "rule": "replay", "samples": [str(res)]})
    return run(ctx)
