"""C14 - arithmetic on numbers and 64-bit integers is exact and consistently defined.

(A) regenerate Gen/Int64.lean from inttypes.c / vm.c / corelib.c / strtod.c / janet.h
(B,C) kernel-check Props/C14 (+ the configuration-generic lemmas) and audit axioms
(D) correspondence: model driver jm_c14 vs the real operators (in-process harness, wrapper TU around inttypes.c),
    boundary-dense operand pairs x all operators x both orders x type mixes, crash detection in a child process
(E) direct oracle (harness/C14/oracle.py: Python big ints, Fractions, floats) on the same implementation outputs
"""
import json
import os
import concurrent.futures as cf
from vlib.core import run_cmd, VERIF
from vlib.build import BuildError
from tools.gen import inttypes as gen_int
from tools.gen.csrc import ExtractError
from harness.C14 import oracle

# theorems of Props/C14.lean; the ones in PROPS_GEN mention the regenerated configuration / tables (Gen/Int64.lean)
PROPS_GEN = ["no_ub", "compare_mixed_correct", "compare_mixed_correct_unsigned", "compare_mixed_correct_rat", "method_tables_ok", "dispatch_left_then_reversed_right",
             "nary_mod_is_left_fold", "nary_rows_complete", "poly_compare_correct", "compare_chain_correct", "string_entries_complete",
             "math_registrations_ok", "poly_predicates_correct", "parity_predicates_correct", "poly_predicates_table",
             "s64_type_mixes_agree", "u64_type_mixes_agree", "s64_u64_cross_mixes_agree",
             "unwrap_number_exact_or_rejected", "unwrap_range"]
PROPS = ["wrap_ops_eq_bitvec", "wrap_ops_in_range", "shift_ops_eq_bitvec", "divf_eq_floor_div", "mod_eq_floor_mod", "trunc_div_rem_correct",
         "mod_zero_is_dividend", "div_zero_errors", "no_ub_iff_guarded", "no_ub_partial", "ub_reachable_on_pinned",
         "cmpIntDbl_is_exact", "cmpIntDbl_eq_rat", "rnd53_exact_small_monotone_edge", "compare_mixed_correct_of_inclusive", "compare_mixed_partial",
         "compare_wrong_on_pinned", "compare_ints_correct", "unwrap_number_wraps_with_rounded_up_bound",
         "varops_are_left_folds", "nary_methods_wrap", "nary_methods_are_left_folds", "nary_mod_not_fold_on_pinned",
         "chained_comparators_are_conjunctions", "chained_comparison_short_circuits", "poly_comparators_are_chains",
         "ieee_rounding_is_nearest_even", "ieee_rounding_nearest_among_doubles", "ieee_ops_correctly_rounded", "ieee_floor_exact_and_ops_exact_when_representable",
         "num_div_is_floor_of_rounded_quotient", "num_mod_over_ieee", "num_rem_is_exact_fmod", "ieee_special_values",
         "primitive_order_s64_u64_is_by_type", "string_operand_scanned", "string_digits_exact_or_rejected", "string_operands_every_entry",
         "string_operands_handwritten", "bitwise32_range_checks", "bitwise32_eq_bitvec", "num_div_is_floor_of_quotient",
         "num_mod_zero_is_dividend", "num_mod_floor_convention", "num_rem_is_fmod", "vm_number_handlers",
         "int_to_double_exact", "to_number_round_trip", "to_bytes_round_trip",
         "rounded_integer_quotient_has_same_floor", "num_ops_exact_on_integers", "mod_side_condition", "num_mod_int_rounds_witness",
         "number_ops_agree_with_s64_ops", "u64_ops_agree_on_nonneg",
         "math_gcd_terminates_and_is_gcd", "math_gcd_lcm_on_integers", "math_integer_valued_functions", "math_cfuns"]
# configuration-generic lemmas (audited separately when Props/C14 does not build, to show what still holds)
LEMMAS = ["opMethod_add", "opMethod_sub", "opMethod_mul", "opMethod_and", "opMethod_or", "opMethod_xor", "notMethod_bitvec", "opMethod_shl", "opMethod_sar",
          "divf_eq_floor_div", "mod_eq_floor_mod", "trunc_div_rem_correct", "mod_zero_is_dividend", "div_zero_errors", "no_ub_iff_guarded", "no_ub_partial",
          "ub_reachable_on_pinned", "compareInt64Double_correct", "compareInt64Double_partial", "compareUint64Double_partial", "compareMethod_ints",
          "compare_ub_on_pinned", "decode_wf", "rnd53_small", "rnd53_big", "varopFold_eq_foldl", "methodLoop_add", "methodLoop_mul",
          "methodLoop_zero_irrelevant", "methodLoop_eq_fold", "callCfunN_eq_fold", "comparatorLoop_conj", "comparatorLoop_first_failure", "compareReduce_eq_loop",
          "callCfun2_str_ok", "callCfun2_str_err", "scanDigits_some", "scanDigits_overflow_none", "scan_results_in_range",
          "bitop32_and", "bitop32_or", "bitop32_xor", "bitop32_shl", "bitop32_sar", "bitop32_shr", "checkIntRange_iff",
          "decode_encodeInt", "unwrap_ofInt", "toNumber_eval", "toBytes_round_trip",
          "numToS64W_exact", "numToU64W_exact", "numToW_some_iff", "unwrap_window_rounded_up_wraps"]
ENV = dict(os.environ, ASAN_OPTIONS="detect_leaks=0:abort_on_error=0", UBSAN_OPTIONS="print_stacktrace=0")
HARNESS_SRC = os.path.join(VERIF, "harness/C14/arith.c")
NJOBS = 12


def is_shift(line):
    t = line.split()
    return t[0] in oracle.SHIFTS or (t[0] == "imm" and t[1] in oracle.SHIFTS) or t[0] in ("m:<<", "m:>>", "m:r<<")


def run_impl(hx, lines, timeout=600):
    """Run the harness over `lines`; a crash / sanitizer abort is a result: record it, resume after the crashing line.
    Returns (outputs, crashes) with outputs[i] = result string or 'CRASH'."""
    out = []
    crashes = []
    pos = 0
    while pos < len(lines):
        rc, o, e = run_cmd([hx], input=("\n".join(lines[pos:]) + "\n").encode(), timeout=timeout, env=ENV)
        got = o.decode(errors="replace").splitlines()
        # line-buffered: every completed line is present; a partial last line cannot occur (each result is one write)
        n = min(len(got), len(lines) - pos)
        out += got[:n]
        pos += n
        if pos < len(lines):
            crashes.append({"line": lines[pos], "rc": rc, "stderr": e.decode(errors="replace")[-1200:]})
            out.append("CRASH" if rc is not None else "TIMEOUT")
            pos += 1
            if len(crashes) > 200:
                out += ["SKIPPED"] * (len(lines) - pos)
                break
    return out, crashes


def run_parallel(hx, lines, jobs=NJOBS):
    if not lines:
        return [], []
    size = (len(lines) + jobs - 1) // jobs
    chunks = [lines[i:i + size] for i in range(0, len(lines), size)]
    with cf.ThreadPoolExecutor(jobs) as ex:
        res = list(ex.map(lambda c: run_impl(hx, c), chunks))
    out, crashes = [], []
    for o, c in res:
        out += o
        crashes += c
    return out, crashes


def janet_expr(line):
    """human-readable janet source for a protocol line (for the replay file)"""
    def opd(t):
        k, v = t[0], t[2:]
        if k == "n":
            d = oracle.b2f(int(v, 16))
            if d != d:
                return "math/nan"
            if d in (float("inf"), float("-inf")):
                return "math/inf" if d > 0 else "math/-inf"
            return repr(d) if d != int(d) or abs(d) >= 1e21 else ("%d" % d if abs(d) < 2 ** 63 else repr(d))
        if k == "s":
            return '(int/s64 "%s")' % v
        if k == "u":
            return '(int/u64 "%s")' % v
        return '"%s"' % v
    t = line.split()
    if t[0] in ("cmpsd", "cmpud"):
        kind = "s64" if t[0] == "cmpsd" else "u64"
        return "(compare (int/%s \"%s\") %s)" % (kind, t[1], opd("n:" + t[2]))
    if t[0] == "imm":
        return "((fn [x] (%s x %s)) %s)" % (t[1], t[3], opd(t[2]))
    if t[0].startswith("m:"):
        return "(:%s %s)" % (t[0][2:], " ".join(opd(x) for x in t[1:]))
    return "(%s %s)" % (t[0], " ".join(opd(x) for x in t[1:]))


def corpus_lines():
    p = os.path.join(VERIF, "corpus/C14/targeted.txt")
    out = []
    if os.path.exists(p):
        for l in open(p):
            l = l.strip()
            if l and not l.startswith("#"):
                out.append(l)
    return out


def witness_lines(flags):
    """witness synthesiser: Gen flag that makes an obligation fail -> protocol lines that exercise exactly that case"""
    mn = "s:-9223372036854775808"
    w = []
    if not flags.get("divfGuard", True):
        w += ["div %s s:-1" % mn, "div %s n:bff0000000000000" % mn, "div %s t:-1" % mn]
    if not flags.get("divfiGuard", True):
        w += ["div t:-9223372036854775808 s:-1"]
    if not flags.get("modGuard", True):
        w += ["mod %s s:-1" % mn, "mod %s n:bff0000000000000" % mn]
    if not flags.get("modiGuard", True):
        w += ["mod t:-9223372036854775808 s:-1"]
    if flags.get("loopZero", {}).get("mod") == "return":
        w += ["m:mod u:7 u:0 u:3", "m:mod u:7 n:0000000000000000 t:abc"]
    if not flags.get("guard_DIVMETHOD_SIGNED", True):
        w += ["/ %s s:-1" % mn, "%% %s s:-1" % mn]
    if not flags.get("guard_DIVMETHODINVERT_SIGNED", True):
        w += ["/ t:-9223372036854775808 s:-1", "%% t:-9223372036854775808 s:-1"]
    if flags.get("cmpS64Upper") != ">=":
        w += ["cmpsd 5 43e0000000000000", "compare s:5 n:43e0000000000000", "compare n:43e0000000000000 s:9223372036854775807", "compare s:-9223372036854775808 n:43e0000000000000"]
    if flags.get("cmpU64Upper") != ">=":
        w += ["cmpud 5 43f0000000000000", "compare u:5 n:43f0000000000000", "compare n:43f0000000000000 u:18446744073709551615"]
    # number branch of janet_unwrap_s64 / janet_unwrap_u64: every edge of the regenerated window that is outside the type or outside
    # the documented +-2^53 window, as a number operand of the constructor and of a direct / reversed method
    for kind, tag in (("S64", "s"), ("U64", "u")):
        lo, hi = flags.get("unwrap%sLo" % kind), flags.get("unwrap%sHi" % kind)
        for v in (lo, hi):
            if v is None or abs(v) <= 2 ** 53 or float(v) != v:
                continue
            bits = "%016x" % oracle.f2b(float(v))
            w += ["int/%s64 n:%s" % (tag, bits), "+ %s:1 n:%s" % (tag, bits), "- n:%s %s:1" % (bits, tag), "* %s:1 n:%s" % (tag, bits)]
    return w


def unwrap_window_ok(flags):
    """the obligation of unwrap_number_exact_or_rejected on the regenerated window: inside int64_t / uint64_t"""
    try:
        return (-(2 ** 63) <= flags["unwrapS64Lo"] and flags["unwrapS64Hi"] <= 2 ** 63 - 1 and
                0 <= flags["unwrapU64Lo"] and flags["unwrapU64Hi"] <= 2 ** 64 - 1)
    except KeyError:
        return True


def run(ctx):
    quick = ctx.tier == "quick"
    broken = []
    flags = {}
    # (A) regenerate
    try:
        ctx.build.boot()
        tree = ctx.build.tree
        flags = gen_int.extract(tree)
        ctx.gen("Int64.lean", gen_int.render(tree))
    except ExtractError as e:
        broken.append("translator tools/gen/inttypes.py: %s" % e)
        ctx.broken.append(broken[-1])
    except BuildError as e:
        ctx.violation("build-failed", {"kind": "build", "error": str(e)}, found=False, what="tree does not build")
        return ctx.finish("proof", {"evaluations": 0, "distinct_nontrivial": 0})
    # (B,C) kernel check + audit
    pb = ctx.obligations("JanetModel.Props.C14", ["JanetModel.Props.C14." + t for t in PROPS + PROPS_GEN])
    if pb:
        # which obligation over Gen is it?  (read off the regenerated flags; the kernel's verdict is the build failure itself)
        named = []
        if flags and not all(flags.get(k) for k in ("divfGuard", "divfiGuard", "modGuard", "modiGuard", "guard_DIVMETHOD_SIGNED", "guard_DIVMETHODINVERT_SIGNED")):
            named.append("JanetModel.Props.C14.no_ub (a signed division or remainder without the INT64_MIN / -1 test: %s)" %
                         ", ".join(k for k in ("divfGuard", "divfiGuard", "modGuard", "modiGuard", "guard_DIVMETHOD_SIGNED", "guard_DIVMETHODINVERT_SIGNED") if not flags.get(k)))
        if flags and (flags.get("cmpS64Upper") != ">=" or flags.get("cmpU64Upper") != ">="):
            named.append("JanetModel.Props.C14.compare_mixed_correct (edge comparison of compare_int64_double / compare_uint64_double is exclusive: 2^63 resp. 2^64 reach the cast)")
        if flags and flags.get("loopZero", {}).get("mod") == "return":
            named.append("JanetModel.Props.C14.nary_mod_is_left_fold (the loop of DIVMETHOD ends the call at a zero divisor of `mod`: (:mod x 0 y) is x, not the fold)")
        if flags and not unwrap_window_ok(flags):
            named.append("JanetModel.Props.C14.unwrap_number_exact_or_rejected (the number branch of janet_unwrap_s64 / janet_unwrap_u64 accepts the integral doubles in "
                         "[%d, %d] resp. [%d, %d], bounds evaluated as the C compiler does; that window is not inside int64_t / uint64_t, so its edge — "
                         "2^63 for `(double) INT64_MAX`, 2^64 for `(double) UINT64_MAX` — reaches the cast `(T) d` and wraps instead of raising)" %
                         (flags["unwrapS64Lo"], flags["unwrapS64Hi"], flags["unwrapU64Lo"], flags["unwrapU64Hi"]))
        elif flags and (flags.get("unwrapS64Lo"), flags.get("unwrapS64Hi"), flags.get("unwrapU64Lo"), flags.get("unwrapU64Hi")) != (-2 ** 53, 2 ** 53, 0, 2 ** 53):
            named.append("JanetModel.Props.C14.unwrap_range (number operands are accepted in [%d, %d] resp. [%d, %d], not in the documented window of magnitude <= 2^53)" %
                         (flags["unwrapS64Lo"], flags["unwrapS64Hi"], flags["unwrapU64Lo"], flags["unwrapU64Hi"]))
        broken += named + pb
        # the generic lemmas still hold?  (separate module, does not depend on the failing instantiations)
        ctx.broken = [x for x in ctx.broken if x not in pb]
        lb = ctx.obligations("JanetModel.Int64.LemmasN", ["JanetModel.Int64." + t for t in LEMMAS])
        ctx.broken += named + pb
        broken += lb
    if not quick and not broken:
        ok, log = ctx.leanchecker("JanetModel.Props.C14")
        if not ok:
            broken.append("leanchecker JanetModel.Props.C14: " + log[-300:])
            ctx.broken.append(broken[-1])
    # (D) correspondence
    exe = ctx.driver()
    hx_asan = hx_plain = None
    try:
        hx_asan = ctx.build.harness("asan", "c14arith", [HARNESS_SRC])
        hx_plain = ctx.build.harness("plain", "c14arith", [HARNESS_SRC])
    except BuildError as e:
        broken.append("harness does not compile against the current tree: %s" % str(e)[-400:])
        ctx.broken.append(broken[-1])
    per_combo, n_random = (600, 400) if quick else (20000, 6000)
    if broken and quick:
        per_combo, n_random = 1500, 1000      # something no longer checks: search harder
    targeted = corpus_lines() + witness_lines(flags)
    n_ieee = 105000 if quick else 1500000     # plain-number pairs for the IEEE instance (>= 10^5 on every run)
    lines = targeted + oracle.gen_lines(ctx.rng, per_combo, n_random, n_ieee)
    # integer family: |x|, |y| <= 2^53, every type mix must give the same integer (theorems num_ops_exact_on_integers /
    # number_ops_agree_with_s64_ops); judged by `oracle.int_family_spec` (Python ints only)
    fam = oracle.int_family_lines(ctx.rng, 3000 if quick else 60000)
    fam_info = {}
    for l, op, x, y, has_u in fam:
        fam_info.setdefault(l, (op, x, y, has_u))
    lines += [l for l, _, _, _, _ in fam]
    # math.c: math/floor ceil trunc round abs gcd lcm (model Int64/MathFns.lean, oracle: exact rationals)
    n_math = 4000 if quick else 80000
    small_pools = oracle.Pools(ctx.rng, 50)
    lines += oracle.math_lines(ctx.rng, n_math, small_pools.n)
    # boot.janet zero? pos? neg? one? even? odd? (model Int64/Preds.lean; table regenerated from boot.janet)
    lines += oracle.pred_lines(ctx.rng, 3000 if quick else 40000, small_pools)
    seen = set()
    lines = [l for l in lines if not (l in seen or seen.add(l))]
    ctx.say("generated %d distinct cases (%d targeted)" % (len(lines), len(targeted)))
    impl = [None] * len(lines)
    crashes = []
    if hx_asan and hx_plain:
        # shifts are run on the plain build: UBSan (-fno-sanitize-recover) aborts on the C-undefined shift forms that the
        # hardware defines (negative left operand, count outside the width) - see notes/C14.md; everything else under ASan+UBSan
        idx_shift = [i for i, l in enumerate(lines) if is_shift(l)]
        idx_rest = [i for i, l in enumerate(lines) if not is_shift(l)]
        o1, c1 = run_parallel(hx_asan, [lines[i] for i in idx_rest])
        o2, c2 = run_parallel(hx_plain, [lines[i] for i in idx_shift])
        for i, o in zip(idx_rest, o1):
            impl[i] = o
        for i, o in zip(idx_shift, o2):
            impl[i] = o
        crashes = c1 + c2
        ctx.say("implementation evaluated: %d under ASan+UBSan, %d (shifts) on the plain build, %d crash(es)" % (len(idx_rest), len(idx_shift), len(crashes)))
    # `_vm_bitop` reports a bad right operand with janet_panicf("... got %f", op2) where op2 is a Janet, not a double: the text
    # of the message is garbage and for some bit patterns the formatter gives up with "format buffer overflow".  An error is
    # raised either way; canonicalised here (see notes/C14.md, observations).
    for i, a in enumerate(impl):
        if a == "err:other:format_buffer_overflow":
            t = lines[i].split()
            if (t[0] in ("band", "bor", "bxor") + oracle.SHIFTS or (t[0] == "imm" and t[1] in oracle.SHIFTS)) and all(x.startswith("n:") for x in t[1:] if ":" in x[:2]):
                impl[i] = "err:rhs32"
    model = None
    link = None
    if hx_plain and hx_asan:
        # primitive order between an s64 and a u64 = order of the two type descriptors in this binary (not in the source): read it
        # from each harness build and hand it to the model (`Cfg.s64BelowU64`)
        la, _ = run_impl(hx_asan, ["link?"])
        lp, _ = run_impl(hx_plain, ["link?"])
        link = {"asan": la[0], "plain": lp[0]}
    if exe:
        if link and link["asan"] != link["plain"]:
            # (has not been observed) the two builds order the descriptors differently: run the model once per build
            ia = [i for i, l in enumerate(lines) if not is_shift(l)]
            ip = [i for i, l in enumerate(lines) if is_shift(l)]
            model = [None] * len(lines)
            for idx, lk in ((ia, link["asan"]), (ip, link["plain"])):
                out = ctx.model(["link " + lk[-1]] + [lines[i] for i in idx], exe=exe)
                for i, o in zip(idx, out[1:]):
                    model[i] = o
        else:
            model = ctx.model(["link " + (link["asan"][-1] if link else "0")] + lines, exe=exe)[1:]
    exp = [oracle.expected(l) for l in lines]
    # classify
    diffs, direct, ub_lines = [], [], []
    kinds = {}
    for i, l in enumerate(lines):
        a = impl[i]
        m = model[i] if model else None
        e = exp[i]
        key = (a or "none").split(":")[0] + ("/" + a.split(":")[1] if a and a.startswith("err:") else "")
        kinds[key] = kinds.get(key, 0) + 1
        if a is None:
            continue
        if m == "ub":
            ub_lines.append(i)
        # `compare` answers -0.0 for "equal" when the method of the right operand is used (`(- 0)` inlined as 0 * -1): numerically 0
        a_num = "n:0000000000000000" if (a == "n:8000000000000000" and l.startswith("compare ")) else a
        if e is not None and a_num != e:
            direct.append(i)
        if m is not None and m != "ub" and a != m:
            diffs.append(i)
    # integer family: theorem-level oracle (exact integers), on the implementation's outputs
    fam_claims = 0
    fam_bad = []
    for i, l in enumerate(lines):
        info = fam_info.get(l)
        if info is None or impl[i] is None:
            continue
        op, x, y, has_u = info
        if has_u and (x < 0 or y < 0):
            continue
        want = oracle.int_family_spec(op, x, y, has_u)
        if want is None:
            continue
        fam_claims += 1
        if oracle.int_family_value(impl[i]) != want:
            fam_bad.append((i, want))
    fam_bad.sort(key=lambda t: (abs(fam_info[lines[t[0]]][1]) + abs(fam_info[lines[t[0]]][2]), lines[t[0]]))   # smallest operands first
    # (E) report: property failures on the implementation first
    reported = set()
    for i, want in fam_bad[:1]:
        l = lines[i]
        ctx.violation("inconsistent:" + l.split()[0], {"kind": "wrong-result", "input": l, "janet": janet_expr(l), "expected_integer": want, "observed": impl[i],
                                                         "model": model[i] if model else None, "theorem": "num_ops_exact_on_integers / number_ops_agree_with_s64_ops"},
                      what="integer operands of magnitude <= 2^53: `%s` must be the integer %d in every type mix, observed %s" % (janet_expr(l), want, impl[i]))
        reported.add("wrong-result:" + l.split()[0])
    # the edge of the number window of janet_unwrap_* that is outside the type (theorem unwrap_number_exact_or_rejected does not check):
    # the constructor applied to that double must raise; a value means the cast wrapped
    if flags and not unwrap_window_ok(flags):
        for i in direct:
            l = lines[i]
            t = l.split()
            if t[0] in ("int/s64", "int/u64") and len(t) == 2 and t[1].startswith("n:") and impl[i] and impl[i][:2] in ("s:", "u:"):
                v = oracle.b2f(int(t[1][2:], 16))
                fits = (-(2 ** 63) <= v <= 2 ** 63 - 1) if t[0] == "int/s64" else (0 <= v <= 2 ** 64 - 1)
                if not fits and "wraps:" + t[0] not in reported:
                    reported.add("wraps:" + t[0])
                    ctx.violation("wraps:" + t[0], {"kind": "wrong-result", "input": l, "janet": janet_expr(l), "expected": exp[i], "observed": impl[i],
                                                    "model": model[i] if model else None, "theorem": "unwrap_number_exact_or_rejected",
                                                    "window": [flags.get(k) for k in ("unwrapS64Lo", "unwrapS64Hi", "unwrapU64Lo", "unwrapU64Hi")],
                                                    "broken_obligations": broken[:6]},
                                  what="number operand outside the type is accepted and wrapped: `%s` (the number %d) is %s, must raise" % (janet_expr(l), int(v), impl[i]))
    for i in sorted(direct, key=lambda i: (lines[i].count("t:"), len(lines[i]), lines[i])):
        l = lines[i]
        t = l.split()
        cls = "crash" if impl[i] in ("CRASH", "TIMEOUT") else "wrong-result"
        op = t[1] if t[0] == "imm" else t[0]
        if len(t) > 3 and t[0] != "imm" and not t[0].startswith("cmp"):
            op += "/variadic"
        sig = "%s:%s" % (cls, op)
        if sig in reported:
            continue
        reported.add(sig)
        cr = next((c for c in crashes if c["line"] == l), None)
        ctx.violation(sig, {"kind": cls, "input": l, "janet": janet_expr(l), "expected": exp[i], "observed": impl[i], "model": model[i] if model else None,
                            "stderr": cr["stderr"] if cr else None, "broken_obligations": broken[:6]},
                      what="%s on `%s`: expected %s, observed %s" % (cls, janet_expr(l), exp[i], impl[i]))
    unexplained_crashes = [c for c in crashes if not any(lines[i] == c["line"] for i in direct)]
    for c in unexplained_crashes[:5]:
        ctx.violation("crash:" + c["line"].split()[0], {"kind": "crash", "input": c["line"], "janet": janet_expr(c["line"]), "rc": c["rc"], "stderr": c["stderr"]},
                      what="implementation crashed on `%s`" % janet_expr(c["line"]))
    if diffs:
        i = diffs[0]
        broken.append("correspondence model/impl: %d differing lines, first `%s` impl=%s model=%s" % (len(diffs), lines[i], impl[i], model[i]))
        ctx.broken.append(broken[-1])
    if broken and not direct and not unexplained_crashes:
        ctx.violation("broken:" + broken[0][:80], {"kind": "broken-obligation", "broken": broken,
                                                   "first_diffs": [{"op": lines[i], "impl": impl[i], "model": model[i], "oracle": exp[i]} for i in diffs[:8]]},
                      found=False, what="no longer shown to hold: " + "; ".join(broken)[:700])
    n_claim = sum(1 for e in exp if e is not None)
    ops = {}
    mixes = {}
    for l in lines:
        t = l.split()
        ops[t[0] if t[0] != "imm" else "imm " + t[1]] = ops.get(t[0] if t[0] != "imm" else "imm " + t[1], 0) + 1
        mx = "".join(x[0] for x in t[1:] if len(x) > 1 and x[1] == ":")
        mixes[mx] = mixes.get(mx, 0) + 1
    cov = {
        "evaluations": len(lines) * (2 if model else 1),
        "distinct_nontrivial": len(lines),
        "rule": "distinct protocol line = (operator, typed operand(s)); operands from boundary-dense pools (0, +-1, 2^31, 2^32, 2^53, 2^63, 2^64 and "
                "neighbours, random 64-bit patterns, fractions, infinities, NaN, numeric and malformed strings) x 13 arithmetic/bitwise operators, 6 comparators, "
                "compare, cmp x 16 type mixes (number, s64, u64, string on either side), unary forms, constructors, int/to-number, immediate-opcode forms, "
                "the two static compare functions called directly, math/floor ceil trunc round abs gcd lcm, boot.janet zero? pos? neg? one? even? odd?, and the integer family "
                "(integer pairs |x|,|y| <= 2^53 x + - * div mod % x 7 number/s64/u64 mixes, judged by exact integers); every line is evaluated by the implementation and by the Lean model driver and "
                "judged by the Python oracle where the property makes a claim",
        "samples": lines[len(targeted):len(targeted) + 3] + lines[-3:],
        "correspondence_lines": len(lines), "correspondence_diffs": len(diffs),
        "oracle_claims": n_claim, "oracle_failures": len(direct),
        "integer_family": {"lines": len(fam_info), "pairs": len(fam) and len(set((o, x, y) for _, o, x, y, _ in fam)), "claims": fam_claims, "failures": len(fam_bad),
                           "rule": "|x|,|y| <= 2^53; number/s64/u64 mixes of + - * div mod %; expected = exact integer (Python ints), claim where the theorems apply"}, "model_ub_lines": len(ub_lines), "crashes": len(crashes),
        "result_kinds_hit": dict(sorted(kinds.items())), "operator_mix": dict(sorted(ops.items())), "type_mix": dict(sorted(mixes.items())),
        "gen_flags": {k: flags.get(k) for k in ("divfGuard", "divfiGuard", "modGuard", "modiGuard", "guard_DIVMETHOD_SIGNED", "guard_DIVMETHODINVERT_SIGNED",
                                                "cmpS64Upper", "cmpS64Lower", "cmpU64Upper", "unwrapS64Lo", "unwrapS64Hi", "unwrapU64Lo", "unwrapU64Hi",
                                                "unwrapS64Test", "unwrapU64Test")},
    }
    return ctx.finish("proof", cov, assumptions=[
        "IEEE-754 arithmetic on two plain numbers: the model's own executable instance (Int64/Ieee.lean: exact rational result, rounded once to nearest-even; "
        "floor and fmod exact) is proved to meet the mathematical rounding rneQ (IeeeQ.lean) and is compared bit for bit with the hardware / libm results of the "
        "implementation on >= 10^5 operand pairs per run (NaN payloads canonicalised: a janet number holds one quiet NaN); that the CPU and libm implement "
        "IEEE-754 is what this comparison tests, not a theorem. The NaN / infinity / signed-zero rules are part of the instance's definition (tested bit for bit, not proved against a separate spec). "
        "No representability hypothesis remains for integer-valued operands of magnitude <= 2^53 (num_ops_exact_on_integers); for general doubles div / mod are characterised as "
        "floor(RN(a/b)) / RN(a - RN(b*floor(RN(a/b)))) only, and (mod x y) on integers outside the side condition |y*floor(x/y)| <= 2^53 follows that formula (witness theorem)",
        "libm floor / ceil / trunc / round / fabs / fmod are black boxes in C: the model's versions are proved to be the mathematical functions and compared bit for bit with libm on every run",
        "shift counts outside the operand width and signed left shifts that overflow are undefined in ISO C; modelled as the hardware does (count mod width, "
        "two's-complement result) and tested on the non-sanitized build; the property makes no claim there",
        "`bnot` of a number outside int32 converts an out-of-range double to int32 unchecked (ISO C undefined): no claim, not compared",
        "primitive ordering (< <= > >=, cmp) between an s64 and a u64 is the order of the two type descriptors' addresses (janet_compare_abstract), whatever the values: "
        "the harness reports that order (`link?`) and the model takes it as `Cfg.s64BelowU64`; compared model vs implementation, no oracle claim "
        "(value ordering across the two types is `compare` / `compare<` ..., which is proved and judged by the oracle)",
        "the model is tied to the C by regenerated tables/flags (Gen/Int64.lean) and by the correspondence run; the C compiler and libc are trusted",
    ])


def replay(ctx, path):
    r = json.load(open(path))
    print(json.dumps(r, indent=1)[:2500])
    line = r.get("input")
    if line:
        hx = ctx.build.harness("plain", "c14arith", [HARNESS_SRC])
        out, crashes = run_impl(hx, [line])
        e = oracle.expected(line)
        print("replay: `%s`  (%s)\n  expected %s\n  observed %s" % (line, janet_expr(line), e, out[0]))
        if e is not None and out[0] != e:
            ctx.violation(r.get("signature", "replay"), dict(r, observed=out[0]), what="replayed: still fails")
            return ctx.finish("proof", {"evaluations": 1, "distinct_nontrivial": 1, "rule": "replay", "samples": [line]})
        print("replay: the input no longer fails")
        return 0
    return run(ctx)
