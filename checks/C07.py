"""C07 - a suspended fiber is resumed only by what it is currently waiting for.

Pipeline:  (A) regenerate Gen/Wait.lean from the current ev.c / os.c (which generation-counter checks exist at which site,
sleep rounding) -> (B,C) kernel re-checks Props/C07 (generation-counter invariant, stale_inert, sleep_not_early,
deadline_scoped ... over ALL step sequences of the model, parameterised by the extracted site configuration) + axiom audit +
"the hypotheses of the theorems hold for the configuration extracted from the current tree" -> (D) correspondence: the
compiled model driver jm_c07 and the real event loop (harness/C07/evwrap.c = wrapper TU around the current ev.c, virtual
clock, resume log) run the same generated scenarios, event logs are diffed -> (E) direct oracle of the property text on the
implementation's event log over the full A x B x abandon x fire matrix, independent of the model.
"""
import concurrent.futures as cf
import collections
import json
import os
import re
import subprocess

from vlib.core import run_cmd, VERIF
from vlib import core as vcore
from vlib.build import BuildError
from harness.C07 import gen, oracle

try:
    from tools.gen import wait as gen_wait
    from tools.gen import waitcb as gen_waitcb
    from tools.gen import waitboot as gen_waitboot
    from tools.gen.csrc import ExtractError
except ImportError:          # translator not present yet
    gen_wait = None
    gen_waitcb = None
    gen_waitboot = None

    class ExtractError(Exception):
        pass

THEOREMS = []
try:
    from harness.C07.theorems import THEOREMS, HAVE_DRIVER   # list kept beside the harness so notes/check agree
except ImportError:
    HAVE_DRIVER = False

NPROC = 16


def run_scenarios(hx, items, extra=(), tag="x"):
    """items: [(id, janet source)] -> {id: {"lines", "status"}} ; 16 harness processes, each forks per scenario"""
    if not items:
        return {}
    tmpd = "/var/tmp/c07-%d" % os.getpid()
    os.makedirs(tmpd, exist_ok=True)
    # threaded awaits block on a FIFO until the scenario's driver writes to it: one FIFO per (scenario, name)
    fifos = []
    if any("@FIFO:" in src for _, src in items):
        sub = []
        for n, (sid, src) in enumerate(items):
            if "@FIFO:" in src:
                def mk(m, n=n):
                    fn = os.path.join(tmpd, "%s_%d_%s.fifo" % (tag, n, m.group(1)))
                    if fn not in fifos:
                        os.mkfifo(fn)
                        fifos.append(fn)
                    return fn
                src = re.sub(r"@FIFO:(\w+)@", mk, src)
            sub.append((sid, src))
        items = sub
    chunks = [items[i::NPROC] for i in range(NPROC)]

    def one(i):
        if not chunks[i]:
            return ""
        fn = os.path.join(tmpd, "%s_%d.txt" % (tag, i))
        with open(fn, "w") as f:
            f.write("".join("@@@ %s\n%s\n" % (sid, src) for sid, src in chunks[i]))
        rc, out, err = run_cmd([hx, fn] + list(extra), timeout=1200)
        os.unlink(fn)
        return out.decode(errors="replace")
    with cf.ThreadPoolExecutor(NPROC) as ex:
        outs = list(ex.map(one, range(NPROC)))
    res = {}
    for o in outs:
        res.update(oracle.parse(o))
    for fn in fifos:
        # release a worker (sh / thread of a child that is gone) still blocked on the FIFO, then remove it
        try:
            os.close(os.open(fn, os.O_WRONLY | os.O_NONBLOCK))
        except OSError:
            pass
        os.unlink(fn)
    try:
        os.rmdir(tmpd)
    except OSError:
        pass
    for sid, _ in items:
        res.setdefault(sid, {"lines": [], "status": "missing"})
    return res


REAL_SLEEP = r'''
(def lits [%s])
(each d lits
  (def t0 (os/clock :monotonic))
  (ev/sleep d)
  (def t1 (os/clock :monotonic))
  (printf "%%.17g %%.17g %%.17g" d t0 t1))
'''


def real_sleep(ctx, janet, n):
    """ev/sleep against the real monotonic clock: only a lower bound is asserted, in the code's own ms ticks:
    floor(1000*t1) - floor(1000*t0) >= round(1000*d)   (t0 read before the call, t1 after it returns)."""
    import math
    lits = [ctx.rng.choice(gen.SLEEP_LITS[:17]) for _ in range(n)]
    src = REAL_SLEEP % " ".join(lits)
    fn = "/var/tmp/c07-sleep-%d.janet" % os.getpid()
    with open(fn, "w") as f:
        f.write(src)
    rc, out, err = run_cmd([janet, fn], timeout=120)
    os.unlink(fn)
    bad, cnt = [], 0
    for l in out.decode().splitlines():
        d, t0, t1 = [float(x) for x in l.split()]
        cnt += 1
        need = gen.c_round_ms(repr(d))
        if math.floor(t1 * 1000) - math.floor(t0 * 1000) < need:
            bad.append("(ev/sleep %r) returned after %.6f s (ticks %d..%d), needs %d ms" % (d, t1 - t0, math.floor(t0 * 1000), math.floor(t1 * 1000), need))
    if rc != 0 or cnt != n:
        bad.append("real-time sleep script failed rc=%r: %s" % (rc, err.decode(errors="replace")[-300:]))
    return cnt, bad


def lean_tie(ctx, stmt):
    """kernel-check one closed statement about the regenerated configuration (by decide)"""
    tmp = os.path.join(vcore.LEAN, ".lake", "tie_C07_%d.lean" % os.getpid())
    with open(tmp, "w") as f:
        f.write("import JanetModel.Props.C07\nopen JanetModel\nexample : %s := by decide\n" % stmt)
    r = subprocess.run(["lake", "env", "lean", tmp], cwd=vcore.LEAN, stdout=subprocess.PIPE, stderr=subprocess.STDOUT)
    os.unlink(tmp)
    return r.returncode == 0, r.stdout.decode(errors="replace")


def run(ctx, only=None):
    quick = ctx.tier == "quick"
    broken = []
    cfg = None
    cbd = None
    bootforms = {}
    wake = {}
    # ------------------------------------------------------------------ build
    try:
        ctx.build.boot()
        tree = ctx.build.tree
    except BuildError as e:
        ctx.violation("build-failed", {"kind": "build", "error": str(e)}, found=False, what="tree does not build")
        return ctx.finish("proof", {"evaluations": 0, "distinct_nontrivial": 0})
    # ------------------------------------------------------------------ (A) translator
    if gen_wait is not None:
        try:
            cfg = gen_wait.extract(tree)
            ctx.gen("Wait.lean", gen_wait.render(cfg))
        except ExtractError as e:
            broken.append("translator tools/gen/wait.py: %s" % e)
            ctx.broken.append(broken[-1])
        # listener callbacks as case tables + every janet_schedule* / janet_cancel call site (classified and checked by Lean)
        try:
            cbd = gen_waitcb.extract(tree)
            ctx.gen("WaitCb.lean", gen_waitcb.render(cbd))
            for f, fn, callee, lis, attr in cbd["sites"]:
                k = f + ":" + fn + ("" if attr == fn else " (part of %s)" % attr)
                wake[k] = wake.get(k, 0) + 1
        except ExtractError as e:
            broken.append("translator tools/gen/waitcb.py: %s" % e)
            ctx.broken.append(broken[-1])
        # the boot.janet forms that cancel other tasks (cancel-all, wait-for-fibers, ev/gather, ev/with-deadline) as S-expressions
        try:
            bootforms = gen_waitboot.extract(tree)
            ctx.gen("WaitBoot.lean", gen_waitboot.render(bootforms))
        except ExtractError as e:
            broken.append("translator tools/gen/waitboot.py: %s" % e)
            ctx.broken.append(broken[-1])
    # ------------------------------------------------------------------ (B, C) theorems
    if THEOREMS:
        broken += ctx.obligations("JanetModel.Props.C07", THEOREMS)
        if cfg is not None and not [b for b in broken if "lake" in b or "module" in b]:
            ctx.n_obl += 1
            ok, log = lean_tie(ctx, "Gen.Wait.cfg.allChecked = true")
            if ok:
                ctx.n_dis += 1
            else:
                missing = [k for k, v in cfg.items() if v is False]
                broken.append("hypothesis `cfg.allChecked` of resume_only_by_current_wait / resumed_only_by_registration_of_current_wait / "
                              "stale_inert / deadline_scoped / sleep_not_early / immediate_select_give_registers_nothing fails for the "
                              "current source: sites without the generation / status / ordering check: %s" % ", ".join(missing))
                ctx.broken.append(broken[-1])
            ctx.obl_names.append("tie: Gen.Wait.cfg.allChecked = true (sites extracted from the current ev.c / os.c)")
        if not quick:
            ok, log = ctx.leanchecker("JanetModel.Props.C07")
            if not ok:
                broken.append("leanchecker JanetModel.Props.C07: " + log[-300:])
    # ------------------------------------------------------------------ harness
    try:
        hx = ctx.build.harness("plain", "c07evwrap", [os.path.join(VERIF, "harness/C07/evwrap.c")])
        janet = ctx.build.variant("plain")["janet"]
    except BuildError as e:
        ctx.violation("harness-build-failed", {"kind": "build", "error": str(e)[-1500:]}, found=False,
                      what="harness/C07/evwrap.c does not compile against the current ev.c")
        return ctx.finish("proof", {"evaluations": 0, "distinct_nontrivial": 0})
    scs = gen.matrix()
    nrand = 300 if quick else 6000
    if broken:
        nrand *= 3
    rnd = gen.random_scenarios(ctx.rng.fork("rand"), nrand) if hasattr(gen, "random_scenarios") else []
    dls = gen.deadline_scenarios()
    corpus = gen.corpus_scenarios() if hasattr(gen, "corpus_scenarios") else []
    allsc = corpus + dls + scs + rnd
    byid = {s.id: s for s in allsc}
    items = [(s.id, s.janet()) for s in allsc]
    # quick tier: every scenario family runs in at least one clock mode, the base matrix (no dirt) in all three; thorough: everything
    # in every mode.  When something in A-C broke, the quick tier widens to the full set as well.
    full = (not quick) or bool(broken)

    def in_mode(sc, mode):
        if full or not sc.meta:
            return True
        d, n = sc.meta.get("dirt", "none"), sc.meta.get("nest", "none")
        if mode == "normal":
            return d != "r1"
        if mode == "gc":
            # the collector's mark visit goes to fibers that LISTEN on a stream: scenarios with a stream wait (+ net/accept corpus)
            return d == "none" and n in ("none", "try") and (sc.meta.get("A") in gen.STREAMY + ("accept", "connect") or sc.meta.get("B") in ("read", "write"))
        if mode == "early":
            return d == "none" and n in ("none", "try") and sc.meta.get("abandon") not in ("gsib", "gpar")
        return d in ("none", "r3") and n in ("none", "try", "defer+try")
    items = [(s.id, s.janet()) for s in allsc if in_mode(s, "normal")]
    early_items = [(s.id, s.janet()) for s in allsc if in_mode(s, "early")]
    res = run_scenarios(hx, items, tag="n")
    res_early = run_scenarios(hx, early_items, extra=["--early"], tag="e")
    # late-wake mode: the loop wakes 2 ms after every armed deadline, so a stale timer and the live one before it expire in
    # the same timer phase (otherwise the poll phase drops stale timers at the heap head and masks a missing check there).
    # Ticks are then not predictable: value-only oracle; scenarios whose B races its own deadline against the driver are left out
    late_items = [(s.id, s.janet()) for s in allsc if s.meta.get("B") != "dl" and in_mode(s, "late")]
    res_late = run_scenarios(hx, late_items, extra=["--late", "2"], tag="l")
    # gc mode: a full collection at every poll of the loop: the collector delivers JANET_ASYNC_EVENT_MARK to the callback of every
    # listening fiber between any two events.  Same oracle as the normal mode (exact ticks) AND the log must be identical to the
    # normal mode's log line by line (threaded awaits left out: the order of their real-time completions is not part of the log)
    gc_items = [(s.id, s.janet()) for s in allsc if in_mode(s, "gc")]
    res_gc = run_scenarios(hx, gc_items, extra=["--gc"], tag="g")
    evaluations = len(items) + len(early_items) + len(late_items) + len(gc_items)
    # ------------------------------------------------------------------ (D) correspondence with the model
    ndiff, ncorr, diffs = 0, 0, []
    exe = ctx.driver() if (THEOREMS and HAVE_DRIVER) else None
    if exe:
        msc = [s for s in allsc if s.model_ok() and s.id in res]
        order = gen_wait.ORDER if gen_wait is not None else []
        lines = ["cfg " + " ".join("1" if (cfg is None or cfg.get(k, True)) else "0" for k in order)]
        for s in msc:
            lines += s.model_lines([l for l in res[s.id]["lines"] if l.startswith("K ")])
        mout = ctx.model(lines, exe=exe)
        mres = oracle.parse_model(lines, mout)
        for s in msc:
            ncorr += 1
            a = oracle.canon_impl(res[s.id])
            b = mres.get(s.id, ["<no model output>"])
            if a != b:
                ndiff += 1
                if len(diffs) < 5:
                    k = 0
                    while k < len(a) and k < len(b) and a[k] == b[k]:
                        k += 1
                    diffs.append({"scenario": s.id, "at": k, "impl": a[k:k + 3], "model": b[k:k + 3], "janet": s.janet()})
        if ndiff:
            broken.append("correspondence model/impl: %d of %d scenarios differ; first: %s at line %d impl=%r model=%r" % (
                ndiff, ncorr, diffs[0]["scenario"], diffs[0]["at"], diffs[0]["impl"][:1], diffs[0]["model"][:1]))
            ctx.broken.append(broken[-1])
    # ------------------------------------------------------------------ (E) direct oracle on the implementation
    found = collections.OrderedDict()     # sig -> (scenario, what, mode)
    counts = collections.Counter()
    ngcdiff = 0
    for sid, _ in gc_items:
        s = byid[sid]
        if sid in res and sid in res_gc and not s.thrs and s.meta.get("A") not in ("accept", "connect") and res[sid]["status"] == "ok":
            la = [l for l in res[sid]["lines"] if not l.startswith("K ")]
            lb = [l for l in res_gc[sid]["lines"] if not l.startswith("K ")]
            if s.meta.get("abandon") in ("gsib", "gpar"):
                # cancel-all visits the fiber TABLE in hash (address) order: the order in which the siblings are cancelled within one
                # tick is not specified, so the logs are compared fiber by fiber
                def per_fiber(ls):
                    return sorted((l.split()[2], i, l) for i, l in enumerate(ls) if l[:2] in ("R ", "X ", "L "))
                la, lb = [x[2] for x in per_fiber(la)], [x[2] for x in per_fiber(lb)]
            if la != lb or res_gc[sid]["status"] != "ok":
                ngcdiff += 1
                k = 0
                while k < len(la) and k < len(lb) and la[k] == lb[k]:
                    k += 1
                counts["collection-changed-the-run"] += 1
                if "collection-changed-the-run" not in found:
                    found["collection-changed-the-run"] = (s, "a garbage collection at every poll (mark visit of every listening fiber's callback) changed the "
                                                              "event log at line %d: without %r, with %r (status %s)" % (
                                                                  k, la[k:k + 1], lb[k:k + 1], res_gc[sid]["status"]), "gc", res_gc[sid])
    for mode, rr in (("normal", res), ("early-wake", res_early), ("late-wake", res_late), ("gc", res_gc)):
        for s in allsc:
            if s.id not in rr:
                continue
            r = rr[s.id]
            ticks = mode != "late-wake"
            probs = oracle.check_resumes(s, r, ticks) if "resumes" in s.expect else oracle.check(s, r, ticks)
            for sig, what in probs:
                counts[sig] += 1
                if sig not in found:
                    found[sig] = (s, what, mode, r)
    # sleep never early: virtual clock (exact ticks, with and without spurious early wake-ups) + real monotonic clock
    nsl = 40 if quick else 600
    sl_items = [gen.sleep_scenario("sleep%04d" % i, ctx.rng.fork("sleep%d" % i)) for i in range(nsl)]
    sl_checked = 0
    for extra in ([], ["--early"]):
        sres = run_scenarios(hx, sl_items, extra=extra, tag="s")
        for sid, src in sl_items:
            n, bad = gen.check_sleep(sres[sid]["lines"])
            sl_checked += n
            if sres[sid]["status"] != "ok":
                bad.append("sleep scenario ended with status " + sres[sid]["status"])
            if bad and "sleep-early" not in found:
                counts["sleep-early"] += len(bad)
                found["sleep-early"] = (None, bad[0], "virtual" + " ".join(extra), {"lines": sres[sid]["lines"], "status": sres[sid]["status"], "janet": src})
    rn, rbad = real_sleep(ctx, janet, 12 if quick else 60)
    sl_checked += rn
    if rbad and "sleep-early" not in found:
        counts["sleep-early"] += len(rbad)
        found["sleep-early"] = (None, rbad[0], "real-clock", {"lines": rbad, "status": "real"})
    evaluations += 2 * nsl + rn
    for sig, (s, what, mode, r) in found.items():
        rep = {"kind": "scenario", "mode": mode, "scenario": s.id if s else "sleep", "meta": s.meta if s else {},
               "janet": s.janet() if s else r.get("janet", ""), "expected": s.expect if s else "end - start >= round(1000*d)",
               "observed_log": r["lines"][-120:], "status": r["status"], "count_in_this_run": counts[sig],
               "how_to_run": "harness/C07/evwrap.c built by checks/C07.py; ./check C07 --replay <this file>"}
        ctx.violation(sig, rep, what=("[%s, %d scenario(s)] " % (s.id if s else "sleep", counts[sig])) + what)
    if broken and not found:
        ctx.violation("broken:" + broken[0][:80], {"kind": "broken-obligation", "broken": broken, "first_diffs": diffs}, found=False,
                      what="no longer shown to hold: " + "; ".join(broken)[:700])
    elif broken:
        ctx.say("broken obligations (explained by the violations above): " + "; ".join(b[:200] for b in broken))
    # ------------------------------------------------------------------ coverage
    dist = collections.Counter()
    for s in allsc:
        m = s.meta
        if m:
            dist["A=" + m["A"]] += 1
            dist["B=" + m["B"]] += 1
            dist["abandon=" + m["abandon"]] += 1
            dist["fire=" + m["fire"]] += 1
            dist["nest=" + m.get("nest", "none")] += 1
            dist["dirt=" + m.get("dirt", "none")] += 1
    endings = collections.Counter(r["status"] for r in res.values())
    cov = {
        "evaluations": evaluations,
        "distinct_nontrivial": len(set(src for _, src in items)) + len(sl_items),
        "rule": "one evaluation = one generated janet program run in the real event loop under the virtual clock (normal and "
                "early-wake mode); non-trivial = distinct program text; matrix = every (A kind, abandon kind, fire kind, B kind)",
        "samples": [items[0][0], items[len(items) // 2][0], items[-1][0]],
        "matrix_scenarios": len(scs), "runs_by_clock_mode": {"normal": len(items), "early-wake": len(early_items), "late-wake": len(late_items),
                                                               "gc-every-poll": len(gc_items)},
        "gc_mode_log_differences": ngcdiff,
        "listener_callbacks": {c["name"]: {"file": c["file"], "groups": [{"labels": g["ev"] + (["default"] if g["default"] else []),
                                                                            "calls": g["acts"]} for g in c["groups"]], "after_switch": c["post"]}
                               for c in (cbd["callbacks"] if cbd else [])},
        "boot_forms": {k: gen_waitboot.show(v) for k, v in bootforms.items()} if gen_waitboot else {},
        "ev_callback_deliveries": ["%s:%s %s" % (f, fn, ev[0]) for f, fn, ev in (cbd["deliveries"] if cbd else [])],
        "random_scenarios": len(rnd), "deadline_scope_scenarios": len(dls), "corpus": len(corpus),
        "sleep_checks": sl_checked, "real_clock_sleeps": rn,
        "distribution": dict(sorted(dist.items())), "scenario_endings": dict(endings),
        "oracle_failures_by_signature": dict(counts),
        "correspondence_scenarios": ncorr, "correspondence_diffs": ndiff,
        "site_configuration": cfg,
        "wake_up_sites": {k: "%d call(s)" % v for k, v in sorted(wake.items())},
    }
    return ctx.finish("proof", cov, assumptions=[
        "kernel (epoll readiness, pipes, process reaping) and time are inputs of the model; stream / process waits are proved on "
        "the model with the kernel as an arbitrary event source and tested on the implementation with real pipes and processes",
        "virtual clock: clock_gettime / timerfd_settime / epoll_wait as called from ev.c are redirected by the wrapper TU; "
        "real-clock run asserts only the lower bound of ev/sleep in whole milliseconds",
        "threaded channels are outside this check (C08)",
    ])


def replay(ctx, path):
    r = json.load(open(path))
    print(json.dumps({k: r.get(k) for k in ("signature", "what", "scenario", "meta", "mode")}, indent=1))
    if r.get("janet"):
        hx = ctx.build.harness("plain", "c07evwrap", [os.path.join(VERIF, "harness/C07/evwrap.c")])
        mode = str(r.get("mode"))
        res = run_scenarios(hx, [(r.get("scenario", "replay"), r["janet"])],
                            extra=["--early"] if "early" in mode else (["--late", "2"] if "late" in mode else (["--gc"] if mode == "gc" else [])), tag="r")
        for v in res.values():
            print("\n".join(v["lines"]))
            print("status:", v["status"])
    return run(ctx)
