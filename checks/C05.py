"""C05 - fibers follow the coroutine and signal protocol.

(A) regenerate Gen/Fiber.lean from janet.h / fiber.h / fiber.c / vm.c / value.c / util.c / capi.c / corelib.c
(B,C) kernel-check Props/C05 + axiom audit
(D) correspondence: random fiber trees rendered as janet source (run by the ASan variant, many trees per process) and as
    model scripts (jm_c05); the full event traces (who ran, value received, status of every fiber after each
    instruction, cleanup executions, final signal) must be identical
(E) direct oracle on the implementation trace (harness/C05/oracle.py), independent of the Lean model.
"""
import concurrent.futures as cf
import json
import os
import re
import tempfile

from vlib.core import run_cmd, VERIF
from vlib.build import BuildError
from tools.gen import fiber as gen_fiber
from tools.gen.csrc import ExtractError
from harness.C05 import gen, oracle, prelude

THEOREMS = [
    "JanetModel.Props.C05.finished_never_resumes",
    "JanetModel.Props.C05.resume_finished_raises",
    "JanetModel.Props.C05.status_monotone",
    "JanetModel.Props.C05.status_monotone_from_init",
    "JanetModel.Props.C05.finished_is_forever",
    "JanetModel.Props.C05.reachable_inv",
    "JanetModel.Props.C05.new_becomes_alive",
    "JanetModel.Props.C05.values_pass_unchanged_in_order",
    "JanetModel.Props.C05.first_resume_value_bound",
    "JanetModel.Props.C05.first_resume_enters",
    "JanetModel.Props.C05.deliver_binds_value",
    "JanetModel.Props.C05.unwind_passes",
    "JanetModel.Props.C05.signal_delivered_to_nearest_accepting",
    "JanetModel.Props.C05.no_other_fiber_sees_it",
    "JanetModel.Props.C05.delivery_touches_only_receiver",
    "JanetModel.Props.C05.mask_letters_sound",
    "JanetModel.Props.C05.cleanup_arrival",
    "JanetModel.Props.C05.defer_arrival",
    "JanetModel.Props.C05.defer_runs_exactly_once",
    "JanetModel.Props.C05.edefer_runs_exactly_once",
    "JanetModel.Props.C05.with_runs_exactly_once",
    "JanetModel.Props.C05.with_is_defer",
    "JanetModel.Props.C05.priv_is_needed",
    "JanetModel.Props.C05.try_arrival",
    "JanetModel.Props.C05.macro_runs_exactly_once",
    "JanetModel.Props.C05.try_catch_runs_exactly_once",
    "JanetModel.Props.C05.try_catch_iff_error",
    "JanetModel.Props.C05.try_mask_facts",
    "JanetModel.Props.C05.protect_runs_exactly_once",
    "JanetModel.Props.C05.prompt_runs_exactly_once",
    "JanetModel.Props.C05.prompt_mask_facts",
    "JanetModel.Props.C05.with_dyns_runs_exactly_once",
    "JanetModel.Props.C05.generate_mask_not_accFin",
    "JanetModel.Props.C05.propagate_reraises_original",
    "JanetModel.Props.C05.raise_is_unwind",
    "JanetModel.Props.C05.defer_propagate_reraises_original",
    "JanetModel.Props.C05.dyn_visibility",
    "JanetModel.Fiber.step_res",
    "JanetModel.Fiber.step_G",
    "JanetModel.Fiber.blocked_until_exit",
]
ENV = dict(os.environ, ASAN_OPTIONS="detect_leaks=0:abort_on_error=0", UBSAN_OPTIONS="print_stacktrace=1")
CORPUS = os.path.join(VERIF, "corpus", "C05")


SRC = {}     # tree index -> rendered janet source (rendered once, in the main thread: gen.REN is not thread-safe)


def tup(x):
    return tuple(tup(y) for y in x) if isinstance(x, list) else x


def split_line(l):
    """'<events> | <halt> [| steps]' -> (comparable text, halt kind)"""
    parts = l.split(" | ")
    if len(parts) < 2:
        return l, "bad"
    evs = ";".join(e for e in parts[0].split(";") if e and not e.startswith("@"))
    return evs + " | " + parts[1], parts[1].split(" ")[0]


def run_janet(janet, pre, items, timeout):
    """items: list of (idx, tree, flags) -> (dict idx -> output line, rc, stderr tail)"""
    fd, path = tempfile.mkstemp(prefix="c05-", suffix=".janet", dir="/var/tmp")
    with os.fdopen(fd, "w") as f:
        f.write(pre + "\n" + "\n".join(SRC.get(i) or gen.janet_tree(i, t, fl) for i, t, fl in items) + "\n")
    try:
        rc, out, err = run_cmd([janet, path], timeout=timeout, env=ENV)
    finally:
        os.unlink(path)
    res = {}
    for l in out.decode(errors="replace").splitlines():
        i, _, rest = l.partition(" ")
        if i.isdigit():
            res[int(i)] = rest
    return res, rc, err.decode(errors="replace")[-3000:]


def run(ctx, only=None):
    quick = ctx.tier == "quick"
    broken = []
    # (A)
    try:
        ctx.gen("Fiber.lean", gen_fiber.render(ctx.build.tree if ctx.build.boot() is None else ctx.build.tree))
    except ExtractError as e:
        broken.append("translator tools/gen/fiber.py: %s" % e)
        ctx.broken.append(broken[-1])
    except BuildError as e:
        ctx.violation("build-failed", {"kind": "build", "error": str(e)}, found=False, what="tree does not build")
        return ctx.finish("proof", {"evaluations": 0, "distinct_nontrivial": 0})
    # (B,C)
    broken += ctx.obligations("JanetModel.Props.C05", THEOREMS)
    if not quick:
        ok, log = ctx.leanchecker("JanetModel.Props.C05")
        if not ok:
            broken.append("leanchecker JanetModel.Props.C05: " + log[-300:])
    exe = ctx.driver()
    asan = ctx.try_variant("asan")
    if asan is None:
        return ctx.finish("proof", {"evaluations": 0, "distinct_nontrivial": 0})
    janet = asan["janet"]
    try:
        pre = prelude.prelude(ctx.build.tree)
    except prelude.PreludeError as e:
        broken.append("harness prelude (macros cut out of boot.janet): %s" % e)
        ctx.broken.append(broken[-1])
        pre = None
    # ---- trees: corpus first, then random
    trees = []
    names = {}
    if os.path.isdir(CORPUS):
        for fn in sorted(os.listdir(CORPUS)):
            if fn.endswith(".json"):
                with open(os.path.join(CORPUS, fn)) as f:
                    c = json.load(f)
                names[len(trees)] = fn
                trees.append((tup(c["tree"]), c.get("flags", "a")))
    ncorpus = len(trees)
    n = (3000 if quick else 40000) * (3 if broken else 1)
    opmix = {}
    for i in range(n):
        g = gen.Gen(ctx.rng.fork("tree%d" % i), size=ctx.rng.range(3, 18), maxdepth=ctx.rng.range(2, 5))
        t, fl = g.tree()
        trees.append((t, fl))
        for k, v in g.stats.items():
            opmix[k] = opmix.get(k, 0) + v
    ctx.say("%d trees (%d corpus)" % (len(trees), ncorpus))
    lines = [gen.model_line(t, fl) for t, fl in trees]
    model_out = ctx.model(lines, exe=exe) if exe else None
    halts = {}
    runnable = []
    for i, (t, fl) in enumerate(trees):
        kind = split_line(model_out[i])[1] if model_out else "done"
        if kind == "bad" and "caller_is_not_blocked" in model_out[i]:
            # a descendant re-entered a fiber that is itself a live pass-through activation (two activations of one
            # fiber); the model keeps one continuation per fiber and does not cover this (notes/C05.md, limits)
            kind = "unmodelled_reentrant"
        halts[kind] = halts.get(kind, 0) + 1
        if kind in ("done", "unmodelled_reentrant") or model_out is None:
            runnable.append((i, t, fl))      # unmodelled_reentrant: no model trace to compare with, but the oracle still judges
        elif kind in ("bad", "running") or model_out[i].startswith("bad-op"):
            broken.append("model driver rejected / got stuck on tree %d: %s" % (i, model_out[i][-200:]))
    impl = {}
    SRC.clear()
    for i, (t, fl) in enumerate(trees):
        SRC[i] = gen.janet_tree(i, t, fl)
    diffs, crashes, oracle_bad, unconfirmed = [], [], [], []
    stats = {}
    if pre is not None:
        # trees on which the model predicts a hang are run alone, with a timeout
        for i, (t, fl) in enumerate(trees):
            if model_out and split_line(model_out[i])[1] == "hang":
                res, rc, err = run_janet(janet, pre, [(i, t, fl)], 10)
                if rc is None:
                    ctx.violation("cancel-cycle-hang", {"kind": "hang", "tree": names.get(i, i), "janet": gen.janet_tree(i, t, fl),
                                                        "prelude": "harness/C05/prelude.py", "model": model_out[i]},
                                  what="`cancel` never returns: janet_continue_signal walks a cyclic child chain forever (the canceller is on the chain)")
                else:
                    broken.append("model predicts a hang, implementation returned (tree %s)" % names.get(i, i))
        nb = 16 if len(runnable) > 64 else 1
        batches = [runnable[k::nb] for k in range(nb)]

        def work(b):
            return b, run_janet(janet, pre, b, 900)
        with cf.ThreadPoolExecutor(16) as ex:
            for b, (res, rc, err) in ex.map(work, [b for b in batches if b]):
                impl.update(res)
                if rc != 0 or len(res) != len(b):
                    # crash / sanitizer abort / hang: the first tree without output
                    missing = [x for x in b if x[0] not in res]
                    if missing:
                        crashes.append((missing[0], rc, err))
        for (i, t, fl), rc, err in crashes:
            # confirm alone
            res, rc2, err2 = run_janet(janet, pre, [(i, t, fl)], 30)
            if i in res and rc2 == 0:
                impl[i] = res[i]
                continue
            sig = "crash"
            if "heap-use-after-free" in err2 and "run_vm" in err2:
                sig = "binop-stale-stack-uaf"
            ctx.violation(sig, {"kind": "crash", "tree": names.get(i, i), "janet": gen.janet_tree(i, t, fl), "rc": rc2, "stderr": err2[-2500:],
                                "model_line": lines[i]},
                          what="implementation crashed / sanitizer report / timeout on a fiber tree (rc=%r): %s" % (rc2, err2.strip().splitlines()[1][:160] if len(err2.strip().splitlines()) > 1 else ""))
        # (D) diff and (E) oracle
        for i, t, fl in runnable:
            if i not in impl:
                continue
            info = gen.site_info(t)
            rfl, rsig, rv0 = gen.root_of(fl)
            if rsig != "none":
                gen.param_labels(t, rsig, info)
            info["root_v"] = "nil" if rv0 == "n" else rv0[1:]
            info["sigs"] = {k: v[:3] for k, v in gen.SIGS.items()}
            bad = oracle.check(impl[i], info, stats)
            same = True
            if model_out is not None and split_line(model_out[i])[1] == "done":
                a, _ = split_line(impl[i])
                b, _ = split_line(model_out[i])
                if a != b:
                    diffs.append(i)
                    same = False
            if bad:
                oracle_bad.append((i, bad))
    # raw janet scenarios (regressions of past findings), run under ASan
    scen = 0
    if os.path.isdir(CORPUS):
        for fn in sorted(os.listdir(CORPUS)):
            if fn.endswith(".janet"):
                scen += 1
                rc, out, err = run_cmd([janet, os.path.join(CORPUS, fn)], timeout=60, env=ENV)
                o = out.decode(errors="replace").strip()
                if rc != 0 or not o.endswith("ok"):
                    with open(os.path.join(CORPUS, fn)) as f:
                        src = f.read()
                    ctx.violation(fn[:-6], {"kind": "scenario", "file": fn, "janet": src, "rc": rc, "stdout": o[-500:], "stderr": err.decode(errors="replace")[-2500:]},
                                  what="scenario %s failed on the implementation (rc=%r, stdout %r)" % (fn, rc, o[-80:]))
    for i, bad in oracle_bad[:5]:
        t, fl = trees[i]
        sig = "protocol:" + bad[0][0]
        if str(names.get(i, "")).startswith("ancestor-reentry"):
            sig = "ancestor-reentry-premature-cleanup"
        ctx.violation(sig, {"kind": "protocol", "rule": bad[0][0], "violations": bad[:10], "janet": gen.janet_tree(i, t, fl),
                                               "model_line": lines[i], "impl_trace": impl[i], "tree": names.get(i, i)},
                      what="protocol statement `%s` fails on the implementation: %s" % bad[0])
    if diffs:
        i = diffs[0]
        broken.append("correspondence model/impl: %d of %d trees differ (first: tree %s)" % (len(diffs), len(runnable), names.get(i, i)))
        ctx.broken.append(broken[-1])
    if broken and not ctx.nviol:
        rep = {"kind": "broken-obligation", "broken": broken}
        if diffs:
            i = diffs[0]
            t, fl = trees[i]
            rep.update({"janet": gen.janet_tree(i, t, fl), "model_line": lines[i], "impl": split_line(impl[i])[0], "model": split_line(model_out[i])[0]})
        ctx.violation("broken:" + broken[0][:80], rep, found=False, what="no longer shown to hold: " + "; ".join(broken)[:700])
    nev = sum(l.count(";") + 1 for l in impl.values())
    samples = [gen.janet_tree(i, t, fl)[:400] for i, t, fl in runnable[ncorpus:ncorpus + 2]]
    cov = {
        "evaluations": len(impl),
        "distinct_nontrivial": len(set(lines)),
        "rule": "one evaluation = one generated fiber tree executed by the ASan build and by the model, full traces compared; "
                "non-trivial = distinct tree (every tree has >= 1 fiber switch); oracle statistics count individual protocol checks",
        "samples": samples,
        "trees": len(trees), "corpus_trees": ncorpus, "raw_scenarios": scen, "trace_entries": nev,
        "model_halt_kinds": halts, "correspondence_diffs": len(diffs), "crashes": len(crashes),
        "oracle_violations": len(oracle_bad), "oracle_adjacency_hits_model_agrees": [(i, b[1][:200]) for i, b in unconfirmed[:10]], "oracle_checks": stats, "generator_op_mix": opmix,
    }
    ctx.say("halts %r diffs %d oracle_bad %d stats %r" % (halts, len(diffs), len(oracle_bad), stats))
    return ctx.finish("proof", cov, assumptions=[
        "theorems are about the Lean model (Fiber/Model.lean, Fiber/Boot.lean); the model is tied to the C by the regenerated constants and by trace correspondence",
        "not modelled: debug signals / breakpoints, ev scheduler tasks (only the root-fiber refusal), JANET_RECURSION_GUARD (cyclic suspended chains -> `unmodelled`), "
        "propagate of a dead fiber inside a janet_call frame, fiber functions with parameters",
        "cleanup `exactly once` is about exits of the body fiber; a body suspended for ever has not exited"])


def replay(ctx, path):
    with open(path) as f:
        r = json.load(f)
    print(json.dumps({k: (v if not isinstance(v, str) else v[:1500]) for k, v in r.items()}, indent=1)[:6000])
    src = r.get("janet")
    if src and r.get("kind") in ("hang", "crash", "protocol", "broken-obligation"):
        asan = ctx.try_variant("asan")
        fd, p = tempfile.mkstemp(prefix="c05-replay-", suffix=".janet", dir="/var/tmp")
        with os.fdopen(fd, "w") as f:
            f.write((prelude.prelude(ctx.build.tree) + "\n" if "run-tree" in src else "") + src + "\n")
        rc, out, err = run_cmd([asan["janet"], p], timeout=20, env=ENV)
        os.unlink(p)
        print("replay on the implementation: rc=%r\nstdout: %s\nstderr: %s" % (rc, out.decode(errors="replace")[-1500:], err.decode(errors="replace")[-1500:]))
    return run(ctx)
