"""C05 - fibers follow the coroutine and signal protocol.

(A) regenerate Gen/Fiber.lean from janet.h / fiber.h / fiber.c / vm.c / value.c / util.c / capi.c / corelib.c
(B,C) kernel-check Props/C05 + axiom audit
(D) correspondence: random fiber trees rendered as janet source (run by the ASan variant, many trees per process) and as
    model scripts (jm_c05); the full event traces (who ran, value received, status of every fiber after each
    instruction, cleanup executions, final signal) must be identical
(E) direct oracle on the implementation trace (harness/C05/oracle.py), independent of the Lean model.
"""
import concurrent.futures as cf
import json
import os
import re
import tempfile

from vlib.core import run_cmd, VERIF
from vlib.build import BuildError
from tools.gen import fiber as gen_fiber
from tools.gen.csrc import ExtractError
from harness.C05 import gen, oracle, prelude

THEOREMS = [
    "JanetModel.Props.C05.finished_never_resumes",
    "JanetModel.Props.C05.resume_finished_raises",
    "JanetModel.Props.C05.cancel_root_chain_refused_unmarked",
    "JanetModel.Props.C05.status_monotone",
    "JanetModel.Props.C05.status_monotone_from_init",
    "JanetModel.Props.C05.finished_is_forever",
    "JanetModel.Props.C05.reachable_inv",
    "JanetModel.Props.C05.new_becomes_alive",
    "JanetModel.Props.C05.values_pass_unchanged_in_order",
    "JanetModel.Props.C05.first_resume_value_bound",
    "JanetModel.Props.C05.first_resume_enters",
    "JanetModel.Props.C05.named_params_at_first_resume",
    "JanetModel.Props.C05.named_only_nonnil_first_value_fails",
    "JanetModel.Props.C05.deliver_binds_value",
    "JanetModel.Props.C05.unwind_passes",
    "JanetModel.Props.C05.signal_delivered_to_nearest_accepting",
    "JanetModel.Props.C05.no_other_fiber_sees_it",
    "JanetModel.Props.C05.delivery_touches_only_receiver",
    "JanetModel.Props.C05.mask_letters_sound",
    "JanetModel.Props.C05.cleanup_arrival",
    "JanetModel.Props.C05.defer_arrival",
    "JanetModel.Props.C05.defer_runs_exactly_once",
    "JanetModel.Props.C05.edefer_runs_exactly_once",
    "JanetModel.Props.C05.with_runs_exactly_once",
    "JanetModel.Props.C05.with_is_defer",
    "JanetModel.Props.C05.priv_is_needed",
    "JanetModel.Props.C05.try_arrival",
    "JanetModel.Props.C05.macro_runs_exactly_once",
    "JanetModel.Props.C05.try_catch_runs_exactly_once",
    "JanetModel.Props.C05.try_catch_iff_error",
    "JanetModel.Props.C05.try_mask_facts",
    "JanetModel.Props.C05.protect_runs_exactly_once",
    "JanetModel.Props.C05.prompt_runs_exactly_once",
    "JanetModel.Props.C05.prompt_mask_facts",
    "JanetModel.Props.C05.with_dyns_runs_exactly_once",
    "JanetModel.Props.C05.generate_mask_not_accFin",
    "JanetModel.Props.C05.propagate_reraises_original",
    "JanetModel.Props.C05.raise_is_unwind",
    "JanetModel.Props.C05.defer_propagate_reraises_original",
    "JanetModel.Props.C05.recursion_counter_restored",
    "JanetModel.Props.C05.run_vm_counter_restored",
    "JanetModel.Props.C05.resume_counter_restored",
    "JanetModel.Props.C05.guard_refuses_only_resumable",
    "JanetModel.Props.C05.status_monotone_guarded",
    "JanetModel.Props.C05.guarded_is_unguarded_below",
    "JanetModel.Props.C05.guard_clobbers_status_in_old_order",
    "JanetModel.Props.C05.macro_runs_exactly_once_guarded",
    "JanetModel.Props.C05.status_monotone_guarded_sched",
    "JanetModel.Props.C05.finished_is_forever_guarded_sched",
    "JanetModel.Props.C05.macro_runs_exactly_once_guarded_sched",
    "JanetModel.Props.C05.defer_runs_exactly_once_guarded_sched",
    "JanetModel.Fiber.loopEnterG_G",
    "JanetModel.Fiber.loopEnterG_res",
    "JanetModel.Fiber.blocked_until_exit_guarded_sched",
    "JanetModel.Props.C05.denv_never_reassigned",
    "JanetModel.Props.C05.denv_never_reassigned_from_init",
    "JanetModel.Props.C05.denv_never_reassigned_guarded_sched",
    "JanetModel.Props.C05.dyn_table_and_proto_permanent",
    "JanetModel.Fiber.stepG_G",
    "JanetModel.Fiber.stepG_res",
    "JanetModel.Props.C05.dyn_visibility",
    "JanetModel.Props.C05.dyn_observes_nearest_binding",
    "JanetModel.Props.C05.dyn_set_invisible_elsewhere",
    "JanetModel.Props.C05.dyn_set_visible_through_links",
    "JanetModel.Props.C05.setdyn_instruction_writes_own_table",
    "JanetModel.Props.C05.dyn_instruction_reads_own_chain",
    "JanetModel.Props.C05.fiber_new_env_links",
    "JanetModel.Props.C05.dyn_links_permanent",
    "JanetModel.Props.C05.finished_is_forever_sched",
    "JanetModel.Props.C05.macro_runs_exactly_once_sched",
    "JanetModel.Props.C05.defer_runs_exactly_once_sched",
    "JanetModel.Fiber.loopEnter_G",
    "JanetModel.Fiber.loopEnter_res",
    "JanetModel.Fiber.blocked_until_exit_sched",
    "JanetModel.Fiber.step_res",
    "JanetModel.Fiber.step_G",
    "JanetModel.Fiber.blocked_until_exit",
]
ENV = dict(os.environ, ASAN_OPTIONS="detect_leaks=0:abort_on_error=0", UBSAN_OPTIONS="print_stacktrace=1")
CORPUS = os.path.join(VERIF, "corpus", "C05")


SRC = {}     # tree index -> rendered janet source (rendered once, in the main thread: gen.REN is not thread-safe)


def tup(x):
    return tuple(tup(y) for y in x) if isinstance(x, list) else x


def split_line(l):
    """'<events> | <halt> [| steps]' -> (comparable text, halt kind)"""
    parts = l.split(" | ")
    if len(parts) < 2:
        return l, "bad"
    evs = ";".join(e for e in parts[0].split(";") if e and not e.startswith("@"))
    return evs + " | " + parts[1], parts[1].split(" ")[0]


def run_janet(janet, pre, items, timeout):
    """items: list of (idx, tree, flags) -> (dict idx -> output line, rc, stderr tail)"""
    fd, path = tempfile.mkstemp(prefix="c05-", suffix=".janet", dir="/var/tmp")
    with os.fdopen(fd, "w") as f:
        f.write(pre + "\n" + "\n".join(SRC.get(i) or gen.janet_tree(i, t, fl) for i, t, fl in items) + "\n")
    try:
        rc, out, err = run_cmd([janet, path], timeout=timeout, env=ENV)
    finally:
        os.unlink(path)
    res = {}
    for l in out.decode(errors="replace").splitlines():
        i, _, rest = l.partition(" ")
        if i.isdigit():
            res[int(i)] = rest
    return res, rc, err.decode(errors="replace")[-3000:]


FIN = {0, 1, 4, 5, 6, 7, 8}


def guard_r1(line, final_forced=()):
    """direct oracle on a guard-pass trace of the IMPLEMENTATION: statuses only move forward, a finished fiber keeps its
    status, nothing returns to `new` — also when the recursion guard refuses a resume.  Returns a message or None.
    `final_forced`: registry slots whose digit in the FINAL snapshot is written by the harness, not read from the fiber
    (run-tree-gs prints `f` for slot 0, its stand-in for the running harness fiber) - not compared there."""
    body, _, fin = line.partition(" | ")
    snaps = []
    for e in body.split(";") if body else []:
        last = re.split(r"[ :]", e)[-1]
        if re.fullmatch(r"[0-9a-f]+/-?\d+", last):
            snaps.append(last.split("/")[0])
    fp = fin.split(" ")
    if len(fp) >= 4:
        snaps.append(fp[3])
    prev = None
    for k, sn in enumerate(snaps):
        if prev is not None:
            for i in range(min(len(prev), len(sn))):
                if i in final_forced and k == len(snaps) - 1 and len(fp) >= 4:
                    continue
                a, b = int(prev[i], 16), int(sn[i], 16)
                if a != b and (a in FIN or b == 14):
                    return "fiber %d went from status %d to %d (snapshots %s -> %s)" % (i, a, b, prev, sn)
        prev = sn
    return None


def guard_pass(ctx, exe, after, n, broken):
    """(D') correspondence of the recursion-guard layer: random trees run by harness/C05/guardmain.c (vm.c recompiled with
    JANET_RECURSION_GUARD lowered to `lim` levels below the tree's root; janet_vm.stackn logged with every event) and by
    the model's guarded machine `stepG`; traces incl. the counter must be equal.  (E') statuses forward on the
    implementation trace.  Returns coverage dict."""
    cov = {"guard_trees": 0, "guard_trips_impl": 0, "guard_unmodelled_chain": 0, "guard_diffs": 0, "guard_max_depth": 0, "guard_limits": {}}
    try:
        binp = ctx.build.harness("asan", "c05guard", [os.path.join(VERIF, "harness", "C05", "guardmain.c")])
        pre = prelude.prelude_guard(ctx.build.tree)
    except (BuildError, prelude.PreludeError) as e:
        broken.append("guard harness (vm.c wrapper TU with lowered JANET_RECURSION_GUARD): %s" % str(e)[-300:])
        ctx.broken.append(broken[-1])
        return cov
    trees = []
    for i in range(n):
        r = ctx.rng.fork("gtree%d" % i)
        g = gen.Gen(r, size=r.range(3, 18), maxdepth=r.range(2, 5))
        t, fl = g.tree()
        lim = [2, 3, 3, 4, 4, 5, 6, 8][r.below(8)]
        trees.append((t, fl, lim))
        cov["guard_limits"][str(lim)] = cov["guard_limits"].get(str(lim), 0) + 1
    lines = [gen.model_line_g(t, fl, after, lim) for t, fl, lim in trees]
    model_out = ctx.model(lines, exe=exe) if exe else None
    srcs = [gen.janet_tree_g(i, t, fl, lim) for i, (t, fl, lim) in enumerate(trees)]
    nb = 8 if n > 64 else 1

    def work(k):
        fd, path = tempfile.mkstemp(prefix="c05g-", suffix=".janet", dir="/var/tmp")
        with os.fdopen(fd, "w") as f:
            f.write(pre + "\n" + "\n".join(srcs[k::nb]) + "\n")
        try:
            rc, out, err = run_cmd([binp, "1024", path], timeout=900, env=ENV)
        finally:
            os.unlink(path)
        res = {}
        for l in out.decode(errors="replace").splitlines():
            i, _, rest = l.partition(" ")
            if i.isdigit():
                res[int(i)] = rest
        return k, res, rc, err.decode(errors="replace")[-2000:]
    impl = {}
    with cf.ThreadPoolExecutor(8) as ex:
        for k, res, rc, err in ex.map(work, range(nb)):
            impl.update(res)
            want = len(srcs[k::nb])
            if rc != 0 or len(res) != want:
                missing = [i for i in range(k, n, nb) if i not in res]
                ctx.violation("guard-pass-crash", {"kind": "crash", "janet": srcs[missing[0]] if missing else "", "rc": rc, "stderr": err,
                                                   "prelude": "harness/C05/prelude.py prelude_guard", "harness": "harness/C05/guardmain.c"},
                              what="guard pass: implementation crashed / sanitizer report on a fiber tree run with a lowered recursion guard (rc=%r)" % rc)
    first_diff = None
    for i, (t, fl, lim) in enumerate(trees):
        if i not in impl:
            continue
        cov["guard_trees"] += 1
        if "C_stack_recursed_too_deeply" in impl[i]:
            cov["guard_trips_impl"] += 1
        for mm in re.finditer(r"/(\d+)", impl[i]):
            cov["guard_max_depth"] = max(cov["guard_max_depth"], int(mm.group(1)))
        msg = guard_r1(impl[i])
        if msg:
            ctx.violation("guard-clobbers-status", {"kind": "protocol", "rule": "status_forward_at_guard", "janet": srcs[i], "impl_trace": impl[i],
                                                    "limit": lim, "prelude": "harness/C05/prelude.py prelude_guard", "harness": "harness/C05/guardmain.c"},
                          what="a fiber's status moved backwards / a finished fiber changed status when the recursion guard refused a resume: " + msg)
        if model_out is None:
            continue
        mk = split_line(model_out[i])[1]
        if mk == "unmodelled":
            cov["guard_unmodelled_chain"] += 1
            continue
        if mk != "done":
            broken.append("guard pass: model driver rejected / got stuck on tree %d: %s" % (i, model_out[i][-200:]))
            continue
        if split_line(impl[i])[0] != split_line(model_out[i])[0]:
            cov["guard_diffs"] += 1
            if first_diff is None:
                first_diff = i
    if first_diff is not None:
        i = first_diff
        broken.append("guard correspondence (counter / guard trips) model vs impl: %d of %d trees differ (first: limit %d)" % (cov["guard_diffs"], cov["guard_trees"], trees[i][2]))
        ctx.broken.append(broken[-1])
        cov["guard_first_diff"] = {"janet": srcs[i], "model_line": lines[i], "impl": split_line(impl[i])[0], "model": split_line(model_out[i])[0]}
    return cov


NAMED_PRE = r'''
(defn show [x] (cond (nil? x) "nil" (keyword? x) (string ":" x) (string? x) (string "\"" (string/replace-all " " "_" x) "\"") (string x)))
(defn t [id f v]
  (def fb (fiber/new f :a))
  (def r (resume fb v))
  (print id " " (fiber/status fb) " " (if (tuple? r) (string/join (map show r) ",") (string/replace-all " " "_" (string r)))
         " " (string/join (map string (filter keyword? (disasm f :constants))) ","))
  (flush))
'''


def named_pass(ctx, exe, janet, broken):
    """(D''') `&named` parameters at the first resume: functions `(fn [pos.. &named k1 .. kn] [pos.. k1 .. kn])` with arity
    0 / 1 / 2 (positional ones `&opt` or required), 1-3 keys, first value nil / number / keyword / string, run by the
    implementation and by Fiber/Named.lean firstResumeNamed (key order = the compiled one, read from `(disasm f :constants)`)."""
    cov = {"named_cases": 0, "named_diffs": 0, "named_entry_errors": 0}
    if exe is None:
        return cov
    cases = []
    r = ctx.rng.fork("named")
    names = ["a", "b", "c", "zz", "k9", "name", "q"]
    for shape, ar, mn, plist in (("none", 0, 0, ""), ("req", 1, 1, "x "), ("opt", 1, 0, "&opt x "), ("opt2", 2, 0, "&opt x y "), ("reqopt", 2, 1, "x &opt y ")):
        for nk in (1, 2, 3):
            for v, va in (("nil", "n"), ("7", "i7"), (":kv", "kkv"), ('"s"', None)):
                ks = []
                while len(ks) < nk:
                    c = names[r.below(len(names))]
                    if c not in ks:
                        ks.append(c)
                pos = [x for x in plist.replace("&opt", "").split()]
                cases.append((ar, mn, v, va, ks, "(fn [%s&named %s] [%s])" % (plist, " ".join(ks), " ".join(pos + ks))))
    src = NAMED_PRE + "\n".join("(t %d %s %s)" % (i, c[5], c[2]) for i, c in enumerate(cases)) + "\n"
    fd, path = tempfile.mkstemp(prefix="c05n-", suffix=".janet", dir="/var/tmp")
    with os.fdopen(fd, "w") as f:
        f.write(src)
    try:
        rc, out, err = run_cmd([janet, path], timeout=120, env=ENV)
    finally:
        os.unlink(path)
    impl = {}
    for l in out.decode(errors="replace").splitlines():
        p = l.split(" ")
        if p and p[0].isdigit() and len(p) >= 4:
            impl[int(p[0])] = p[1:]
    lines, idx = [], []
    for i, c in enumerate(cases):
        if i in impl and c[3] is not None:          # string payloads: compared for status only (no string atoms in the driver protocol)
            lines.append("named %d %d %s %s" % (c[0], c[1], c[3], impl[i][2] or "-"))
            idx.append(i)
    mo = ctx.model(lines, exe=exe)
    first = None
    for i, m in zip(idx, mo):
        cov["named_cases"] += 1
        st, res = impl[i][0], impl[i][1]
        want = ("dead " + m[3:]) if m.startswith("ok ") else ("error " + m[4:])
        if m.startswith("err "):
            cov["named_entry_errors"] += 1
        if st + " " + res != want:
            cov["named_diffs"] += 1
            first = first or (cases[i][5], cases[i][2], st + " " + res, want)
    for i, c in enumerate(cases):
        if c[3] is None and i in impl:
            cov["named_cases"] += 1
            want_err = c[0] == 0
            if (impl[i][0] == "error") != want_err:
                cov["named_diffs"] += 1
                first = first or (c[5], c[2], " ".join(impl[i][:2]), "error at entry" if want_err else "dead")
    if len(impl) != len(cases):
        broken.append("&named pass: implementation printed %d of %d cases (rc=%r): %s" % (len(impl), len(cases), rc, err.decode(errors="replace")[-200:]))
    if first:
        broken.append("&named first-resume correspondence model vs impl: %d of %d cases differ (first: %s resumed with %s: impl `%s`, model `%s`)"
                      % (cov["named_diffs"], cov["named_cases"], first[0], first[1], first[2], first[3]))
        ctx.broken.append(broken[-1])
    return cov


def sched_pass(ctx, exe, janet, n, broken):
    """(D'') correspondence of the event-loop entry (Fiber/Sched.lean loopEnter): the tree's root fiber is run as a TASK
    (`ev/go`), and after it stopped the loop re-schedules it (`ev/go`) or cancels it (`ev/cancel` = janet_cancel ->
    janet_continue_signal with JANET_SIGNAL_ERROR) a few times; traces, final status and last value of the task must
    equal the model's.  (E'') statuses forward + cleanup forms never run twice for one body fiber is covered by the
    equality with the model plus guard_r1 on the implementation trace."""
    cov = {"sched_trees": 0, "sched_diffs": 0, "sched_cancels": 0, "sched_resumes": 0}
    try:
        pre = prelude.prelude_sched(ctx.build.tree)
    except prelude.PreludeError as e:
        broken.append("sched prelude: %s" % e)
        return cov
    trees = []
    for i in range(n):
        r = ctx.rng.fork("stree%d" % i)
        g = gen.Gen(r, size=r.range(3, 18), maxdepth=r.range(2, 5))
        t, fl = g.tree()
        acts = []
        for j in range(r.below(4)):
            k = "c" if r.below(3) else "r"
            acts.append((k, ["n", "i%d" % (900 + j), "kcx"][r.below(3)]))
            cov["sched_cancels" if k == "c" else "sched_resumes"] += 1
        trees.append((t, fl, acts))
    lines = [gen.model_line_s(t, fl, acts) for t, fl, acts in trees]
    model_out = ctx.model(lines, exe=exe) if exe else None
    srcs = [gen.janet_tree_s(i, t, fl, acts) for i, (t, fl, acts) in enumerate(trees)]
    # a task that signals event / interrupt (user9 / user8) to the loop is the loop's business: such trees are not run
    skip = set(i for i in range(n) if model_out is not None and split_line(model_out[i])[1] in ("unmodelled", "hang"))
    cov["sched_skipped_loop_signal"] = len(skip)
    if model_out is None:
        return cov
    nb = 8 if n > 64 else 1

    def work(k):
        fd, path = tempfile.mkstemp(prefix="c05s-", suffix=".janet", dir="/var/tmp")
        with os.fdopen(fd, "w") as f:
            # tasks left suspended by a yield keep the event loop alive: leave explicitly
            f.write(pre + "\n" + "\n".join(x for i, x in list(enumerate(srcs))[k::nb] if i not in skip) + "\n(flush)\n(os/exit 0)\n")
        try:
            rc, out, err = run_cmd([janet, path], timeout=300, env=ENV)
        finally:
            os.unlink(path)
        res = {}
        for l in out.decode(errors="replace").splitlines():
            i, _, rest = l.partition(" ")
            if i.isdigit():
                res[int(i)] = rest
        return k, res, rc, err.decode(errors="replace")[-2000:]
    impl = {}
    with cf.ThreadPoolExecutor(8) as ex:
        for k, res, rc, err in ex.map(work, range(nb)):
            impl.update(res)
            if rc != 0 or len(res) != len([i for i in range(k, n, nb) if i not in skip]):
                missing = [i for i in range(k, n, nb) if i not in res and i not in skip]
                ctx.violation("sched-pass-crash", {"kind": "crash", "janet": srcs[missing[0]] if missing else "", "rc": rc, "stderr": err,
                                                   "prelude": "harness/C05/prelude.py prelude_sched"},
                              what="task pass: implementation crashed / sanitizer report on a fiber tree run as an event-loop task (rc=%r)" % rc)
    first_diff = None
    for i, (t, fl, acts) in enumerate(trees):
        if i not in impl:
            continue
        cov["sched_trees"] += 1
        msg = guard_r1(impl[i])
        if msg:
            ctx.violation("protocol:status_forward_sched", {"kind": "protocol", "rule": "status_forward", "janet": srcs[i], "impl_trace": impl[i],
                                                            "prelude": "harness/C05/prelude.py prelude_sched"},
                          what="a fiber's status moved backwards when the event loop re-entered / cancelled a task: " + msg)
        if model_out is None:
            continue
        mk = split_line(model_out[i])[1]
        if mk in ("unmodelled", "hang"):
            continue
        if mk != "done":
            broken.append("task pass: model driver rejected / got stuck on tree %d: %s" % (i, model_out[i][-200:]))
            continue
        if split_line(impl[i])[0] != split_line(model_out[i])[0]:
            cov["sched_diffs"] += 1
            if first_diff is None:
                first_diff = i
    if first_diff is not None:
        i = first_diff
        broken.append("event-loop entry correspondence (ev/go, ev/cancel on a task) model vs impl: %d of %d trees differ" % (cov["sched_diffs"], cov["sched_trees"]))
        ctx.broken.append(broken[-1])
        cov["sched_first_diff"] = {"janet": srcs[i], "model_line": lines[i], "impl": split_line(impl[i])[0], "model": split_line(model_out[i])[0]}
    return cov


def gsched_pass(ctx, exe, n, broken):
    """(D5) correspondence of the COMBINED machine (Fiber/GuardSched.lean runTG): the tree's root fiber is a task of the event
    loop (ev/go, then re-scheduled / cancelled by the loop) while vm.c runs with the recursion guard lowered to `lim` levels
    above the loop (harness/C05/guardmain.c; the loop dispatches at janet_vm.stackn = 0, so depths are absolute); every
    event carries janet_vm.stackn; traces, final status and last value of the task must equal the model's (`gstree`).
    Trees on which the model stops `unmodelled` (guard trip inside a suspended child chain, task signalling event /
    interrupt to the loop) are not run.  (E5) statuses forward on the implementation trace."""
    cov = {"gsched_trees": 0, "gsched_diffs": 0, "gsched_trips_impl": 0, "gsched_dispatches": 0, "gsched_skipped_unmodelled": 0, "gsched_limits": {}}
    if exe is None:
        return cov
    try:
        binp = ctx.build.harness("asan", "c05guard", [os.path.join(VERIF, "harness", "C05", "guardmain.c")])
        pre = prelude.prelude_gsched(ctx.build.tree)
    except (BuildError, prelude.PreludeError) as e:
        broken.append("guard+task harness: %s" % str(e)[-300:])
        ctx.broken.append(broken[-1])
        return cov
    trees = []
    for i in range(n):
        r = ctx.rng.fork("gstree%d" % i)
        g = gen.Gen(r, size=r.range(3, 18), maxdepth=r.range(2, 5), profile="driver" if r.chance(1, 2) else "uniform")
        t, fl = g.tree()
        acts = []
        for j in range(r.below(4)):
            k = "c" if r.below(3) else "r"
            acts.append((k, ["n", "i%d" % (900 + j), "kcx"][r.below(3)]))
        lim = [2, 3, 3, 4, 4, 5, 6, 8][r.below(8)]
        trees.append((t, fl, acts, lim))
        cov["gsched_dispatches"] += len(acts)
        cov["gsched_limits"][str(lim)] = cov["gsched_limits"].get(str(lim), 0) + 1
    lines = [gen.model_line_gs(t, fl, acts, lim) for t, fl, acts, lim in trees]
    model_out = ctx.model(lines, exe=exe)
    skip = set(i for i in range(n) if split_line(model_out[i])[1] in ("unmodelled", "hang"))
    cov["gsched_skipped_unmodelled"] = len(skip)
    srcs = [gen.janet_tree_gs(i, *trees[i]) for i in range(n)]
    nb = 8 if n > 64 else 1

    def work(k):
        ids = [i for i in range(k, n, nb) if i not in skip]
        fd, path = tempfile.mkstemp(prefix="c05gs-", suffix=".janet", dir="/var/tmp")
        with os.fdopen(fd, "w") as f:
            # ONE sequential top-level form: the guard is a global of the harness, and a form suspended in ev/sleep would
            # otherwise let janet_dobytes start the next one; leave explicitly (suspended tasks keep the loop alive)
            f.write(pre + "\n" + "\n".join(srcs[i] for i in ids) + "\n(do (each t_ [" + " ".join("t%d" % i for i in ids) + "] (t_)) (flush) (os/exit 0))\n")
        try:
            rc, out, err = run_cmd([binp, "1024", path], timeout=600, env=ENV)
        finally:
            os.unlink(path)
        res = {}
        for l in out.decode(errors="replace").splitlines():
            i, _, rest = l.partition(" ")
            if i.isdigit():
                res[int(i)] = rest
        return ids, res, rc, err.decode(errors="replace")[-2000:]
    impl = {}
    with cf.ThreadPoolExecutor(8) as ex:
        for ids, res, rc, err in ex.map(work, range(nb)):
            impl.update(res)
            if rc != 0 or len(res) != len(ids):
                missing = [i for i in ids if i not in res]
                ctx.violation("gsched-pass-crash", {"kind": "crash", "janet": srcs[missing[0]] if missing else "", "rc": rc, "stderr": err,
                                                    "prelude": "harness/C05/prelude.py prelude_gsched", "harness": "harness/C05/guardmain.c"},
                              what="guard+task pass: implementation crashed / sanitizer report on a fiber tree run as an event-loop task with a lowered recursion guard (rc=%r)" % rc)
    first_diff = None
    for i, (t, fl, acts, lim) in enumerate(trees):
        if i not in impl:
            continue
        cov["gsched_trees"] += 1
        if "C_stack_recursed_too_deeply" in impl[i]:
            cov["gsched_trips_impl"] += 1
        msg = guard_r1(impl[i], final_forced=(0,))
        if msg:
            ctx.violation("protocol:status_forward_gsched", {"kind": "protocol", "rule": "status_forward", "janet": srcs[i], "impl_trace": impl[i], "limit": lim,
                                                             "prelude": "harness/C05/prelude.py prelude_gsched", "harness": "harness/C05/guardmain.c"},
                          what="a fiber's status moved backwards in an execution with guard trips and event-loop dispatches: " + msg)
        if split_line(model_out[i])[1] != "done":
            broken.append("guard+task pass: model driver rejected / got stuck on tree %d: %s" % (i, model_out[i][-200:]))
            continue
        # registry slot 0 is a STAND-IN for the harness' own fiber in this pass (prelude.py run-tree-gs); a tree that gets hold of it
        # (`(propagate x (get G 0))` links it as a child, a later cancel walks into it) runs the stand-in, not the model's main
        # fiber: not comparable, counted
        if any(re.fullmatch(r"[0-9a-f]+/-?\d+", x) and x[0] != "d" for e in impl[i].split(" | ")[0].split(";") for x in [re.split(r"[ :]", e)[-1]]):
            cov["gsched_skipped_slot0_touched"] = cov.get("gsched_skipped_slot0_touched", 0) + 1
            continue
        if split_line(impl[i])[0] != split_line(model_out[i])[0]:
            cov["gsched_diffs"] += 1
            if first_diff is None:
                first_diff = i
    if first_diff is not None:
        i = first_diff
        broken.append("guard + event-loop correspondence (runTG / loopEnterG) model vs impl: %d of %d trees differ (first: limit %d)" % (cov["gsched_diffs"], cov["gsched_trees"], trees[i][3]))
        ctx.broken.append(broken[-1])
        cov["gsched_first_diff"] = {"janet": srcs[i], "model_line": lines[i], "impl": split_line(impl[i])[0], "model": split_line(model_out[i])[0]}
    return cov


def run(ctx, only=None):
    quick = ctx.tier == "quick"
    broken = []
    # (A)
    guard_after = True
    try:
        ctx.gen("Fiber.lean", gen_fiber.render(ctx.build.tree if ctx.build.boot() is None else ctx.build.tree))
        xf = gen_fiber.extract(ctx.build.tree)
        guard_after = xf["guard_after"]
        # flags of Gen/Fiber.lean that are PREMISES of theorems (the proofs `simp only [flag, if_true]`): name the flag and the
        # theorem when the current tree no longer has the shape, instead of leaving only a lake error in a lemma file
        for key, flag, what, thms in (
                ("chain_alive", "chainAliveMarked", "the chain-continuation branch of janet_continue_no_check no longer marks the fiber ALIVE before it continues its child",
                 "status_monotone (+ _from_init, _guarded, _guarded_sched), finished_is_forever, reachable_inv via Invariant.contNoCheck_res"),):
            if not xf.get(key):
                broken.append("translator flag %s = false: %s; premise of %s" % (flag, what, thms))
                ctx.broken.append(broken[-1])
                ctx.say(broken[-1])
        if not xf.get("walk_refuses_root"):
            ctx.say("translator flag cancelWalkRefusesRoot = false: janet_continue_signal's walk does not refuse a task of the event loop in the child chain "
                    "(finding 6, corpus/C05/cancel-chain-root-task.janet); cancel_root_chain_refused_unmarked holds vacuously on this tree")
    except ExtractError as e:
        broken.append("translator tools/gen/fiber.py: %s" % e)
        ctx.broken.append(broken[-1])
    except BuildError as e:
        ctx.violation("build-failed", {"kind": "build", "error": str(e)}, found=False, what="tree does not build")
        return ctx.finish("proof", {"evaluations": 0, "distinct_nontrivial": 0})
    # (B,C)
    broken += ctx.obligations("JanetModel.Props.C05", THEOREMS)
    if not quick:
        ok, log = ctx.leanchecker("JanetModel.Props.C05")
        if not ok:
            broken.append("leanchecker JanetModel.Props.C05: " + log[-300:])
    exe = ctx.driver()
    asan = ctx.try_variant("asan")
    if asan is None:
        return ctx.finish("proof", {"evaluations": 0, "distinct_nontrivial": 0})
    janet = asan["janet"]
    try:
        pre = prelude.prelude(ctx.build.tree)
    except prelude.PreludeError as e:
        broken.append("harness prelude (macros cut out of boot.janet): %s" % e)
        ctx.broken.append(broken[-1])
        pre = None
    # ---- trees: corpus first, then random
    trees = []
    names = {}
    if os.path.isdir(CORPUS):
        for fn in sorted(os.listdir(CORPUS)):
            if fn.endswith(".json"):
                with open(os.path.join(CORPUS, fn)) as f:
                    c = json.load(f)
                names[len(trees)] = fn
                trees.append((tup(c["tree"]), c.get("flags", "a")))
    ncorpus = len(trees)
    # two generator profiles (harness/C05/gen.py): "uniform" = every production / operand anywhere; "driver" = the same
    # productions weighted like a coroutine workload (create, then drive the same fiber repeatedly, bodies mostly suspend,
    # masks drawn bit by bit) - the second one reaches the multi-step transitions (re-resume after cancel, re-entry
    # through a suspended child chain, a signal raised after an absorbed cancel) that the first one hardly ever composes
    n = (2000 if quick else 25000) * (3 if broken else 1)
    nd = (3000 if quick else 25000) * (3 if broken else 1)
    opmix, opmix_d = {}, {}
    for i in range(n + nd):
        drv = i >= n
        g = gen.Gen(ctx.rng.fork("tree%d" % i), size=ctx.rng.range(3, 18), maxdepth=ctx.rng.range(2, 5), profile="driver" if drv else "uniform")
        t, fl = g.tree()
        trees.append((t, fl))
        for k, v in g.stats.items():
            (opmix_d if drv else opmix)[k] = (opmix_d if drv else opmix).get(k, 0) + v
    ctx.say("%d trees (%d corpus, %d uniform, %d driver profile)" % (len(trees), ncorpus, n, nd))
    lines = [gen.model_line(t, fl) for t, fl in trees]
    model_out = ctx.model(lines, exe=exe) if exe else None
    halts = {}
    runnable = []
    for i, (t, fl) in enumerate(trees):
        kind = split_line(model_out[i])[1] if model_out else "done"
        if kind == "bad" and "caller_is_not_blocked" in model_out[i]:
            # a descendant re-entered a fiber that is itself a live pass-through activation (two activations of one
            # fiber); the model keeps one continuation per fiber and does not cover this (notes/C05.md, limits)
            kind = "unmodelled_reentrant"
        halts[kind] = halts.get(kind, 0) + 1
        if kind in ("done", "unmodelled_reentrant") or model_out is None:
            runnable.append((i, t, fl))      # unmodelled_reentrant: no model trace to compare with, but the oracle still judges
        elif kind in ("bad", "running") or model_out[i].startswith("bad-op"):
            broken.append("model driver rejected / got stuck on tree %d: %s" % (i, model_out[i][-200:]))
    impl = {}
    SRC.clear()
    for i, (t, fl) in enumerate(trees):
        SRC[i] = gen.janet_tree(i, t, fl)
    diffs, crashes, oracle_bad, unconfirmed = [], [], [], []
    stats = {}
    if pre is not None:
        # trees on which the model predicts a hang are run alone, with a timeout
        for i, (t, fl) in enumerate(trees):
            if model_out and split_line(model_out[i])[1] == "hang":
                res, rc, err = run_janet(janet, pre, [(i, t, fl)], 10)
                if rc is None:
                    ctx.violation("cancel-cycle-hang", {"kind": "hang", "tree": names.get(i, i), "janet": gen.janet_tree(i, t, fl),
                                                        "prelude": "harness/C05/prelude.py", "model": model_out[i]},
                                  what="`cancel` never returns: janet_continue_signal walks a cyclic child chain forever (the canceller is on the chain)")
                else:
                    broken.append("model predicts a hang, implementation returned (tree %s)" % names.get(i, i))
        nb = 16 if len(runnable) > 64 else 1
        batches = [runnable[k::nb] for k in range(nb)]

        def work(b):
            return b, run_janet(janet, pre, b, 900)
        with cf.ThreadPoolExecutor(16) as ex:
            for b, (res, rc, err) in ex.map(work, [b for b in batches if b]):
                impl.update(res)
                if rc != 0 or len(res) != len(b):
                    # crash / sanitizer abort / hang: the first tree without output
                    missing = [x for x in b if x[0] not in res]
                    if missing:
                        crashes.append((missing[0], rc, err))
        for (i, t, fl), rc, err in crashes:
            # confirm alone
            res, rc2, err2 = run_janet(janet, pre, [(i, t, fl)], 30)
            if i in res and rc2 == 0:
                impl[i] = res[i]
                continue
            sig = "crash"
            if "heap-use-after-free" in err2 and "run_vm" in err2:
                sig = "binop-stale-stack-uaf"
            ctx.violation(sig, {"kind": "crash", "tree": names.get(i, i), "janet": gen.janet_tree(i, t, fl), "rc": rc2, "stderr": err2[-2500:],
                                "model_line": lines[i]},
                          what="implementation crashed / sanitizer report / timeout on a fiber tree (rc=%r): %s" % (rc2, err2.strip().splitlines()[1][:160] if len(err2.strip().splitlines()) > 1 else ""))
        # (D) diff and (E) oracle
        for i, t, fl in runnable:
            if i not in impl:
                continue
            info = gen.site_info(t)
            rfl, rsig, rv0 = gen.root_of(fl)
            if rsig != "none":
                gen.param_labels(t, rsig, info)
            info["root_v"] = "nil" if rv0 == "n" else rv0[1:]
            info["sigs"] = {k: v[:3] for k, v in gen.SIGS.items()}
            bad = oracle.check(impl[i], info, stats)
            same = True
            if model_out is not None and split_line(model_out[i])[1] == "done":
                a, _ = split_line(impl[i])
                b, _ = split_line(model_out[i])
                if a != b:
                    diffs.append(i)
                    same = False
            if bad:
                oracle_bad.append((i, bad))
    gcov = guard_pass(ctx, exe, guard_after, (600 if quick else 6000) * (3 if broken else 1), broken) if pre is not None else {}
    ctx.say("guard pass %r" % {k: v for k, v in gcov.items() if k != "guard_first_diff"})
    scov = sched_pass(ctx, exe, janet, (600 if quick else 6000) * (3 if broken else 1), broken) if pre is not None else {}
    ctx.say("task pass %r" % {k: v for k, v in scov.items() if k != "sched_first_diff"})
    gscov = gsched_pass(ctx, exe, (400 if quick else 4000) * (3 if broken else 1), broken) if pre is not None else {}
    ctx.say("guard+task pass %r" % {k: v for k, v in gscov.items() if k != "gsched_first_diff"})
    ncov = named_pass(ctx, exe, janet, broken) if pre is not None else {}
    ctx.say("&named pass %r" % ncov)
    # raw janet scenarios (regressions of past findings), run under ASan
    scen = 0
    if os.path.isdir(CORPUS):
        for fn in sorted(os.listdir(CORPUS)):
            if fn.endswith(".janet"):
                scen += 1
                rc, out, err = run_cmd([janet, os.path.join(CORPUS, fn)], timeout=60, env=ENV)
                o = out.decode(errors="replace").strip()
                if rc != 0 or not o.endswith("ok"):
                    with open(os.path.join(CORPUS, fn)) as f:
                        src = f.read()
                    ctx.violation(fn[:-6], {"kind": "scenario", "file": fn, "janet": src, "rc": rc, "stdout": o[-500:], "stderr": err.decode(errors="replace")[-2500:]},
                                  what="scenario %s failed on the implementation (rc=%r, stdout %r)" % (fn, rc, o[-80:]))
    for i, bad in oracle_bad[:5]:
        t, fl = trees[i]
        sig = "protocol:" + bad[0][0]
        if str(names.get(i, "")).startswith("ancestor-reentry"):
            sig = "ancestor-reentry-premature-cleanup"
        ctx.violation(sig, {"kind": "protocol", "rule": bad[0][0], "violations": bad[:10], "janet": gen.janet_tree(i, t, fl),
                                               "model_line": lines[i], "impl_trace": impl[i], "tree": names.get(i, i)},
                      what="protocol statement `%s` fails on the implementation: %s" % bad[0])
    if diffs:
        i = diffs[0]
        broken.append("correspondence model/impl: %d of %d trees differ (first: tree %s)" % (len(diffs), len(runnable), names.get(i, i)))
        ctx.broken.append(broken[-1])
    if broken and not ctx.nviol:
        rep = {"kind": "broken-obligation", "broken": broken}
        if gcov.get("guard_first_diff"):
            rep.update(gcov["guard_first_diff"])
        elif scov.get("sched_first_diff"):
            rep.update(scov["sched_first_diff"])
        elif gscov.get("gsched_first_diff"):
            rep.update(gscov["gsched_first_diff"])
        if diffs:
            i = diffs[0]
            t, fl = trees[i]
            rep.update({"janet": gen.janet_tree(i, t, fl), "model_line": lines[i], "impl": split_line(impl[i])[0], "model": split_line(model_out[i])[0]})
        ctx.violation("broken:" + broken[0][:80], rep, found=False, what="no longer shown to hold: " + "; ".join(broken)[:700])
    nev = sum(l.count(";") + 1 for l in impl.values())
    # input distribution actually EXECUTED (not just generated): share of a tree's labelled instructions that ran, and how the
    # tree's root ended, per profile
    exec_frac = {}
    for prof, lo, hi in (("uniform", ncorpus, ncorpus + n), ("driver", ncorpus + n, ncorpus + n + nd)):
        fr, ends, cnt = 0.0, {}, 0
        for i in range(lo, hi):
            if i not in impl:
                continue
            body, _, fin = impl[i].partition(" | ")
            labs = set(e.split(":")[0] for e in body.split(";") if e and not e.startswith("@"))
            fr += len(labs) / max(1, len(gen.site_info(trees[i][0])["op"]))
            k = (fin.split(" ") + ["?", "?"])[1]
            ends[k] = ends.get(k, 0) + 1
            cnt += 1
        exec_frac[prof] = {"trees": cnt, "mean_fraction_of_labels_executed": round(fr / max(1, cnt), 3), "root_final_signal": ends}
    samples = [gen.janet_tree(i, t, fl)[:400] for i, t, fl in runnable[ncorpus:ncorpus + 2]]
    cov = {
        "evaluations": len(impl),
        "distinct_nontrivial": len(set(lines)),
        "rule": "one evaluation = one generated fiber tree executed by the ASan build and by the model, full traces compared; "
                "non-trivial = distinct tree (every tree has >= 1 fiber switch); oracle statistics count individual protocol checks",
        "samples": samples,
        "trees": len(trees), "corpus_trees": ncorpus, "raw_scenarios": scen, "trace_entries": nev,
        "model_halt_kinds": halts, "correspondence_diffs": len(diffs), "crashes": len(crashes),
        "guard_pass": {k: v for k, v in gcov.items() if k != "guard_first_diff"},
        "task_pass": {k: v for k, v in scov.items() if k != "sched_first_diff"},
        "guard_task_pass": {k: v for k, v in gscov.items() if k != "gsched_first_diff"},
        "named_pass": ncov,
        "oracle_violations": len(oracle_bad), "oracle_adjacency_hits_model_agrees": [(i, b[1][:200]) for i, b in unconfirmed[:10]], "oracle_checks": stats, "generator_op_mix": opmix, "generator_op_mix_driver_profile": opmix_d,
        "trees_uniform_profile": n, "trees_driver_profile": nd, "executed_label_fraction": exec_frac,
    }
    ctx.say("halts %r diffs %d oracle_bad %d stats %r" % (halts, len(diffs), len(oracle_bad), stats))
    return ctx.finish("proof", cov, assumptions=[
        "theorems are about the Lean models (Fiber/Model.lean, Boot.lean, Guard.lean, Sched.lean, Named.lean); the models are tied to the C by the regenerated "
        "constants / shape flags and by five trace correspondences (plain, lowered recursion guard with janet_vm.stackn, event-loop task, both at once, &named)",
        "not modelled: breakpoints / single-stepping; a recursion-guard trip INSIDE a suspended child chain (`unmodelled`, 0 trees in the thorough tier); what the event "
        "loop does with a task's result (supervisor channel, stack trace) and tasks that signal event / interrupt to the loop (skipped, counted)",
        "whole-execution status monotonicity AND the cleanup (`exactly once`) theorems are proved for the guarded machine at any limit, for event-loop "
        "schedules, and (session 4) for executions that interleave both (`runTG`, tied by the guard+task correspondence pass)",
        "dynamic bindings: a fiber's env index never changes once set is a conjunct of the whole-execution step relation (`denv_never_reassigned`); oracle R6 "
        "still checks every dyn read against an independent table model",
        "cleanup `exactly once` is about exits of the body fiber; a body suspended for ever has not exited; `Priv` (gensym privacy) is a hypothesis"])


def replay(ctx, path):
    with open(path) as f:
        r = json.load(f)
    print(json.dumps({k: (v if not isinstance(v, str) else v[:1500]) for k, v in r.items()}, indent=1)[:6000])
    src = r.get("janet")
    if src and r.get("kind") in ("hang", "crash", "protocol", "broken-obligation"):
        asan = ctx.try_variant("asan")
        cmd = [asan["janet"]]
        if "run-tree-gs" in src:        # guard + task pass: one sequential form under the event loop, lowered guard
            pre = prelude.prelude_gsched(ctx.build.tree) + "\n"
            cmd = [ctx.build.harness("asan", "c05guard", [os.path.join(VERIF, "harness", "C05", "guardmain.c")]), "1024"]
            mm = re.match(r"\(defn (t\d+) ", src)
            src += "\n(do (%s) (flush) (os/exit 0))" % (mm.group(1) if mm else "t0")
        elif "run-tree-g" in src:       # guard pass: vm.c wrapper with the lowered guard + janet_vm.stackn readout
            pre = prelude.prelude_guard(ctx.build.tree) + "\n"
            cmd = [ctx.build.harness("asan", "c05guard", [os.path.join(VERIF, "harness", "C05", "guardmain.c")]), "1024"]
        elif "run-tree-s" in src:       # task pass
            pre = prelude.prelude_sched(ctx.build.tree) + "\n"
            src += "\n(flush)\n(os/exit 0)"
        else:
            pre = prelude.prelude(ctx.build.tree) + "\n" if "run-tree" in src else ""
        fd, p = tempfile.mkstemp(prefix="c05-replay-", suffix=".janet", dir="/var/tmp")
        with os.fdopen(fd, "w") as f:
            f.write(pre + src + "\n")
        rc, out, err = run_cmd(cmd + [p], timeout=60, env=ENV)
        os.unlink(p)
        print("replay on the implementation: rc=%r\nstdout: %s\nstderr: %s" % (rc, out.decode(errors="replace")[-1500:], err.decode(errors="replace")[-1500:]))
    return run(ctx)
