"""C16 - stream and subprocess I/O delivers every byte once, in order.

(A) tools/gen/stream.py regenerates Gen/Stream.lean from src/core/ev.c (slot guards of janet_async_start_fiber, chunk read
    limit, EPOLLOUT registration of datagram servers; shape assertions on the statements the model mirrors)
(B,C) Props/C16 (all event / kernel-answer sequences) + Stream/Current (full theorem as obligation over the current source)
(D) correspondence: every read/write/send/recv/sendto/recvfrom of the implementation is intercepted in-process
    (harness/C16/evwrap.c, seeded partial transfers / EAGAIN / EINTR), logged with the StateRead/StateWrite fields, and the
    per-operation call sequence (offset, length, bytes) + outcome is compared with the Lean model driven by the same answers
(E) direct oracle (harness/C16/scen.py): bytes received == bytes written per direction, chunk / nil / close rules, every op
    completes or raises (logical deadlock detection in the interposed epoll_wait), exit statuses and redirected I/O.
"""
import concurrent.futures as cf
import json
import os
import re
import shutil
import sys
import tempfile

from vlib.core import run_cmd, VERIF
from vlib.build import BuildError
from tools.gen import stream as gen_stream
from tools.gen import procstat as gen_procstat
from tools.gen import net as gen_net
from tools.gen import dispatch as gen_dispatch
from tools.gen.csrc import ExtractError

sys.path.insert(0, os.path.join(VERIF, "harness", "C16"))
import scen  # noqa: E402
import plumb  # noqa: E402
import netcorr  # noqa: E402
import wordcorr  # noqa: E402

THEOREMS = ["JanetModel.Props.C16." + t for t in (
    "write_delivers_all_in_order", "sendto_delivers_prefix", "read_at_most_n", "chunk_exact_unless_eof",
    "read_returns_nil_at_eof", "nil_consumes_nothing", "close_wakes_pending_op", "close_wakes_pending",
    "every_op_completes_or_errors", "every_op_completes_or_errors_partial", "second_reader_orphans_first",
    "second_writer_orphans_first",
    # session 3: subprocess exit status (bit-level decoder of proc_get_status)
    "exit_status_exact", "exit_status_injective", "stop_and_continue_words", "merged_or_unshifted_arm_is_wrong",
    # session 3: descriptor plumbing of os/spawn / os/execute, life cycle of the process value
    "child_stdio_exact", "spawn_child_stdio_exact", "exFresh", "std_source_unmoved_loses_descriptor", "wait_once", "first_wait_suspends", "reaped_status_recorded",
    "close_closes_owned_once",
    # session 3: liveness under an explicit fairness hypothesis
    "op_ends_within_fair_events", "every_op_completes_under_fairness", "recvfrom_one_message_per_call",
    # session 4: socket callbacks of net.c (connect / accept / accept-loop), datagram send, :all
    "connect_ends_exactly_at_first_nonquiet_event", "connect_unaffected_by_gc", "connect_completes_during_gc",
    "accept_delivers_every_connection_once", "accept_unaffected_by_gc", "accept_loop_conserves", "accept_loop_serves_every_connection",
    "accept_loop_edge_triggered_strands", "accept_waiting_has_edge", "accept_without_init_try_strands",
    "sendto_one_datagram_per_call", "read_all_returns_everything_before_eof", "connect_call_exact",
    # session 4: operations composed with the slot registry (one stream, many fibers), system-level liveness under fairness
    "shared_stream_isolation", "shared_stream_invariant", "concurrent_writer_refused", "shared_stream_write_delivers_in_order",
    "shared_stream_write_terminates_under_fairness", "shared_stream_read_in_order", "shared_stream_read_terminates_under_fairness",
    "shared_stream_close_wakes_all", "shared_stream_refines_registry",
    # session 4 (second pass): readiness dispatch of janet_loop1_impl, epoll event WORDS composed with the read / write machines
    "read_words_refine_events", "read_words_at_most_n", "readable_byte_never_dropped", "nil_at_readable_word_only_after_reading",
    "err_first_drops_readable_bytes", "write_words_refine_events", "write_words_deliver_all_in_order", "accepted_write_completes")]
DISPATCH_CURRENT = ["JanetModel.Stream.DispatchCurrent." + t for t in (
    "current_dispatch_complete", "current_dispatch_data_first", "current_dispatch_out_first", "current_dispatch_conditions_reach_both",
    "current_dispatch_nothing_spurious", "current_read_case_groups", "current_write_case_groups",
    "readable_byte_never_dropped_current", "accepted_write_completes_current")]
NET_CURRENT = ["JanetModel.Stream.NetCurrent." + t for t in (
    "current_source_event_codes", "current_source_connect_quiet_on_gc", "current_source_connect_checks_on_readiness",
    "connect_unaffected_by_gc_current", "current_source_accept_groups", "current_source_accept_loop_level_triggered")]
NETDRIVE_CASES = {"quick": 30000, "thorough": 600000}
WORDDRIVE_CASES = {"quick": 30000, "thorough": 600000}
PROC_CURRENT = ["JanetModel.Proc.Current." + t for t in (
    "current_source_waitpid_options", "exit_status_exact_current", "current_source_moves_std_sources")]
# all 2^16 status words (kernel evaluation in eight ranges, ~40 s CPU each when cold): thorough tier, and quick tier when already built
PROC_ALL = ["JanetModel.Proc.CurrentAll." + t for t in ("status_decoder_total_current", "exit_and_signal_words_total")]
PLUMB_CASES = {"quick": 160, "thorough": 2400}
CURRENT = ["JanetModel.Stream.Current." + t for t in (
    "current_source_guards_read_slot", "current_source_guards_write_slot", "current_source_registers_dgram_for_write",
    "every_op_completes_or_errors_current")]
WRAP = "-Wl," + ",".join("--wrap=" + s for s in ("read write send recv sendto recvfrom epoll_ctl epoll_wait waitpid pipe close dup fcntl fcntl64 posix_spawn posix_spawnp "
                                                "posix_spawn_file_actions_adddup2 posix_spawn_file_actions_addclose getsockopt accept4 connect").split())
QUOTA = {"quick": {"errinj": 30, "stream": 110, "shared-seq": 40, "close": 60, "contend": 24, "dgram": 36, "proc": 30},
         "thorough": {"errinj": 300, "stream": 1500, "shared-seq": 500, "close": 600, "contend": 200, "dgram": 400, "proc": 300}}


# ------------------------------------------------------------------------------------------------ correspondence
def ops_from_trace(trace):
    """-> list of {fiber, kind, dir, n, name, idx, status, calls:[{...}]}: syscalls grouped by the op markers of lib.janet"""
    cur = {}
    ops = []
    for line in trace.splitlines():
        if line.startswith("N "):
            t = line.split()
            if len(t) < 3 or "=" not in t[1]:
                continue
            fib = t[1].split("=")[1]
            if t[2] == "op" and len(t) < 9:
                continue
            if len(t) > 3 and t[2] == "op":
                # N fiber=k op sid=s <kind> <dir> <n> <name> <idx>
                cur[fib] = {"fiber": fib, "sid": t[3], "kind": t[4], "dir": t[5], "n": t[6], "name": t[7], "idx": t[8], "calls": [], "status": None}
            elif len(t) > 2 and t[2] == "end" and fib in cur:
                cur[fib]["status"] = t[5] if len(t) > 5 else "?"
                ops.append(cur.pop(fib))
        elif line.startswith("S "):
            kv = dict(x.split("=", 1) for x in line.split()[3:] if "=" in x)
            if len(line.split()) < 3 or not all(k in kv for k in ("ret", "errno", "asked", "req")):
                continue   # truncated line (process killed while writing the trace)
            call = line.split()[2]
            fib = kv.get("fiber")
            o = cur.get(fib)
            if o is None:
                continue
            isw = call in ("write", "send", "sendto")
            if isw != (o["dir"] == "w"):
                continue
            kv["call"] = call
            o["calls"].append(kv)
    return ops + list(cur.values())


MAXCALLS = 4000   # longer operation logs are compared on this prefix only (the model driver recurses per call)


def model_line(o):
    try:
        return model_line_inner(o)
    except (KeyError, ValueError, IndexError) as e:
        return "MISMATCH operation log of %s[%s] cannot be interpreted (%s: %s)" % (o.get("name"), o.get("idx"), type(e).__name__, e), None


def model_line_inner(o):
    """protocol line for the model + the implementation's (off,len,got) triples"""
    if len(o["calls"]) > MAXCALLS:
        o["calls"] = o["calls"][:MAXCALLS]
        o["truncated"] = True
    ans = []
    impl = []
    for c in o["calls"]:
        ret, en, asked = int(c["ret"]), int(c["errno"]), int(c["asked"])
        if ret >= 0:
            ans.append("b%d" % ret)
        elif en == 11:
            ans.append("a")
        elif en == 4:
            ans.append("i")
        else:
            ans.append("e%d" % en)
    if o["dir"] == "w":
        if not o["calls"]:
            return None, None
        c0 = o["calls"][0]
        if "w.len" not in c0:
            return None, None
        for c in o["calls"]:
            impl.append("%s:%s:%d" % (c["w.off"], c["req"], max(0, int(c["ret"]))))
            if c["w.off"] != c["w.start"]:
                return "MISMATCH state->start=%s but pointer offset %s" % (c["w.start"], c["w.off"]), None
        return "W %s %d %s" % (c0["w.len"], 1 if c0["w.mode"] == "2" else 0, " ".join(ans)), impl
    if not o["calls"] or "r.left" not in o["calls"][0]:
        return None, None
    c0 = o["calls"][0]
    n = int(c0["r.left"]) + int(c0["r.read"])
    base = int(c0["r.count"]) - int(c0["r.read"]) if c0["r.mode"] != "2" or True else int(c0["r.count"])
    inclen = sum(max(0, int(c["ret"])) for c in o["calls"])
    # the model carries the byte lists themselves (`got ++ take k inc` per call): cost ~ calls x bytes.  Operations beyond the
    # budget are not replayed through the driver (counted in the evidence); their bytes are still judged by the direct oracle.
    if len(o["calls"]) * inclen > 30000000:
        return "SKIP", None
    for c in o["calls"]:
        impl.append("%s:%s:%d" % (c["r.off"], c["req"], max(0, int(c["ret"]))))
    return "R %d %s %d %d %d %s" % (n, c0["r.chunk"], 1 if c0["r.mode"] == "2" else 0, base, inclen, " ".join(ans)), impl


def prepare_corr(tag, trace, eops):
    """(runs in the worker) -> list of (model line | MISMATCH text, scenario tag, op description, impl triples, janet-level status)"""
    out = []
    byname = {(o["fiber"], o["idx"]): o for o in eops}
    for o in ops_from_trace(trace):
        ml, impl = model_line(o)
        if ml is None:
            continue
        if ml == "SKIP":
            out.append(("SKIP", tag, {"name": o["name"], "idx": o["idx"], "kind": o["kind"]}, None, None))
            continue
        e = byname.get((o["name"], o["idx"]))
        out.append((ml, tag, {"name": o["name"], "idx": o["idx"], "kind": o["kind"]}, impl,
                    e["status"] if e and not o.get("truncated") else None))
    return out


def registry_lines(tag, trace, eops):
    """per stream end: the order of operation starts / ends / closes as the trace shows it -> [(model line, tag, sid, [(fiber, impl refused?)])]
    for the `S` command of jm_c16 (listener-slot registry, World.runCurrent).  The `end` marker is written when the fiber runs
    again, i.e. possibly later than janet_async_end: the trace OVER-approximates who is still registered, so only
    `the model has the direction free and the implementation refused` is a difference."""
    why = {(o["fiber"], o["idx"]): (o.get("status") or "") for o in eops}
    per, cur = {}, {}
    for line in trace.splitlines():
        if not line.startswith("N "):
            continue
        t = line.split()
        if len(t) < 3 or "=" not in t[1]:
            continue
        fib = t[1].split("=")[1]
        if t[2] == "op" and len(t) >= 9 and t[5] in ("r", "w"):
            sid = t[3].split("=")[1]
            cur[fib] = (sid, t[7], t[8])
            per.setdefault(sid, []).append(("s%s:%s" % (fib, t[5]), fib, t[7], t[8]))
        elif t[2] == "end" and fib in cur:
            sid, name, idx = cur.pop(fib)
            per.setdefault(sid, []).append(("e%s" % fib, fib, name, idx))
        elif t[2] == "close" and len(t) > 3 and t[3].startswith("sid="):
            per.setdefault(t[3].split("=")[1], []).append(("c", fib, None, None))
    out = []
    for sid, acts in per.items():
        if sid == "-1" or len(acts) > 3000:
            continue
        starts = [(a[1], "cannot listen for duplicate event" in why.get((a[2], a[3]), "")) for a in acts if a[0].startswith("s")]
        out.append(("S " + " ".join(a[0] for a in acts), tag, sid, starts))
    return out


def registry_correspond(ctx, exe, reg):
    """-> (streams compared, diffs, token histogram)"""
    if not exe or not reg:
        return 0, [], {}
    outs = ctx.model([r[0] for r in reg], exe=exe)
    diffs, hist = [], {}
    for (line, tag, sid, starts), mo in zip(reg, outs):
        toks = mo.split()
        acts = line.split()[1:]
        if len(toks) != len(acts):
            diffs.append({"scenario": tag, "stream": sid, "why": "model driver output does not match the acts: %r" % mo[:200]})
            continue
        k = 0
        for a, m in zip(acts, toks):
            hist[m] = hist.get(m, 0) + 1
            if a.startswith("s"):
                fib, refused = starts[k]
                k += 1
                if m == "A" and refused:
                    diffs.append({"scenario": tag, "stream": sid, "acts": line[:300], "model": mo[:300],
                                  "why": "fiber %s was refused (duplicate listener) although no other fiber is registered in that direction" % fib})
                    break
                if m in ("?", "parse-error"):
                    diffs.append({"scenario": tag, "stream": sid, "acts": line[:300], "model": mo[:300],
                                  "why": "fiber %s starts an operation while the registry says it still waits on this stream" % fib})
                    break
            elif m == "X":
                diffs.append({"scenario": tag, "stream": sid, "acts": line[:300], "model": mo[:300],
                              "why": "an operation ended whose fiber the model has waiting but NOT registered in its slot (orphan)"})
                break
    return len(reg), diffs, hist


def run_model(ctx, exe, lines, budget_s):
    """run the driver in batches within a time budget; a batch on which it CRASHES is bisected to the offending lines.
    Returns (outputs, None for lines not processed; indices of the lines the driver crashed on).  Never raises."""
    import subprocess
    import time
    out = [None] * len(lines)
    crashed = []
    deadline = time.time() + budget_s

    def go(lo, hi):
        left = deadline - time.time()
        if left <= 1:
            return True            # out of budget: leave as not compared
        data = ("\n".join(lines[lo:hi]) + "\n").encode()
        try:
            r = subprocess.run([exe], input=data, stdout=subprocess.PIPE, stderr=subprocess.PIPE, timeout=left)
            got = r.stdout.decode(errors="replace").splitlines()
            if r.returncode == 0 and len(got) == hi - lo:
                out[lo:hi] = got
                return True
            return False
        except subprocess.TimeoutExpired:
            return True            # budget exhausted inside this batch: not compared
        except OSError:
            return False
    B = 1000
    for lo in range(0, len(lines), B):
        hi = min(len(lines), lo + B)
        if go(lo, hi):
            continue
        # bisect down to the offending lines
        todo = [(lo, hi)]
        while todo:
            a, b = todo.pop()
            if go(a, b):
                continue
            if b - a == 1:
                crashed.append(a)
            else:
                mid = (a + b) // 2
                todo += [(a, mid), (mid, b)]
    return out, sorted(crashed)


def correspond(ctx, exe, corr):
    """compare the per-operation call sequences and outcomes of the implementation with the model"""
    lines, meta = [], []
    state_mismatch = []
    nskip = 0
    for ml, tag, o, impl, status in corr:
        if ml == "SKIP":
            nskip += 1
            continue
        if ml.startswith("MISMATCH"):
            state_mismatch.append({"scenario": tag, "op": "%s[%s]" % (o["name"], o["idx"]), "what": ml})
            continue
        lines.append(ml)
        meta.append((tag, o, impl, status))
    if not lines or not exe:
        return 0, [], state_mismatch, {"skipped_cost": nskip}
    out, crashed = run_model(ctx, exe, lines, 150 if ctx.tier == "quick" else 1200)
    diffs = [{"scenario": meta[i][0], "op": "%s[%s] %s" % (meta[i][1]["name"], meta[i][1]["idx"], meta[i][1]["kind"]),
              "line": lines[i][:300], "model": "", "why": "the model driver does not accept this operation log (%d answers)" % (len(lines[i].split()) - 3)}
             for i in crashed]
    kinds = {"skipped_cost": nskip, "not_compared_time_budget": sum(1 for x in out if x is None) - len(crashed)}
    for ml, mo, (tag, o, impl, status) in zip(lines, out, meta):
        if mo is None:
            continue
        m = re.match(r"res=(\S+) (?:start|read)=(\d+)(?: left=(\d+) got=(\d+))? calls=(.*)$", mo)
        if not m:
            diffs.append({"scenario": tag, "line": ml, "model": mo, "why": "unparsable"})
            continue
        res, calls = m.group(1), [c for c in m.group(5).split(",") if c]
        kinds[res] = kinds.get(res, 0) + 1
        why = None
        if calls != impl:
            why = "syscall argument sequence differs: impl %s model %s" % (impl[:8], calls[:8])
        elif status is not None:
            # outcome: model done <-> impl ok; model failed:sys* <-> impl err; nil <-> 'ok nil'; buf <-> 'ok buf <got>'
            if res == "done" and not status.startswith("ok"):
                why = "model: write completes, impl: %s" % status
            elif res.startswith("failed") and not status.startswith("err"):
                why = "model: operation raises, impl: %s" % status
            elif res == "nil" and status != "ok nil":
                why = "model: nil, impl: %s" % status
            elif res.startswith("buf") and o["kind"] != "recvfrom" and status != "ok buf %s" % m.group(4):
                why = "model: buffer of %s bytes, impl: %s" % (m.group(4), status)
            elif res == "starved":
                why = "model wants another syscall, impl stopped (%s)" % status
            elif res == "pending" and status.startswith("ok buf"):
                why = "model: still pending, impl returned %s" % status
        if why:
            diffs.append({"scenario": tag, "op": "%s[%s] %s" % (o["name"], o["idx"], o["kind"]), "line": ml[:300], "model": mo[:300], "why": why})
    return sum(1 for x in out if x is not None), diffs, state_mismatch, kinds


# ------------------------------------------------------------------------------------------------ descriptor plumbing
def run_plumb(ctx, exe, drv, batches):
    """batches of plumbing cases -> (cases run, [(sig, desc, case)], model differences, statistics)"""
    def one(cases):
        try:
            return cases, plumb.run_cases(cases, exe)
        except Exception as e:   # noqa: BLE001
            return cases, {"rc": None, "cases": {}, "stderr_tail": "%s: %s" % (type(e).__name__, e), "stdout_tail": ""}
    with cf.ThreadPoolExecutor(_jobs()) as ex:
        done = list(ex.map(one, batches))
    fails, lines, meta = [], [], []
    stats = {"cases": 0, "os_spawn": 0, "os_execute": 0, "injected_spawn_failure": 0, "injected_pipe_failure": 0, "redirection_kinds": {},
             "syscalls_compared": 0, "child_tables_compared": 0, "std_descriptor_sources": 0}
    for cases, res in done:
        if res.get("rc") != 0:
            fails.append(("plumb:script", "plumb.janet did not finish: rc=%s %s" % (res.get("rc"), res.get("stderr_tail", "")[-300:]), cases[0] if cases else None))
        for c in cases:
            r = res["cases"].get(c["id"], {})
            stats["cases"] += 1
            stats["os_spawn" if c["spawn"] else "os_execute"] += 1
            if c.get("fail") == "spawn":
                stats["injected_spawn_failure"] += 1
            elif c.get("fail") is not None:
                stats["injected_pipe_failure"] += 1
            for sp in (c["in"], c["out"], c["err"]):
                k = sp if isinstance(sp, str) else sp[0]
                stats["redirection_kinds"][k] = stats["redirection_kinds"].get(k, 0) + 1
                if k in plumb.STD:
                    stats["std_descriptor_sources"] += 1
            try:
                for sig, desc in plumb.oracle(c, r):
                    fails.append((sig, desc, c))
                ml, toks = plumb.model_line(c, r)
            except Exception as e:   # noqa: BLE001
                fails.append(("plumb:uninterpretable", "case output cannot be interpreted: %s: %s" % (type(e).__name__, e), c))
                continue
            if ml:
                lines.append(ml)
                meta.append((c, r, toks))
    diffs = []
    if drv and lines:
        try:
            mo = ctx.model(lines, exe=drv)
        except Exception as e:   # noqa: BLE001
            mo = []
            diffs.append({"why": "model driver failed on the plumbing lines: %s" % e})
        for (c, r, toks), line, ml in zip(meta, mo, lines):
            stats["syscalls_compared"] += len(toks)
            stats["child_tables_compared"] += 1 if "child" in r else 0
            try:
                d = plumb.compare_model(c, r, line, toks)
            except Exception as e:   # noqa: BLE001
                d = ["comparison failed: %s: %s" % (type(e).__name__, e)]
            if d:
                diffs.append({"case": plumb.jdn_case(c), "line": ml[:300], "model": line[:400], "why": d[0][:500]})
    return stats["cases"], fails, diffs, stats


# ------------------------------------------------------------------------------------------------ life cycle of the process value
def gen_life(rng, n):
    seqs = []
    for k in range(n):
        pre = [rng.choice(["w", "c", "x", "w", "c"]) for _ in range(rng.below(4))]
        post = [rng.choice(["w", "c"]) for _ in range(rng.below(4))]
        if not pre and not post:
            post = ["w"]
        seqs.append({"id": k, "code": rng.choice([0, 1, 7, 42, 255]), "ops": pre + ["R"] + post})
    return seqs


def run_life(ctx, exe, drv, seqs):
    """op sequences on real process values (harness/C16/life.janet) vs ProcSt (`L` command) + direct expectations
    -> (n, [(sig, desc, seq)], diffs, op histogram)"""
    d = tempfile.mkdtemp(prefix="c16l-", dir="/var/tmp")
    fails, diffs, hist = [], [], {}
    try:
        with open(os.path.join(d, "seqs.jdn"), "w") as f:
            f.write("[" + "\n ".join("{:id %d :code %d :ops [%s]}" % (q["id"], q["code"], " ".join(":" + o for o in q["ops"])) for q in seqs) + "]\n")
        env = dict(os.environ, ASAN_OPTIONS="detect_leaks=0", C16_BACKSTOP_MS="60000")
        rc, out, err = run_cmd([exe, os.path.join(VERIF, "harness/C16/life.janet"), d, os.path.join(d, "seqs.jdn")], timeout=600, env=env, cwd=d)
        text = out.decode(errors="replace")
        got = {}
        for m in re.finditer(r"^LF (\d+) (.*)$", text, re.M):
            got[int(m.group(1))] = m.group(2).strip()
        if rc != 0 or "DONE" not in text:
            fails.append(("proc-life:script", "life.janet did not finish: rc=%s %s" % (rc, err.decode(errors="replace")[-300:]), None))
        mo = ctx.model(["L %d %s" % (q["code"], " ".join(q["ops"])) for q in seqs], exe=drv) if drv else []
        for q, line in zip(seqs, mo or [None] * len(seqs)):
            g = got.get(q["id"])
            for o in q["ops"]:
                hist[o] = hist.get(o, 0) + 1
            what = "ops %s, child exits %d" % (" ".join(q["ops"]), q["code"])
            if g is None:
                fails.append(("proc-life:no-result", "process life cycle %s: no result line" % what, q))
                continue
            toks = g.split()
            res, tail = [t for t in toks if "=" not in t], dict(t.split("=", 1) for t in toks if "=" in t)
            if "pending" in res:
                fails.append(("proc-life:op-never-completes", "process life cycle %s: an os/proc-wait / os/proc-close never completed although the child "
                              "exited: %s" % (what, g), q))
            bad = [t for t in res if t not in ("err", "nil", "cancelled", "pending", "val:%d" % q["code"])]
            if bad:
                fails.append(("exit-status:proc-life", "process life cycle %s: results %s (expected val:%d / err / nil / cancelled)" % (what, g, q["code"]), q))
            if sum(1 for t in res if t.startswith("val:")) > 1:
                fails.append(("proc-life:status-delivered-twice", "process life cycle %s: more than one operation received the status: %s" % (what, g), q))
            if any(t in ("pending", "cancelled") or t.startswith("val:") for t in res) and tail.get("rc") != str(q["code"]):
                fails.append(("exit-status:return-code", "process life cycle %s: (proc :return-code) is %s after the child was reaped: %s" % (what, tail.get("rc"), g), q))
            if line is not None and line.strip() != g:
                diffs.append({"seq": what, "impl": g, "model": line.strip(), "why": "life cycle of the process value: implementation and ProcSt model differ"})
        return len(seqs), fails, diffs, hist
    finally:
        shutil.rmtree(d, ignore_errors=True)


# ------------------------------------------------------------------------------------------------ exit-status decoder
def terminated_words():
    """every status word waitpid(pid, &status, 0) can deliver for a terminated child on Linux -> (word, how, expected report)"""
    out = [(c << 8, "exit(%d)" % c, c) for c in range(256)]
    for sg in range(1, 127):
        out.append((sg, "killed by signal %d" % sg, 128 + sg))
        out.append((sg | 0x80, "killed by signal %d, core dumped" % sg, 128 + sg))
    return out


def status_correspond(ctx, drv):
    """compiled proc_get_status (wrapper TU harness/C16/oswrap.c, interposed waitpid) on all 2^16 status words + seeded
    32-bit words  vs  the Lean evaluation of the regenerated expression trees; and, independently of the model, the compiled
    decoder against the expected report for every terminated-child word.
    -> (compared, correspondence diffs, direct failures [(sig, desc)], words on which the regenerated trees miss the expected report)"""
    exe = ctx.build.harness("asan", "c16os", [os.path.join(VERIF, "harness/C16/oswrap.c")], extra_ld=["-Wl,--wrap=waitpid"])
    nrand = 20000 if ctx.tier == "quick" else 400000
    rc, out, err = run_cmd([exe, "status", str(ctx.seed), str(nrand)], timeout=300, env=dict(os.environ, ASAN_OPTIONS="detect_leaks=0"))
    text = out.decode(errors="replace")
    if rc != 0 or "DONE" not in text:
        return 0, [{"why": "harness c16os failed: rc=%s %s" % (rc, err.decode(errors="replace")[-300:])}], [], []
    impl = []
    for line in text.splitlines():
        t = line.split()
        if len(t) == 2 and t[0].lstrip("-").isdigit():
            impl.append((int(t[0]), t[1]))
    byword = dict(impl)
    fails = []
    for w, how, want in terminated_words():
        if byword.get(w) != str(want):
            fails.append(("exit-status:word %d" % w, "proc_get_status on the wait-status word 0x%04x (child %s) returns %s, expected %d"
                          % (w, how, byword.get(w), want)))
    diffs, predicted = [], []
    n = 0
    if drv:
        mo = ctx.model(["X %d" % w for w, _ in impl], exe=drv)
        for (w, r), line in zip(impl, mo):
            m = re.match(r"gen=(\S+) model=(\S+)$", line)
            n += 1
            if not m:
                diffs.append({"word": w, "why": "unparsable driver output %r" % line})
            elif m.group(1) != r:
                diffs.append({"word": w, "impl": r, "regenerated_trees": m.group(1), "why": "compiled proc_get_status and the Lean evaluation of the `cc -E` expression trees differ"})
        gen = {}
        for (w, r), line in zip(impl, mo):
            m = re.match(r"gen=(\S+) model=(\S+)$", line)
            if m:
                gen[w] = m.group(1)
        for w, how, want in terminated_words():
            if gen.get(w) != str(want):
                predicted.append({"word": w, "child": how, "expected": want, "regenerated_trees_give": gen.get(w)})
    return n, diffs, fails, predicted


# ------------------------------------------------------------------------------------------------ socket callbacks of net.c
def net_checks(ctx, exe, drv, corpus_lines, more):
    """in-process drive of net_callback_connect / net_callback_accept vs the Lean model (D) and direct expectations (E), plus
    connection-level scenarios on real sockets (E) -> (evaluations, [(sig, desc, replay)], diffs, stats)"""
    fails, diffs = [], []
    stats = {"netdrive_cases": 0, "events_delivered": 0, "kinds": {}, "events": {}, "ended_by": {}, "corpus_cases": len(corpus_lines)}
    batches = []
    if corpus_lines:
        batches.append(("corpus", corpus_lines))
    batches.append(("generated", None))
    for name, lines in batches:
        ok, text, err = netcorr.run_drive(exe, ctx.seed, NETDRIVE_CASES[ctx.tier] * (3 if more else 1), lines)
        if not ok:
            fails.append(("netdrive:harness-failed", "c16io --%s did not finish: %s %s" % ("netseq" if lines else "netdrive", text[-300:], err), None))
            continue
        cases = netcorr.parse(text)
        stats["netdrive_cases"] += len(cases)
        for c in cases:
            k = "connect" if c["kind"] == "C" else "accept-loop" if c["loop"] else "accept"
            stats["kinds"][k] = stats["kinds"].get(k, 0) + 1
            stats["events_delivered"] += len(c["ev"])
            for tok, obs in c["ev"]:
                e = netcorr.EVNAME.get(int(tok.split(":")[0]), "?")
                stats["events"][e] = stats["events"].get(e, 0) + 1
            last = c["ev"][-1]
            if "done=1" in last[1]:
                e = k + ":" + netcorr.EVNAME.get(int(last[0].split(":")[0]), "?")
                stats["ended_by"][e] = stats["ended_by"].get(e, 0) + 1
        for sig, desc, c in netcorr.oracle(cases):
            fails.append((sig, desc, {"kind": "netseq", "cases": [netcorr.case_text(c)], "failure": desc}))
        if drv:
            try:
                outs = ctx.model([netcorr.model_line(c) for c in cases], exe=drv)
                diffs += netcorr.compare(cases, outs)
            except Exception as e:   # noqa: BLE001
                diffs.append({"why": "model driver failed on the socket-callback cases: %s: %s" % (type(e).__name__, e)})
    try:
        nconn, cfails, cstats, cdiffs = netcorr.run_conn(exe, ctx.seed, (lambda lines: ctx.model(lines, exe=drv)) if drv else None)
        diffs += cdiffs
    except Exception as e:   # noqa: BLE001
        nconn, cfails, cstats = 0, [("conn:harness-failed", "connection scenarios could not be run: %s: %s" % (type(e).__name__, e))], {}
    for sig, desc in cfails:
        fails.append((sig, desc, {"kind": "conn", "failure": desc, "how": "c16io harness/C16/conn.janet <dir> %d" % ctx.seed}))
    stats.update(cstats)
    return stats["netdrive_cases"] + nconn, fails, diffs, stats


# ------------------------------------------------------------------------------------------------ exit status / redirection
def exec_checks(ctx, exe):
    fails = []
    n = 0
    d = tempfile.mkdtemp(prefix="c16x-", dir="/var/tmp")
    env = dict(os.environ, ASAN_OPTIONS="detect_leaks=0", C16_BACKSTOP_MS="30000")
    def fetch(mode, inp, to):
        dd = tempfile.mkdtemp(prefix="c16x-", dir="/var/tmp")
        try:
            return run_cmd([exe, os.path.join(VERIF, "harness/C16/exec.janet"), dd, mode], input=inp, timeout=to, env=env, cwd=dd)
        finally:
            shutil.rmtree(dd, ignore_errors=True)
    # the three case tables are independent processes: run them side by side (each in its own scratch directory)
    with cf.ThreadPoolExecutor(3) as ex:
        futs = {m: ex.submit(fetch, m, i, t) for m, i, t in (("codes", None, 240), ("inject", None, 400), ("stdredir", b"INPUTG\n", 120))}
        pre = {m: f.result() for m, f in futs.items()}
    try:
        rc, out, err = pre["codes"]
        got = {}
        for line in out.decode(errors="replace").splitlines():
            t = line.split(" ", 2)
            if len(t) == 3:
                got[(t[0], t[1])] = t[2]
        exp = {}
        for c in range(256):
            exp[("exit", str(c))] = "ok %d" % c
        for s in (1, 2, 3, 6, 9, 10, 12, 13, 14, 15):
            exp[("signal", str(s))] = "ok %d" % (128 + s)
        exp[("pipeline", "0")] = "ok 0"
        exp[("childpipe", "0")] = "ok 141"      # sh killed by SIGPIPE on its first echo: default disposition in the child
        exp[("netaddr", "truthy")] = "core/socket-address"
        exp[("netaddr", "nil")] = "core/socket-address"
        exp[("netaddr", "stream")] = "core/socket-address"
        exp[("netaddr", "multi")] = "array"
        exp[("x", "0")] = "ok 0"
        exp[("x", "3")] = "err command failed with non-zero exit code 3"
        for c in (0, 1, 77, 128, 255):
            exp[("spawn", str(c))] = "ok %d rc %d" % (c, c)
        exp[("spawnsig", "9")] = "ok 137"
        exp[("spawnsig", "15")] = "ok 143"
        exp[("kill", "9")] = "ok 137"
        exp[("kill", "15")] = "ok 143"
        exp[("concurrent", "@[(0")] = "5) (1 6) (2 7)]"
        n = len(exp)
        for k, v in exp.items():
            if got.get(k) != v and k[0] == "netaddr":
                fails.append(("net-address-3-args-reads-past-argv",
                              "(net/address host port type) with exactly 3 arguments returned %r (expected %s): cfun_net_sockaddr reads argv[3], "
                              "one slot past its arguments, and takes a stale stack value for `multi`" % (got.get(k), v)))
            elif got.get(k) != v:
                fails.append(("exit-status:%s %s" % k, "os/execute / os/proc-wait: case %s %s reported %r, expected %r" % (k[0], k[1], got.get(k), v)))
        if rc != 0 or b"DONE" not in out:
            fails.append(("exit-status:script", "exec.janet did not finish: rc=%s %s" % (rc, err.decode(errors="replace")[-300:])))
        # every terminated-child status word through the real reaping path (interposed waitpid substitutes the word)
        rc, out, err = pre["inject"]
        got = {}
        for line in out.decode(errors="replace").splitlines():
            t = line.split(" ", 2)
            if len(t) == 3 and t[0].startswith("inject-"):
                got[(t[0], t[1])] = t[2]
        exp = {}
        for c in range(256):
            exp[("inject-exit", str(c))] = "ok %d rc %d" % (c, c)
        for sg in range(1, 127):
            exp[("inject-sig", str(sg))] = "ok %d rc %d" % (128 + sg, 128 + sg)
            exp[("inject-sigcore", str(sg))] = "ok %d rc %d" % (128 + sg, 128 + sg)
        for c in (1, 255, 137, 139, 254):
            exp[("inject-x", str(c))] = "err command failed with non-zero exit code %d" % c
        exp[("inject-x", "0")] = "ok 0"
        for c in (0, 3, 143):
            exp[("inject-close", str(c))] = "ok %d rc %d" % (c, c)
        exp[("inject-twice", "0")] = "ok 42 then err cannot wait twice on a process rc 42"
        exp[("inject-both", "0")] = "err cannot wait twice on a process | ok 5 rc 5"
        n += len(exp)
        for k, v in exp.items():
            if got.get(k) != v:
                how = {"inject-exit": "exit(%s)", "inject-sig": "killed by signal %s", "inject-sigcore": "killed by signal %s (core dumped)"}.get(k[0], k[0] + " %s") % k[1]
                fails.append(("exit-status:%s %s" % k, "child %s: os/proc-wait / :return-code reported %r, expected %r (status word substituted in waitpid, "
                              "decoded by proc_get_status -> janet_proc_wait_cb)" % (how, got.get(k), v)))
        if rc != 0 or b"DONE" not in out:
            fails.append(("exit-status:script", "exec.janet inject did not finish: rc=%s %s" % (rc, err.decode(errors="replace")[-300:])))
        # redirections whose source is a standard descriptor of the parent
        rc, out, err = pre["stdredir"]
        so, se = out.decode(errors="replace"), err.decode(errors="replace")
        seg = {m.group(1): (m.group(2), m.group(3)) for m in re.finditer(r"stdredir-begin (\w)\n(.*?)stdredir-end \1 ([^\n]*)\n", so, re.S)}
        want = {"A": ("outA\nerrA\nrcA=0\n", "0", [], "{:err stdout}"),
                "B": ("", "0", ["outB", "errB", "rcB=0"], "{:out stderr}"),
                "C": ("errC\nrcC=0\n", "0 file=outC|", [], "{:out file :err stdout}"),
                "D": ("errD\nrcD=0\n", "0 piped=outD|", [], "os/spawn {:out :pipe :err stdout}"),
                "F": ("errF\nrcF=0\n", "0", ["outF"], "{:out stderr :err stdout}"),
                "G": ("INPUTG\nerrG\n", "0", [], "{:in stdin :err stdout}"),
                "H": ("outH\nerrH\nrcH=0\n", "0", [], "{:out stdout :err stdout}")}
        n += len(want)
        for tag, (wout, wres, werr, what) in want.items():
            g = seg.get(tag)
            bad = None
            if g is None:
                bad = "case did not run"
            elif g[0] != wout or g[1] != wres:
                bad = "on the parent's stdout %r, result %r; expected %r, %r" % (g[0], g[1], wout, wres)
            elif any(se.count(w + "\n") != 1 for w in werr):
                bad = "the parent's stderr does not carry %r exactly once: %r" % (werr, se[-200:])
            if bad:
                fails.append(("spawn-redirect-std-source", "os/execute / os/spawn with %s (a redirection whose source is a standard descriptor): %s -- "
                              "the child lost or mis-wired a standard descriptor" % (what, bad)))
                break
        # redirection to / from files
        for sz_in, sz_err in ((0, 0), (1, 1), (65536, 65537), (300000, 70000)):
            a = scen.payload_bytes(ctx.seed, 900 + sz_in, sz_in)
            b = scen.payload_bytes(ctx.seed, 901 + sz_err, sz_err)
            open(os.path.join(d, "in.bin"), "wb").write(a)
            open(os.path.join(d, "e.bin"), "wb").write(b)
            rc, out, err = run_cmd([exe, os.path.join(VERIF, "harness/C16/exec.janet"), d, "redir"], timeout=60, env=env, cwd=d)
            n += 1
            o = open(os.path.join(d, "out.bin"), "rb").read() if os.path.exists(os.path.join(d, "out.bin")) else None
            e = open(os.path.join(d, "err.bin"), "rb").read() if os.path.exists(os.path.join(d, "err.bin")) else None
            if b"redir ok 9" not in out or o != a or e != b:
                fails.append(("redirect:%d" % sz_in, "os/execute with :in/:out/:err files: status line %r, stdout match %s, stderr match %s" % (out[:60], o == a, e == b)))
    finally:
        shutil.rmtree(d, ignore_errors=True)
    return n, fails


# ------------------------------------------------------------------------------------------------ run
def run_batch(ctx, exe, jobs):
    def one(job):
        try:
            return one_inner(job)
        except Exception as e:   # noqa: BLE001  (a harness failure on one scenario is reported, it does not end the run)
            import traceback
            fam, k, sc = job
            light = {"trace": "", "stdout": "", "stderr": traceback.format_exc()[-1500:],
                     "faults": dict.fromkeys(["calls", "eagain", "short", "eintr", "err", "real_eagain", "real_partial", "rearm"], 0), "corr": []}
            return fam, k, sc, light, [("scenario-run-failed:" + sc.get("family", "?"), "running / judging the scenario failed: %s: %s" % (type(e).__name__, e))], 0

    def one_inner(job):
        fam, k, sc = job
        res = scen.run_scenario(sc, exe)
        fails, ops = scen.oracle(sc, res)
        # keep only what the report needs (payloads / sinks / full traces of thousands of scenarios do not fit in memory)
        corr = prepare_corr("%s/%s" % (fam, k), res["trace"], ops)
        try:
            reg = registry_lines("%s/%s" % (fam, k), res["trace"], ops)
        except Exception:   # noqa: BLE001  (an uninterpretable trace is reported by the oracle / the per-operation correspondence)
            reg = []
        light = {"trace": res["trace"][-3000:], "stdout": res["stdout"][-3000:], "stderr": res["stderr"][-1500:],
                 "faults": scen.fault_counts(res["trace"]), "corr": corr, "reg": reg}
        return fam, k, sc, light, fails, len(ops)
    with cf.ThreadPoolExecutor(_jobs()) as ex:
        return list(ex.map(one, jobs))


def _jobs():
    """worker processes for the scenario sweeps: bounded by the cores this process may use (time backstops inside the harness
    assume that a runnable scenario gets CPU within seconds)"""
    if os.environ.get("VERIF_JOBS"):
        return max(1, int(os.environ["VERIF_JOBS"]))
    try:
        n = len(os.sched_getaffinity(0))
    except (AttributeError, OSError):
        n = os.cpu_count() or 4
    return max(2, min(14, n))


def _fresh_environment():
    """the verdict must not depend on how the check was started: default dispositions for the signals the exit-status cases use
    (ignored ones are inherited by every child), no blocked signals, no scratch directories left by killed earlier runs"""
    import signal
    import time
    for name in ("SIGABRT", "SIGPIPE", "SIGHUP", "SIGINT", "SIGQUIT", "SIGTERM", "SIGUSR1", "SIGUSR2", "SIGALRM", "SIGCHLD"):
        sig = getattr(signal, name, None)
        try:
            # python itself ignores SIGPIPE and restores it in children (restore_signals); everything else: default
            if sig is not None and name != "SIGPIPE" and signal.getsignal(sig) == signal.SIG_IGN:
                signal.signal(sig, signal.SIG_DFL)
        except (OSError, ValueError):
            pass
    try:
        signal.pthread_sigmask(signal.SIG_SETMASK, set())
    except (AttributeError, OSError, ValueError):
        pass
    try:
        now = time.time()
        for fn in os.listdir("/var/tmp"):
            if re.match(r"c16[a-z]?-", fn):
                q = os.path.join("/var/tmp", fn)
                if os.path.isdir(q) and os.stat(q).st_uid == os.getuid() and now - os.path.getmtime(q) > 7200:
                    shutil.rmtree(q, ignore_errors=True)
    except OSError:
        pass


def run(ctx, only=None):
    quick = ctx.tier == "quick"
    broken = []
    _fresh_environment()
    # (A)
    try:
        ctx.build.boot()
        ctx.gen("Stream.lean", gen_stream.render(ctx.build.tree))
        facts = gen_stream.extract(ctx.build.tree)
    except ExtractError as e:
        facts = None
        broken.append("translator tools/gen/stream.py (shape of ev.c changed): %s" % e)
        ctx.broken.append(broken[-1])
    except BuildError as e:
        ctx.violation("build-failed", {"kind": "build", "error": str(e)}, found=False, what="tree does not build")
        return ctx.finish("proof", {"evaluations": 0, "distinct_nontrivial": 0})
    pfacts = None
    try:
        ctx.gen("ProcStat.lean", gen_procstat.render(ctx.build.tree))
        pfacts = gen_procstat.extract(ctx.build.tree)
    except ExtractError as e:
        broken.append("translator tools/gen/procstat.py (shape of os.c changed): %s" % e)
        ctx.broken.append(broken[-1])
    nfacts = None
    try:
        ctx.gen("Net.lean", gen_net.render(ctx.build.tree))
        nfacts = gen_net.extract(ctx.build.tree)
    except ExtractError as e:
        broken.append("translator tools/gen/net.py (shape of net.c / janet.h / ev.c changed): %s" % e)
        ctx.broken.append(broken[-1])
    dfacts = None
    try:
        ctx.gen("Dispatch.lean", gen_dispatch.render(ctx.build.tree))
        dfacts = gen_dispatch.extract(ctx.build.tree)
    except ExtractError as e:
        broken.append("translator tools/gen/dispatch.py (shape of janet_loop1_impl changed): %s" % e)
        ctx.broken.append(broken[-1])
    # (B,C)
    broken += ctx.obligations("JanetModel.Props.C16", THEOREMS)
    broken += ctx.obligations("JanetModel.Stream.DispatchCurrent", DISPATCH_CURRENT)
    net_broken = ctx.obligations("JanetModel.Stream.NetCurrent", NET_CURRENT)
    broken += net_broken
    cur_broken = ctx.obligations("JanetModel.Stream.Current", CURRENT)
    broken += cur_broken
    broken += ctx.obligations("JanetModel.Proc.Current", PROC_CURRENT)
    from vlib import core as vcore
    if not quick or os.path.exists(os.path.join(vcore.LEAN, ".lake", "build", "lib", "lean", "JanetModel", "Proc", "CurrentAll.olean")):
        # (a cold build holds the shared lake lock for minutes: not in a quick run on a tree where it was never built)
        broken += ctx.obligations("JanetModel.Proc.CurrentAll", PROC_ALL)
    if not quick:
        ok, log = ctx.leanchecker("JanetModel.Props.C16")
        if not ok:
            broken.append("leanchecker JanetModel.Props.C16: " + log[-300:])
    drv = ctx.driver()
    variant = "asan"
    try:
        exe = ctx.build.harness(variant, "c16io", [os.path.join(VERIF, "harness/C16/evwrap.c")], extra_ld=[WRAP])
    except BuildError as e:
        ctx.violation("harness-build", {"kind": "build", "error": str(e)[-1500:]}, found=False,
                      what="interposer harness (wrapper TU around ev.c) does not compile against the current tree")
        return ctx.finish("proof", {"evaluations": 0, "distinct_nontrivial": 0})
    # (E) + traces for (D).  When an obligation / the tie is broken: search harder (4x the quota, contention first)
    quota = dict(QUOTA[ctx.tier])
    if broken:
        quota = {k: v * (4 if quick else 1) for k, v in quota.items()}
    big = 1000000 if quick else 4 * 1024 * 1024
    jobs = []
    plumb_batches = []
    netseq_lines = []
    wordseq_lines = []
    # corpus first: targeted scenarios and minimised past failures
    cdir = os.path.join(VERIF, "corpus", "C16")
    if os.path.isdir(cdir):
        for fn in sorted(os.listdir(cdir)):
            if fn.endswith(".json"):
                with open(os.path.join(cdir, fn)) as f:
                    j = json.load(f)
                if j.get("family") == "plumb":
                    plumb_batches.append(j["cases"])
                elif j.get("family") == "netseq":
                    netseq_lines += j["cases"]
                elif j.get("family") == "wordseq":
                    wordseq_lines += j["cases"]
                else:
                    jobs.append(("corpus", fn, j))
    for fam, cnt in quota.items():
        for k in range(cnt):
            jobs.append((fam, k, scen.generate(ctx.rng.fork("%s/%d" % (fam, k)), fam, big)))
    if only:
        jobs = [j for j in jobs if j[0] == only]
    ctx.say("running %d scenarios (%s build, in-process fault injection)" % (len(jobs), variant))
    results = run_batch(ctx, exe, jobs)
    faults = dict.fromkeys(["calls", "eagain", "short", "eintr", "err", "real_eagain", "real_partial", "rearm"], 0)
    fam_count, kinds, sizes = {}, {}, []
    nops = 0
    reported = set()
    traces = []
    regs = []
    for fam, k, sc, res, fails, ops in results:
        fc = res["faults"]
        for kk in faults:
            faults[kk] += fc[kk]
        fam_count[sc["family"]] = fam_count.get(sc["family"], 0) + 1
        for s in sc["streams"]:
            kinds[s["kind"]] = kinds.get(s["kind"], 0) + 1
        sizes += sc["payload_sizes"]
        nops += ops
        traces += res["corr"]
        regs += res.get("reg", [])
        for sig, desc in fails:
            if sig in reported:
                continue
            reported.add(sig)
            os.makedirs(ctx.replay_dir, exist_ok=True)   # scratch output directories are shared with other runs' clean-up
            ctx.violation(sig, {"kind": "scenario", "scenario": sc, "family": sc["family"], "failure": desc,
                                "stdout_tail": res["stdout"], "stderr_tail": res["stderr"], "trace_tail": res["trace"]},
                          what="%s: %s" % (sc["family"], desc[:500]))
    ctx.say("scenarios done (%d); exit-status / redirection cases" % len(results))
    try:
        nexec, efails = exec_checks(ctx, exe)
    except Exception as e:   # noqa: BLE001
        nexec, efails = 0, [("exit-status:harness-failed", "exit status / redirection cases could not be run or interpreted: %s: %s" % (type(e).__name__, e))]
    # one report per kind of failing case (exit codes / signals / core-dump words ...), naming the first input and the count
    byclass = {}
    for sig, desc in efails:
        byclass.setdefault(re.sub(r" -?\d+$", "", sig), []).append((sig, desc))
    for cls, items in byclass.items():
        sig, desc = items[0]
        if sig not in reported:
            reported.add(sig)
            more = " (+%d more cases of this kind: %s)" % (len(items) - 1, ", ".join(x[0].rsplit(" ", 1)[-1] for x in items[1:9])) if len(items) > 1 else ""
            ctx.violation(sig, {"kind": "exec", "failure": desc, "all_failing_cases_of_this_kind": [x[0] for x in items]}, what=desc + more)
    # socket callbacks of net.c: in-process drive vs model (D) + direct expectations, real-socket connection scenarios (E)
    ctx.say("socket callbacks (netdrive + connection scenarios)")
    try:
        nnet, nfails, ndiffs, nstats = net_checks(ctx, exe, drv, netseq_lines, bool(broken)) if not only or only == "net" else (0, [], [], {})
    except Exception as e:   # noqa: BLE001
        nnet, nfails, ndiffs, nstats = 0, [("netdrive:harness-failed", "socket-callback cases could not be run: %s: %s" % (type(e).__name__, e), None)], [], {}
    byclass = {}
    for sig, desc, rep in nfails:
        byclass.setdefault(sig, []).append((desc, rep))
    for sig, items in byclass.items():
        if sig not in reported:
            reported.add(sig)
            desc, rep = items[0]
            rep = dict(rep or {"kind": "netseq", "cases": []}, all_failing=[d for d, _ in items[:20]], count=len(items))
            ctx.violation(sig, rep, what=desc[:600] + (" (+%d more cases)" % (len(items) - 1) if len(items) > 1 else ""))
    if ndiffs:
        broken.append("correspondence net_callback_connect / net_callback_accept vs Stream.Net model on %d of %d cases, first: %r" % (len(ndiffs), nnet, ndiffs[0]))
        if not ctx.nviol:
            ctx.broken.append(broken[-1])
    # readiness dispatch of janet_loop1_impl: injected epoll words vs the model on the regenerated table (D) + direct expectations,
    # "the peer answers and hangs up with unread input" on real sockets (E)
    ctx.say("readiness dispatch (epoll words injected in process, peer hang-up scenarios)")
    wstats, wdiffs, nword = {}, [], 0
    if not only or only == "words":
        try:
            nword, wfails, wdiffs, wstats = wordcorr.run_words(exe, ctx.seed, WORDDRIVE_CASES[ctx.tier] * (3 if broken else 1),
                                                               (lambda lines: ctx.model(lines, exe=drv)) if drv else None, wordseq_lines)
        except Exception as e:   # noqa: BLE001
            wfails = [("worddrive:harness-failed", "dispatch cases could not be run: %s: %s" % (type(e).__name__, e), None)]
        try:
            nh, hfails, hstats = wordcorr.run_hangup(exe, ctx.seed)
            nword += nh
            wstats.update(hstats)
            wfails += [(sig, desc, {"kind": "hangup", "failure": desc, "how": "c16io harness/C16/hangup.janet <dir> %d" % ctx.seed}) for sig, desc in hfails]
        except Exception as e:   # noqa: BLE001
            wfails.append(("hangup:harness-failed", "peer hang-up scenarios could not be run: %s: %s" % (type(e).__name__, e), None))
        byclass = {}
        for sig, desc, rep in wfails:
            byclass.setdefault(sig, []).append((desc, rep))
        for sig, items in byclass.items():
            if sig not in reported:
                reported.add(sig)
                desc, rep = items[0]
                rep = dict(rep or {"kind": "wordseq", "cases": []}, all_failing=[d for d, _ in items[:20]], count=len(items))
                ctx.violation(sig, rep, what=desc[:700] + (" (+%d more cases)" % (len(items) - 1) if len(items) > 1 else ""))
        if wdiffs:
            broken.append("correspondence janet_loop1_impl dispatch + ev_callback_read/_write vs Stream.Dispatch model on %d of %d cases, first: %r"
                          % (len(wdiffs), nword, wdiffs[0]))
            if not ctx.nviol:
                ctx.broken.append(broken[-1])
    # descriptor plumbing of os/spawn / os/execute: direct oracle (E) + model correspondence on syscalls and descriptor tables (D)
    ctx.say("descriptor plumbing, process life cycle, status words")
    npl = PLUMB_CASES[ctx.tier] * (3 if broken and quick else 1)
    gen = plumb.generate(ctx.rng.fork("plumb"), npl)
    plumb_batches += [gen[i:i + 40] for i in range(0, len(gen), 40)]
    try:
        nplumb, pfails, pdiffs, pstats = run_plumb(ctx, exe, drv, plumb_batches) if not only or only == "plumb" else (0, [], [], {})
    except Exception as e:   # noqa: BLE001
        nplumb, pfails, pdiffs, pstats = 0, [("plumb:harness-failed", "plumbing cases could not be run: %s: %s" % (type(e).__name__, e), None)], [], {}
    byclass = {}
    for sig, desc, case in pfails:
        byclass.setdefault(sig, []).append((desc, case))
    for sig, items in byclass.items():
        if sig not in reported:
            reported.add(sig)
            desc, case = items[0]
            ctx.violation(sig, {"kind": "plumb", "cases": [case] if case else [], "failure": desc, "all_failing": [d for d, _ in items[:20]]},
                          what=desc[:500] + (" (+%d more cases)" % (len(items) - 1) if len(items) > 1 else ""))
    if pdiffs:
        broken.append("correspondence os_execute_impl / Proc.Spawn model on %d of %d cases, first: %r" % (len(pdiffs), nplumb, pdiffs[0]))
        if not ctx.nviol:
            ctx.broken.append(broken[-1])
    # life cycle of the process value: op sequences on real processes vs ProcSt (D) + direct expectations (E)
    try:
        lifeq = gen_life(ctx.rng.fork("life"), 80 if quick else 800)
        nlife, lfails, ldiffs, lhist = run_life(ctx, exe, drv, lifeq) if not only or only == "life" else (0, [], [], {})
    except Exception as e:   # noqa: BLE001
        nlife, lfails, ldiffs, lhist = 0, [("proc-life:harness-failed", "life-cycle sequences could not be run: %s: %s" % (type(e).__name__, e), None)], [], {}
    byclass = {}
    for sig, desc, q in lfails:
        byclass.setdefault(sig, []).append((desc, q))
    for sig, items in byclass.items():
        if sig not in reported:
            reported.add(sig)
            ctx.violation(sig, {"kind": "proc-life", "seq": items[0][1], "failure": items[0][0], "all_failing": [x for x, _ in items[:20]]},
                          what=items[0][0][:500] + (" (+%d more sequences)" % (len(items) - 1) if len(items) > 1 else ""))
    if ldiffs:
        broken.append("correspondence process life cycle / ProcSt model on %d of %d sequences, first: %r" % (len(ldiffs), nlife, ldiffs[0]))
        if not ctx.nviol:
            ctx.broken.append(broken[-1])
    # exit-status decoder: compiled C on all 2^16 words vs regenerated trees (D) and vs the expected reports (E)
    try:
        nstat, sdiffs, sfails, predicted = status_correspond(ctx, drv)
    except Exception as e:   # noqa: BLE001
        nstat, sdiffs, sfails, predicted = 0, [{"why": "status correspondence failed: %s: %s" % (type(e).__name__, e)}], [], []
    if sfails:
        sig, desc = sfails[0]
        if sig not in reported:
            reported.add(sig)
            ctx.violation(sig, {"kind": "status-word", "failure": desc, "failing_words": [x[0] for x in sfails], "predicted_by_model": predicted[:5]},
                          what=desc + (" (+%d more status words)" % (len(sfails) - 1) if len(sfails) > 1 else ""))
    if sdiffs:
        broken.append("correspondence proc_get_status / regenerated expression trees on %d of %d status words, first: %r" % (len(sdiffs), nstat, sdiffs[0]))
        if not ctx.nviol:
            ctx.broken.append(broken[-1])
    if predicted:
        broken.append("regenerated proc_get_status misreports %d terminated-child status words, first: %r" % (len(predicted), predicted[0]))
    # (D)
    ctx.say("per-operation correspondence with the model (%d operation logs)" % len(traces))
    try:
        ncorr, diffs, smis, mkinds = correspond(ctx, drv, traces)
    except Exception as e:   # noqa: BLE001
        ncorr, diffs, smis, mkinds = 0, [{"why": "correspondence step failed: %s: %s" % (type(e).__name__, e)}], [], {}
    if smis:
        broken.append("state->start disagrees with the pointer passed to write(): %r" % (smis[0],))
    if diffs:
        broken.append("correspondence model/impl on %d of %d operations, first: %r" % (len(diffs), ncorr, diffs[0]))
    if (diffs or smis) and not ctx.nviol:
        ctx.broken.append(broken[-1])
    try:
        nreg, rdiffs, rhist = registry_correspond(ctx, drv, regs)
    except Exception as e:   # noqa: BLE001
        nreg, rdiffs, rhist = 0, [{"why": "registry correspondence failed: %s: %s" % (type(e).__name__, e)}], {}
    if rdiffs:
        broken.append("correspondence listener-slot registry (janet_async_start_fiber / janet_async_end / janet_stream_close) vs World model on %d of %d stream ends, first: %r"
                      % (len(rdiffs), nreg, rdiffs[0]))
        if not ctx.nviol:
            ctx.broken.append(broken[-1])
    if broken and not ctx.nviol and not ctx.nknown:
        ctx.violation("broken:" + broken[0][:80], {"kind": "broken-obligation", "broken": broken, "first_diffs": diffs[:5], "facts": facts},
                      found=False, what="no longer shown to hold: " + "; ".join(broken)[:700])
    elif broken:
        ctx.say("broken obligations (failing input reported above): " + "; ".join(broken)[:600])
    cov = {
        "evaluations": nops + nexec + ncorr + nstat + nplumb + nlife + nnet + nword,
        "distinct_nontrivial": len(results) + nexec + nplumb,
        "rule": "one evaluation = one janet-level stream operation judged by the direct oracle, one exit-status / redirection case, or one "
                "operation whose intercepted syscall sequence was compared with the Lean model, one os/spawn / os/execute plumbing case, or one "
                "wait-status word decoded by the compiled proc_get_status and compared, or one generated event sequence driven through "
                "net_callback_connect / net_callback_accept and compared with the model, or one read / write operation driven through "
                "janet_loop1_impl by injected epoll words, or one peer hang-up exchange on real sockets; non-trivial = distinct generated scenario / case",
        "samples": [json.dumps({"family": sc["family"], "streams": sc["streams"], "payload_sizes": sc["payload_sizes"][:4], "faults": sc["faults"]})[:300]
                    for _, _, sc, _, _, _ in results[:4]],
        "scenarios": len(results), "scenario_families": fam_count, "stream_kinds": kinds,
        "payload_bytes_total": sum(sizes), "payload_size_max": max(sizes) if sizes else 0,
        "payload_sizes_near_pipe_buffer": sum(1 for s in sizes if 65530 <= s <= 65542),
        "janet_level_ops": nops, "exec_cases": nexec,
        "intercepted_syscalls": faults["calls"], "faults_injected": {k: faults[k] for k in ("eagain", "short", "eintr", "err")},
        "kernel_own": {"eagain": faults["real_eagain"], "partial_transfers": faults["real_partial"]}, "epoll_rearms": faults["rearm"],
        "correspondence_ops": ncorr, "correspondence_diffs": len(diffs), "model_outcomes": mkinds,
        "registry_stream_ends_compared": nreg, "registry_tokens": rhist, "registry_diffs": len(rdiffs),
        "plumbing": pstats, "plumbing_model_diffs": len(pdiffs),
        "life_cycle_sequences": nlife, "life_cycle_ops": lhist, "life_cycle_model_diffs": len(ldiffs),
        "status_words_compared": nstat, "status_word_diffs": len(sdiffs),
        "socket_callbacks": nstats, "socket_callback_model_diffs": len(ndiffs), "net_source_facts": nfacts,
        "readiness_dispatch": wstats, "readiness_dispatch_model_diffs": len(wdiffs),
        "dispatch_table": {gen_dispatch.word_name(w): " ".join("%s<-%s" % ("rw"[sl], gen_dispatch.KNAME[k]) for sl, k in evs)
                           for w, evs in (dfacts or {}).get("table", {}).items()},
        "status_decoder_regenerated": (pfacts or {}).get("branches_c"), "waitpid_options": (pfacts or {}).get("waitpidOptions"),
        "source_facts": facts, "broken": broken[:6],
    }
    return ctx.finish("proof", cov, assumptions=[
        "kernel, epoll and process reaping are outside the model: tested by the direct oracle only",
        "exit status: the Linux layout of the wait-status word (exit: code<<8; fatal signal: sig | 0x80*core) is the specification the "
        "decoder is proved against; that waitpid(pid,&st,0) delivers only such words for a terminated child is the kernel's contract",
        "an injected EAGAIN / short write is followed by EPOLL_CTL_MOD so that the edge-triggered registration sees a fresh readiness edge "
        "(models a kernel whose buffer state changed right after the call)",
        "liveness: proved as 'a read / write ends within max(1,n) productive events' and 'on an infinite schedule in which productive events "
        "keep coming some finite prefix ends the operation'; that the kernel's event sequence IS fair (readiness is reported again after a "
        "would-block) is the hypothesis of these theorems, not proved",
        "sockets: the kernel side of the listener model is the epoll contract (a connection entering the accept queue raises a readiness "
        "edge; a level-triggered registration reports while the queue is non-empty; an EPOLLET one reports an edge once) and "
        "getsockopt(SO_ERROR) == 0 means the handshake has not failed; both assumed, exercised by harness/C16/conn.janet on real sockets",
        "shared-stream theorems: the composed machine takes both slot guards as present; that is the regenerated fact "
        "Gen.Stream.guardsReadSlot / guardsWriteSlot (Stream/Current.lean)",
        "readiness dispatch: the table Gen.Dispatch is obtained by compiling the stream branch of the epoll janet_loop1_impl verbatim "
        "against stub JanetFiber / JanetStream definitions and executing it for all 16 flag words (the C compiler is trusted as it is for "
        "the build); which words the kernel reports for a reset connection (EPOLLIN|EPOLLERR|EPOLLHUP in one event) is the kernel's behaviour, "
        "exercised on real unix / TCP sockets by harness/C16/hangup.janet; poll / kqueue back ends are not modelled",
        "windows (IOCP / AcceptEx / WSAConnect) branches are not modelled"])


def replay(ctx, path):
    with open(path) as f:
        r = json.load(f)
    if r.get("kind") == "plumb" and r.get("cases"):
        exe = ctx.build.harness("asan", "c16io", [os.path.join(VERIF, "harness/C16/evwrap.c")], extra_ld=[WRAP])
        n, pfails, pdiffs, st = run_plumb(ctx, exe, ctx.driver(), [r["cases"]])
        for sig, desc, case in pfails:
            ctx.violation(sig, {"kind": "plumb", "cases": [case], "failure": desc}, what=desc[:500])
        print(json.dumps(pdiffs, indent=1)[:2000])
        return ctx.finish("proof", {"evaluations": n, "distinct_nontrivial": n, "rule": "replay of plumbing cases", "samples": [plumb.jdn_case(c) for c in r["cases"][:3]]})
    if r.get("kind") == "netseq" and r.get("cases"):
        exe = ctx.build.harness("asan", "c16io", [os.path.join(VERIF, "harness/C16/evwrap.c")], extra_ld=[WRAP])
        ok, text, err = netcorr.run_drive(exe, ctx.seed, 0, r["cases"])
        print(text[-3000:], err)
        cases = netcorr.parse(text)
        for sig, desc, c in netcorr.oracle(cases):
            ctx.violation(sig, {"kind": "netseq", "cases": [netcorr.case_text(c)], "failure": desc}, what=desc[:600])
        return ctx.finish("proof", {"evaluations": len(cases), "distinct_nontrivial": len(cases), "rule": "replay of socket-callback event sequences", "samples": r["cases"][:3]})
    if r.get("kind") == "wordseq" and r.get("cases"):
        exe = ctx.build.harness("asan", "c16io", [os.path.join(VERIF, "harness/C16/evwrap.c")], extra_ld=[WRAP])
        ok, text, err = wordcorr.run_drive(exe, ctx.seed, 0, r["cases"])
        print(text[-3000:], err)
        cases = wordcorr.parse(text)
        for sig, desc, c in wordcorr.oracle(cases):
            ctx.violation(sig, {"kind": "wordseq", "cases": [wordcorr.case_line(c)], "failure": desc}, what=desc[:700])
        return ctx.finish("proof", {"evaluations": len(cases), "distinct_nontrivial": len(cases), "rule": "replay of injected epoll word sequences", "samples": r["cases"][:3]})
    if r.get("kind") == "hangup":
        exe = ctx.build.harness("asan", "c16io", [os.path.join(VERIF, "harness/C16/evwrap.c")], extra_ld=[WRAP])
        n, hfails, st = wordcorr.run_hangup(exe, ctx.seed)
        for sig, desc in hfails:
            ctx.violation(sig, {"kind": "hangup", "failure": desc}, what=desc[:700])
        return ctx.finish("proof", {"evaluations": n, "distinct_nontrivial": n, "rule": "replay of the peer hang-up scenarios", "samples": [json.dumps(st)[:300]]})
    if r.get("kind") == "conn":
        exe = ctx.build.harness("asan", "c16io", [os.path.join(VERIF, "harness/C16/evwrap.c")], extra_ld=[WRAP])
        n, cfails, st, _ = netcorr.run_conn(exe, ctx.seed)
        for sig, desc in cfails:
            ctx.violation(sig, {"kind": "conn", "failure": desc}, what=desc[:600])
        return ctx.finish("proof", {"evaluations": n, "distinct_nontrivial": n, "rule": "replay of the connection scenarios", "samples": [json.dumps(st)[:300]]})
    if r.get("kind") != "scenario":
        print(json.dumps(r, indent=1)[:3000])
        return run(ctx)
    exe = ctx.build.harness("asan", "c16io", [os.path.join(VERIF, "harness/C16/evwrap.c")], extra_ld=[WRAP])
    sc = r["scenario"]
    res = scen.run_scenario(sc, exe)
    fails, ops = scen.oracle(sc, res)
    print(res["stdout"][-2000:])
    print(res["trace"][-2000:])
    for sig, desc in fails:
        ctx.violation(sig, {"kind": "scenario", "scenario": sc, "family": sc["family"], "failure": desc}, what=desc[:500])
    return ctx.finish("proof", {"evaluations": len(ops), "distinct_nontrivial": 1, "rule": "replay of one scenario", "samples": [sc["family"]]})
