"""C10 - loading untrusted bytes / bytecode cannot corrupt memory.

(A) regenerate Gen/Bytecode.lean, Gen/VmAccess.lean, Gen/ImageChecks.lean, Gen/PegAccess.lean, Gen/UnmarshSites.lean (read sites of
    marsh.c, abstract hooks, asm exit paths), Gen/VmGuards.lean (value-dependent dereferences of vm.c) from the current tree
(B,C) kernel-check Props/C10 (verify_sound over the generated tables, image well-formedness, byte-level totality of unmarshal)
    and the obligation modules Unmarsh.Obligations, PegVerify.Obligations, Unmarsh.BytesObligations, Bytecode.GuardObligations
    + axiom audit
(D) correspondence: Lean models of verify / fiber validation / PEG verifier / the byte-level unmarshaller vs the real code
(E) direct oracle: every image / asm description goes through the real unmarshal / asm in an ASan+UBSan process; every
    accepted function / fiber is called, resumed, cancelled, stepped, printed, compared, hashed, marshalled and collected.
    A sanitizer report, a signal, an exit or a hang is the violation; replay = the hex bytes / asm text.
"""
import concurrent.futures as cf
import importlib.util
import json
import os
import re

from vlib.core import run_cmd, VERIF
from vlib.build import BuildError
from tools.gen import bytecode as gen_bytecode
from tools.gen import marsh as gen_marsh
from tools.gen import vmaccess as gen_vm
from tools.gen import pegaccess as gen_peg
from tools.gen import unmarsh as gen_unmarsh
from tools.gen import vmguards as gen_vmguards
from tools.gen import nanbox as gen_nanbox
from tools.gen import envvalid as gen_envvalid
from tools.gen.csrc import ExtractError

from vlib import build as vbuild

THEOREMS = ["JanetModel.Props.C10." + t for t in (
    "tables_consistent", "no_bad_rows", "verify_sound", "verify_entry", "fiber_image_wf_of_all_checks", "fiber_image_wf_partial",
    "function_image_wf_of_all_checks", "function_image_wf_partial", "env_untrusted_checked_of_all_checks",
    "witness_fiber_frame0", "witness_function_env_count", "witness_def_env_index", "peg_verify_sound_of_consistent")] + [
    "JanetModel.Bytecode.verify_sound_generic", "JanetModel.PegVerify.peg_verify_sound_generic",
    "JanetModel.Props.C10.unmarshal_total_inbounds_of_sites_ok", "JanetModel.Props.C10.unmarshal_terminates_of_sites_ok",
    "JanetModel.Props.C10.witness_missing_check_over_reads", "JanetModel.Props.C10.witness_uncounted_env_recursion",
    "JanetModel.Unmarsh.Bytes.unmarshal_total_inbounds_generic", "JanetModel.Unmarsh.Bytes.unmarshal_terminates_generic",
    "JanetModel.Unmarsh.Bytes.unmarshal_depth_bounded_generic", "JanetModel.Props.C10.unmarshal_depth_bounded_of_sites_ok",
    "JanetModel.Props.C10.real_is_number_of_ok", "JanetModel.Props.C10.real_never_a_pointer_of_ok", "JanetModel.Props.C10.witness_unsafe_real_forges_pointer",
    "JanetModel.Props.C10.env_valid_sound_of_shape", "JanetModel.Props.C10.witness_env_valid_without_slotcount",
    "JanetModel.Unmarsh.Bytes.unmarshal_functions_wf_generic", "JanetModel.Unmarsh.Bytes.function_case_wf_generic",
    "JanetModel.Props.C10.unmarshal_functions_wf_of_checks", "JanetModel.Props.C10.function_case_wf_of_checks",
    "JanetModel.Props.C10.witness_env_count_unchecked_bytes"]
ENVVALID_OBLIGATIONS = ["JanetModel.Unmarsh.EnvValidObligations.env_valid_shape", "JanetModel.Unmarsh.EnvValidObligations.env_valid_sound"]
NANBOX_OBLIGATIONS = ["JanetModel.Unmarsh.NanBoxObligations." + t for t in ("nanbox_ok", "real_is_number", "real_never_a_pointer")]
GUARD_OBLIGATIONS = ["JanetModel.Bytecode.GuardObligations.vm_value_guards", "JanetModel.Bytecode.GuardObligations.vm_value_guards_nonempty"]
BYTES_OBLIGATIONS = ["JanetModel.Unmarsh.BytesObligations." + t for t in ("sites_ok", "refs_checked", "depths_ok", "unmarshal_total_inbounds", "unmarshal_terminates", "unmarshal_depth_bounded", "peg_size_checked", "asm_ok_only_after_verify",
    "fn_checks_on", "unmarshal_functions_wf", "function_case_wf")] + [
    "JanetModel.Unmarsh.PegSize.peg_alloc_covers_writes", "JanetModel.Unmarsh.PegSize.witness_peg_size_wraps"]
PEG_OBLIGATIONS = ["JanetModel.PegVerify.Obligations." + t for t in ("peg_tables_consistent", "peg_verify_sound")]
IMAGE_OBLIGATIONS = ["JanetModel.Unmarsh.Obligations." + t for t in ("image_checks_present", "fiber_image_wf", "function_image_wf", "env_untrusted_checked")]
# witness image -> the check (Gen/ImageChecks.lean field) whose presence must reject it
WITNESS_CHECK = {"fiber_frame0_resumable": "frame0", "function_env_count_mismatch": "fnEnvCount", "def_environment_negative": "defEnvIndex"}

HDIR = os.path.join(VERIF, "harness", "C10")
# nesting depths tried for every recursive edge (harness/C10/imagegen.py deep_edges): around guard/3, guard/2, guard
DEEP_DEPTHS = [1, 2, 255, 256, 340, 341, 342, 343, 510, 511, 512, 513, 1022, 1023, 1024, 1025, 1026, 2047, 3000]
# ASan + the pointer/bounds/alignment part of UBSan.  Arithmetic undefined behaviour of number handling (shifts, signed
# overflow, float casts) is C14's subject; an overflow that lets a bound check pass still ends in an ASan report here.
VARIANT = "asan_mem"
vbuild.VARIANTS.setdefault(VARIANT, ("gcc", ["-O1", "-g", "-fno-omit-frame-pointer", "-D" + vbuild.GUARD, "-fsanitize=address,undefined",
                                             "-fno-sanitize=shift,signed-integer-overflow,float-cast-overflow,float-divide-by-zero,integer-divide-by-zero",
                                             "-fno-sanitize-recover=all"], ["-rdynamic", "-fsanitize=address,undefined"]))
STATE_LD = ["-fno-sanitize=shift,signed-integer-overflow,float-cast-overflow,float-divide-by-zero,integer-divide-by-zero"]
ENV = dict(os.environ, ASAN_OPTIONS="detect_leaks=0:abort_on_error=0:allocator_may_return_null=0:max_allocation_size_mb=640:hard_rss_limit_mb=2500:detect_stack_use_after_return=0",
           UBSAN_OPTIONS="print_stacktrace=1")


def _imagegen():
    spec = importlib.util.spec_from_file_location("c10_imagegen", os.path.join(HDIR, "imagegen.py"))
    m = importlib.util.module_from_spec(spec)
    spec.loader.exec_module(m)
    return m


# ------------------------------------------------------------------------------------------------ running batches
ALLOC_WRAPPERS = {"janet_gcalloc", "janet_abstract_begin", "janet_abstract", "janet_abstract_threaded", "janet_abstract_begin_threaded",
                  "janet_unmarshal_abstract", "janet_unmarshal_abstract_threaded", "janet_smalloc", "janet_scalloc", "janet_srealloc",
                  "janet_array_ensure", "janet_array_push", "janet_array_setcount", "janet_buffer_ensure", "janet_buffer_extra", "janet_buffer_push_u8",
                  "janet_buffer_push_bytes", "janet_buffer_setcount", "pushcap", "janet_to_string_b"}
# allocation sites whose size comes straight from the image and is not bounded by the input length on the pinned tree
# (funcdef section lengths, funcenv length, fiber stack size, peg bytecode / constant counts): documented resource limit,
# counted in the evidence, not reported.  An over-sized allocation anywhere else (array / tuple / string / table /
# buffer lengths are bounded by MARSH_EOS "DOS checks") IS reported.
UNBOUNDED_ALLOC_SITES = {"unmarshal_one_def@marsh.c", "unmarshal_one_fiber@marsh.c", "unmarshal_one_env@marsh.c", "peg_unmarshal@peg.c",
                         "peg_rule@peg.c"}   # a valid PEG may capture without bound


def classify(rc, err):
    """stable signature of a crash from the sanitizer report / exit status"""
    txt = err.decode(errors="replace") if isinstance(err, bytes) else err
    if "HANG: input exceeded" in txt or rc is None:
        return "hang"
    if "hard rss limit" in txt.lower() or "rss limit" in txt.lower():
        return "rss-limit"
    kind = None
    m = re.search(r"ERROR: AddressSanitizer: ([\w-]+)", txt)
    if m:
        kind = "asan-" + m.group(1)
        if "requested allocation size" in txt or m.group(1) in ("requested", "allocation-size-too-big"):
            kind = "asan-allocation-size-too-big"
        if m.group(1) == "SEGV":
            mm = re.search(r"The signal is caused by a (READ|WRITE)", txt)
            if mm:
                kind += "-" + mm.group(1).lower()
    else:
        m = re.search(r"runtime error: ([^\n]*)", txt)
        if m:
            kind = "ubsan-" + re.sub(r"0x[0-9a-f]+|\d+", "N", m.group(1))[:60].strip().replace(" ", "-")
    if kind is None:
        m = re.search(r"(\w+\.c):(\d+) - janet out of memory", txt)
        if m:
            return "exit-out-of-memory:%s:%s" % (m.group(1), m.group(2))
        if "out of memory" in txt:
            kind = "exit-out-of-memory"
        elif rc is not None and rc < 0:
            kind = "signal-%d" % (-rc)
        else:
            kind = "exit-%s" % rc
    # first frame inside the janet sources (for an over-sized allocation: the first frame that is not an allocation wrapper)
    fn = None
    for m in re.finditer(r"#\d+ 0x[0-9a-f]+ in (\w+) [^\n]*?/src/core/(\w+\.c)", txt):
        if kind == "asan-allocation-size-too-big" and m.group(1) in ALLOC_WRAPPERS:
            continue
        fn = "%s@%s" % (m.group(1), m.group(2))
        break
    return "%s:%s" % (kind, fn or "?")


def is_known_unbounded_alloc(sig, tree):
    return sig.startswith("asan-allocation-size-too-big:") and sig.split(":", 1)[1] in UNBOUNDED_ALLOC_SITES


PEG_RESTARTS = [0]


def run_batch(hx, lines, gc_every=8, timeout=900):
    """Feed `lines` to the harness; on abnormal exit restart after the offending input.
    Returns (outputs list aligned with lines (None where the process died), crashes [(index, rc, stderr_tail)])."""
    outs = [None] * len(lines)
    crashes = []
    start = 0
    while start < len(lines):
        data = ("g %d\n" % gc_every + "\n".join(lines[start:]) + "\n").encode()
        # the batch limit is only a backstop against a harness that blocks (the per-input limits are CPU time, inside the
        # harness); it grows with the batch so that a loaded machine does not turn a long batch into a "hang"
        rc, out, err = run_cmd([hx], input=data, timeout=timeout + (len(lines) - start) // 2, env=ENV)
        got = out.decode(errors="replace").split("\n")
        complete = got[:-1] if got else []
        complete = complete[1:]  # answer to the g line
        for i, o in enumerate(complete):
            if start + i < len(lines):
                outs[start + i] = o
        if rc == 0 and len(complete) >= len(lines) - start:
            break
        idx = start + len(complete)
        if rc == 96 and b"PEG-BUDGET-RESTART" in err[-2000:] and complete:
            # the harness abandoned a PEG call that used up its CPU budget, answered for that input and restarted itself
            # (the abandoned call may have been inside realloc): not a finding, continue with the next input
            PEG_RESTARTS[0] += 1
            start = idx
            continue
        if idx >= len(lines):
            # died in janet_deinit / after the last line: attribute to the last input
            idx = len(lines) - 1
        et = err.decode(errors="replace")
        k = et.find("ERROR: AddressSanitizer")
        if k < 0:
            k = et.find("runtime error:")
            k = et.rfind("\n", 0, k) + 1 if k >= 0 else max(0, len(et) - 4000)
        crashes.append((idx, rc, et[k:k + 5000]))
        start = idx + 1
    return outs, crashes


def run_parallel(hx, lines, jobs=16, chunk=None):
    n = len(lines)
    if n == 0:
        return [], []
    chunk = chunk or max(50, (n + jobs * 4 - 1) // (jobs * 4))
    parts = [(s, lines[s:s + chunk]) for s in range(0, n, chunk)]
    outs = [None] * n
    crashes = []
    with cf.ThreadPoolExecutor(jobs) as ex:
        for (s, part), (o, c) in zip(parts, ex.map(lambda p: run_batch(hx, p[1]), parts)):
            outs[s:s + len(o)] = o
            crashes += [(s + i, rc, err) for i, rc, err in c]
    return outs, crashes


def confirm_alone(hx, line):
    """does the input crash in a fresh process on its own (collecting after every input)?"""
    outs, crashes = run_batch(hx, [line], gc_every=1, timeout=120)
    return crashes[0] if crashes else None


# ------------------------------------------------------------------------------------------------ input generation
def load_base(ctx, v):
    rc, out, err = run_cmd([v["janet"], os.path.join(HDIR, "baseimages.janet")], timeout=120, env=ENV)
    if rc != 0:
        raise RuntimeError("baseimages.janet failed: " + err.decode(errors="replace")[-500:])
    base = []
    for l in out.decode().splitlines():
        lab, hx = l.split(" ", 1)
        base.append((lab, bytes.fromhex(hx.strip())))
    return base


def gen_inputs(ctx, ig, base, ops, lb, quick, pegrows=None):
    """returns list of (kind, label, line)"""
    rng = ctx.rng.fork("inputs")
    enc = ig.Enc(lb)
    cases = []

    def add(kind, label, b):
        cases.append((kind, label, "u " + b.hex()))

    # 0. corpus first (minimised past failures and targeted scenarios)
    cdir = os.path.join(VERIF, "corpus", "C10")
    if os.path.isdir(cdir):
        for f in sorted(os.listdir(cdir)):
            if f.endswith(".hex"):
                for i, l in enumerate(open(os.path.join(cdir, f)).read().split()):
                    cases.append(("corpus", "%s:%d" % (f, i), "u " + l.strip()))
            elif f.endswith(".asm"):
                for i, l in enumerate(open(os.path.join(cdir, f)).read().splitlines()):
                    if l.strip() and not l.startswith("#"):
                        cases.append(("corpus-asm", "%s:%d" % (f, i), "a " + l.strip().encode().hex()))
    # 1. valid images, every truncation at every offset
    for lab, b in base:
        add("valid", lab, b)
        for k in range(len(b)):
            add("trunc", "%s[:%d]" % (lab, k), b[:k])
    # 1b. deep nesting through EVERY recursive edge of the unmarshaller (array / tuple / struct / table elements and prototypes,
    #     funcdef constants and sub-defs, function environments (values and on-stack fiber), fiber frames / slots / env /
    #     child / last value, channel items, PEG constants): depths around the points where the depth counter reaches
    #     JANET_RECURSION_GUARD (1, 2 or 3 counted calls per nesting level), random depths, and depths far beyond the guard
    #     (an edge that does not count overflows the C stack there)
    edges = ig.deep_edges(lb, ops, pegrows.ops.get("RULE_CONSTANT") if pegrows is not None else None)
    for e in edges:
        per = max(1, len(e[2]) + len(e[4]))
        big = [20000, max(30000, min(200000, 1600000 // per))] + ([400000] if not quick else [])
        ds = DEEP_DEPTHS + [rng.range(1, 1100) for _ in range(4)] + [rng.range(1100, 6000) for _ in range(2)] + big
        for n in sorted(set(ds)):
            add("deep", "%s*%d" % (e[0], n), ig.deep_image(e, n))
    # 2. boundary-value single byte substitution at every offset
    bvals = ig.BOUNDARY_BYTES
    for lab, b in base:
        big = len(b) > 120
        for off in range(len(b)):
            vals = bvals if not quick else ([rng.choice(bvals) for _ in range(1 if big else 3)] + [(b[off] + 1) & 255, (b[off] - 1) & 255, 0xFF if off % 2 else 0])
            for v in set(vals):
                if v != b[off]:
                    add("subst", "%s@%d=%02x" % (lab, off, v), b[:off] + bytes([v]) + b[off + 1:])
    # 3. structure aware: functions
    n_fn = 5000 if quick else 60000
    for i in range(n_fn):
        fn = ig.gen_function(rng, ops, wild=(2 if i % 3 == 0 else 0))
        labels = []
        for _ in range(rng.choice([0, 1, 1, 1, 2])):
            labels.append(ig.mutate_function(rng, fn))
        try:
            add("fn", "+".join(labels) or "wellformed", enc.val(fn))
        except Exception:
            pass
    # 4. structure aware: fibers
    n_fb = 6000 if quick else 80000
    for i in range(n_fb):
        f = ig.gen_fiber(rng, ops)
        labels = []
        for _ in range(rng.choice([0, 1, 1, 1, 2, 3])):
            labels.append(ig.mutate_fiber(rng, f))
        try:
            b = enc.val(("fiber", f))
        except Exception:
            continue
        if rng.chance(1, 8):
            b = enc.val(("tuple", [("raw", b), ("ref", 0)], 0))
        add("fiber", "+".join(labels) or "wellformed", b)
    # 4b. fibers inside the domain of the Lean acceptance model, mutated so that the equations between the fields stay
    #     consistent; the model line travels with the case (4th tuple element)
    n_mf = 9000 if quick else 120000
    for i in range(n_mf):
        m = ig.gen_model_fiber(rng, ops)
        labels = [ig.mutate_model_fiber(rng, m) for _ in range(rng.choice([1, 1, 1, 2, 2, 3]))]
        try:
            img, mline = ig.render_model_fiber(enc, ops, m)
        except Exception:
            continue
        cases.append(("mfiber", "+".join(labels), "u " + img.hex(), mline))
    # 4b'. function images inside the domain of the Lean model `acceptFunction` (header count, environments_length and the
    #      environment indices of the def and a sub-def are the only varying fields); the model line travels with the case
    n_mfn = 3000 if quick else 40000
    for i in range(n_mfn):
        m = ig.gen_model_function(rng, ops)
        labels = [ig.mutate_model_function(rng, m) for _ in range(rng.choice([0, 1, 1, 1, 2]))]
        img, mline = ig.render_model_function(lb, ops, m)
        cases.append(("mfunc", "+".join(labels) or "wellformed", "u " + img.hex(), mline))
    # 4c. PEG images: valid programs built from the extracted rows, then structure-aware mutation (rule operands redirected
    #     into the middle of other instructions / into literal payloads spelling an instruction, constant indices at the
    #     bounds, missing / extra words, empty program); the model line (pegverify) travels with the case
    if pegrows is not None:
        n_pg = 5000 if quick else 80000
        gad = pegrows.ops["RULE_CONSTANT"]
        for i in range(n_pg):
            try:
                p = ig.gen_peg(rng, pegrows, gad)
                words, offs = ig.layout_peg(p)
                words, nc, lab = ig.mutate_peg_words(rng, p, words, offs)
                img = ig.peg_image(lb, words, [rng.choice([1, 2, ("str", b"c")]) for _ in range(nc)], enc)
            except Exception:
                continue
            cases.append(("peg", lab, "u " + img.hex(), "pegverify %d %s" % (nc, " ".join(str(w) for w in words))))
    # 5. NaN-boxed reals: every interesting payload through LB_REAL, alone and as constants / stack slots
    for hi in range(0, 256, 1 if not quick else 5):
        for tail in (b"\x00" * 6, b"\x01\x00\x00\x00\x00\x00", b"\xff" * 6, b"\x78\x56\x34\x12\x00\x00"):
            for top in (0x7f, 0xff):
                raw = tail + bytes([hi, top])
                add("real", "payload", bytes([lb["LB_REAL"]]) + raw)
                add("real", "in-tuple", enc.val(("tuple", [("real", raw), ("real", raw)], 0)))
    # 6. random bytes, and random tails after a plausible lead
    n_r = 1500 if quick else 100000
    leads = [lb[k] for k in ("LB_FIBER", "LB_FUNCTION", "LB_ARRAY", "LB_TUPLE", "LB_TABLE", "LB_STRUCT", "LB_STRING", "LB_REFERENCE", "LB_ABSTRACT", "LB_REAL",
                             "LB_FUNCENV_REF", "LB_FUNCDEF_REF", "LB_TABLE_PROTO", "LB_STRUCT_PROTO", "LB_BUFFER", "LB_REGISTRY")]
    for i in range(n_r):
        n = rng.range(1, 40)
        b = bytes((rng.below(256) if rng.chance(1, 3) else rng.choice([0, 1, 2, 3, 4, 5, 8, 10, 0x80, 0xc9, 0xcd, 0xcc, 0xd7, 0xda, 0xdb, 0xdc])) for _ in range(n))
        if rng.chance(2, 3):
            b = bytes([rng.choice(leads)]) + b
        add("random", "bytes", b)
    # 7. asm descriptions: well typed, ill typed (one wild operand), junk fields
    n_a = 3000 if quick else 50000
    for i in range(n_a):
        wild = [0, 0, 2, 4][i % 4]
        d = ig.gen_def(rng, ops, wild=wild)
        txt = ig.asm_text(d, rng, junk=(i % 7 == 0))
        cases.append(("asm", "wild%d" % wild, "a " + txt.encode().hex()))
    return cases



# ------------------------------------------------------------------------------------------------ byte-level model
# error tag of the Lean model (Unmarsh/Bytes.lean `Err`) -> the C message it stands for (text before the first format)
ERR_MESSAGES = {
    "eos": "unexpected end of source", "badInt": "expected integer, got byte ", "negInt": "expected integer >= 0, got ",
    "bad64": "invalid 64 bit integer", "unknownByte": "unknown byte ", "stack": "stack overflow", "badRef": "invalid reference ",
    "badEnvRef": "invalid funcenv reference ", "badDefRef": "invalid funcdef reference ", "defBusy": "funcdef reference ",
    "typ": "expected type ", "envLen": "invalid funcenv length", "slots": "funcdef has too many slots",
    "envIdx": "invalid funcdef environment index ", "symmap": "corrupted symbolmap when unmarshalling debug info",
    "verify": "funcdef has invalid bytecode", "fnEnvs": "invalid function - too many environments",
    "fnIncomplete": "invalid function - funcdef is not complete", "fnEnvCount": "invalid function - expected ",
    "fbSetup": "fiber has incorrect stack setup", "frIncomplete": "fiber stackframe has incomplete function",
    "frSize": "fiber stackframe size mismatch", "frPc": "fiber stackframe has invalid pc", "frCall": "fiber stackframe is not suspended at a call",
    "frAlign": "fiber stackframe does not align with previous frame", "frEntrance": "fiber bottom stackframe is not an entrance frame",
    "fbFrames": "fiber has too many stackframes", "fbCycle": "fiber child chain is cyclic", "fbStatus": "invalid fiber status",
    "fbNoFrames": "fiber has no stack frames but is not dead", "fbOperand": "fiber is suspended at an instruction that cannot receive a value",
    "fbLast": "fiber is suspended at the last instruction", "unsafePtr": "unsafe flag not given, will not", "absUnknown": "unknown abstract type",
    "absNoHook": "invalid abstract type - no unmarshal function pointer", "absSafe": "can", "absThreaded": "threaded abstracts not supported", "chanCount": "invalid negative channel count",
    "pegSize": "invalid peg size", "pegBad": "invalid peg bytecode"}


def errclass_prefix(msg):
    """harness/C10/fuzz.c errclass() applied to the constant head of a message"""
    out, words = [], 0
    for ch in msg:
        if ch == " ":
            words += 1
            if words >= 4:
                break
            out.append("_")
        elif ch.isalpha() and ch.isascii() or ch == "-":
            out.append(ch)
    return "".join(out)


def compare_bytes_model(model_line, impl_line):
    """None when the byte-level model and the real unmarshal agree, else a short reason"""
    if impl_line is None:
        return None          # the process died on this input: reported by the crash triage
    m, i = model_line.split(), impl_line.split()
    if not m or not i:
        return "empty"
    if m[0] == "acc":
        return None if i[:3] == m[:3] else "model %s / real %s" % (" ".join(m[:3]), impl_line)
    if m[0] == "rej":
        if i[0] != "rej":
            return "model %s / real %s" % (model_line, impl_line)
        want = errclass_prefix(ERR_MESSAGES.get(m[1], "?" + m[1]))
        got = i[1] if len(i) > 1 else ""
        return None if got.startswith(want) else "model %s (%s) / real %s" % (model_line, want, impl_line)
    return "model %s / real %s" % (model_line, impl_line)


# ------------------------------------------------------------------------------------------------ witnesses
def witness_images(ig, lb, ops):
    """the three image shapes whose rejection the full well-formedness theorems need (DESIGN section 4, items 9-11)"""
    enc = ig.Enc(lb)
    bn = ops.by_name
    w = {}
    # frame = 0, status pending, no frames
    w["fiber_frame0_resumable"] = enc.val(("fiber", dict(flags=ig.ST_PENDING << ig.STATUS_OFFSET, frame=0, stackstart=4, stacktop=4, maxstack=100, frames=[], last=None)))
    # closure with one environment in its def, zero in the function header
    d = dict(flags=0, slotcount=1, arity=0, min_arity=0, max_arity=0, constants=[], environments=[-1],
             bytecode=[bn["JOP_LOAD_UPVALUE"] | 0 << 8 | 0 << 16 | 0 << 24, bn["JOP_RETURN"] | 0 << 8], defs=[])
    w["function_env_count_mismatch"] = enc.val(("fn", dict(**{"def": d}, envs=[], nenv=0)))
    # maker whose sub-def inherits environment index -256
    sub = dict(flags=0, slotcount=1, arity=0, min_arity=0, max_arity=0, constants=[], environments=[-256],
               bytecode=[bn["JOP_LOAD_UPVALUE"] | 0 << 8 | 0 << 16 | 0 << 24, bn["JOP_RETURN"] | 0 << 8], defs=[])
    top = dict(flags=0, slotcount=1, arity=0, min_arity=0, max_arity=0, constants=[], environments=[],
               bytecode=[bn["JOP_CLOSURE"] | 0 << 8 | 0 << 16, bn["JOP_RETURN"] | 0 << 8], defs=[sub])
    w["def_environment_negative"] = enc.val(("fn", dict(**{"def": top}, envs=[])))
    return w


def envvalid_correspondence(ctx, exe, hx, ig, lb, ops, broken, quick):
    """Lean model of janet_env_valid (shape extracted from the current fiber.c) vs the real function: a function image whose
    environment is the untrusted on-stack variant over a fiber with 1..5 frames is unmarshalled by the ASan harness (op `e`),
    janet_env_valid is called on the environment; result, offset and length afterwards must agree"""
    st = {"compared": 0, "differ": 0, "valid": 0, "invalid": 0, "rejected_images": 0}
    if not exe:
        return st, []
    rng = ctx.rng.fork("envvalid")
    cs = [ig.gen_env_valid_case(rng, lb, ops) for _ in range(4000 if quick else 60000)]
    outs, crashes = run_parallel(hx, ["e " + c[0].hex() for c in cs])
    model = ctx.model(["envvalidshape"] + [c[1] for c in cs], exe=exe)
    if model[0] != "true":
        broken.append("env_valid_sound: janet_env_valid of the current fiber.c lacks a test the theorem needs (Gen/EnvValid.shape)")
    diffs = []
    for c, o, m in zip(cs, outs, model[1:]):
        if o is None:
            continue
        if not o.startswith("env "):
            st["rejected_images"] += 1
            continue
        st["compared"] += 1
        got = o.split("->")[1].strip()
        st["valid" if got.startswith("1") else "invalid"] += 1
        if got != m.strip():
            st["differ"] += 1
            if len(diffs) < 5:
                diffs.append({"case": c[2], "input": "e " + c[0].hex(), "impl": o, "model": m})
    for idx, rc, err in crashes[:1]:
        ctx.violation("crash:" + classify(rc, err), {"kind": "crash", "generator": "envvalid", "mutation": cs[idx][2], "input": "e " + cs[idx][0].hex(), "rc": rc, "stderr": err[-3000:]},
                      what="janet_env_valid / unmarshal of an on-stack environment image: %s" % classify(rc, err))
    if diffs:
        broken.append("correspondence janet_env_valid model / implementation: %d differing, first %r" % (st["differ"], diffs[0]))
        ctx.broken.append(broken[-1])
    if st["rejected_images"] > len(cs) // 10:
        broken.append("janet_env_valid correspondence: %d of %d generated images are rejected by the unmarshaller (generator out of date)" % (st["rejected_images"], len(cs)))
        ctx.broken.append(broken[-1])
    # the same images go through the main pool as `u` inputs: the function is called and executes `ldu 0 0 V` on that environment
    return st, [("envfn", c[2], "u " + c[0].hex()) for c in cs[:1500 if quick else 20000]]


def nanbox_patterns(rng, n_random):
    """64-bit payloads: every tag x interesting payloads x sign / quiet bit, exponent / mantissa boundaries, random"""
    ws = set()
    for t in range(16):
        for hi in (0x1FFF0 | t, 0x0FFF0 | t, 0x1FFE0 | t, 0x0FFE0 | t, 0x1FFF0 ^ 8 | t):
            for pay in (0, 1, 2, 0x41414141, (1 << 47) - 1, 1 << 46, 0x7F0000001000):
                ws.add(((hi << 47) | pay) & ((1 << 64) - 1))
    for sign in (0, 1):
        for ex in (0, 1, 1022, 1023, 1024, 2046, 2047):
            for man in (0, 1, 2, (1 << 51) - 1, 1 << 51, (1 << 51) + 1, (1 << 52) - 1, 0x8000041414141, 0x41414141):
                ws.add((sign << 63) | (ex << 52) | man)
    for _ in range(n_random):
        w = rng.below(1 << 32) << 32 | rng.below(1 << 32)
        if rng.chance(1, 2):
            w |= 0x7FF << 52          # half of them NaN / infinity
        if rng.chance(1, 4):
            w |= 0xFFF8 << 48
        ws.add(w)
    return sorted(ws)


def nanbox_correspondence(ctx, exe, lb, broken, quick):
    """model `unmarshalReal` / `janetType` / `checktype` (constants of the current janet.h) vs harness/C10/nanbox.c (the real
    janet_unmarshal of LB_REAL <payload>, janet_type, janet_checktype for every type): bit pattern, type, mask must agree; a
    payload whose unmarshalled value is not a plain number is the failing input"""
    st = {"compared": 0, "differ": 0, "nan_payloads": 0, "reboxed_to_NAN": 0, "kept_bits": 0, "not_a_number": 0, "nan_bits_of_build": None}
    extra = []
    if not exe:
        return st, extra
    try:
        hn = ctx.build.harness(VARIANT, "c10nanbox", [os.path.join(HDIR, "nanbox.c")])
    except BuildError as e:
        broken.append("harness/C10/nanbox.c does not compile against the current tree: %s" % str(e)[-300:])
        ctx.broken.append(broken[-1])
        return st, extra
    ws = nanbox_patterns(ctx.rng.fork("nanbox"), 20000 if quick else 400000)
    rc, out, err = run_cmd([hn], input=("\n".join(str(w) for w in ws) + "\n").encode(), timeout=600, env=ENV)
    real = out.decode().splitlines()
    if rc != 0 or len(real) != len(ws) + 1:
        broken.append("nanbox harness died: rc=%s %s" % (rc, err[-300:]))
        ctx.broken.append(broken[-1])
        return st, extra
    model = ctx.model(["nanbox"] + ["nanbox %d" % w for w in ws], exe=exe)
    hdr = real[0].split()
    st["nan_bits_of_build"] = "%#x" % int(hdr[1])
    if "sizeof=8" not in real[0]:
        broken.append("nanbox: sizeof(Janet) != 8 (%s): the build does not use JANET_NANBOX_64, the model does not apply" % real[0])
        ctx.broken.append(broken[-1])
        return st, extra
    if "nan=%s " % hdr[1] not in model[0] + " ":
        broken.append("nanbox: NAN of the build is %s, the obligation is stated for %s" % (real[0], model[0]))
        ctx.broken.append(broken[-1])
    if "ok=true" not in model[0]:
        broken.append("real_is_number: NB.ok is false for the constants of the current source (%s)" % model[0])
    diffs = []
    lead = lb["LB_REAL"]
    for w, r, m in zip(ws, real[1:], model[1:]):
        st["compared"] += 1
        isnan = (w >> 52) & 0x7FF == 0x7FF and w & ((1 << 52) - 1) != 0
        st["nan_payloads"] += isnan
        rf = r.split()
        if len(rf) == 3:
            if int(rf[0]) == w:
                st["kept_bits"] += 1
            elif int(rf[0]) == int(hdr[1]):
                st["reboxed_to_NAN"] += 1
            if rf[1] != "0" or rf[2] != "1":
                st["not_a_number"] += 1
                if len(extra) < 40:
                    # little-endian image bytes, as harness/C10/nanbox.c builds them on this machine
                    extra.append(("real-forged", "payload %#018x -> type %s mask %s" % (w, rf[1], rf[2]), "u " + (bytes([lead]) + w.to_bytes(8, "little")).hex()))
        if r != m:
            st["differ"] += 1
            if len(diffs) < 5:
                diffs.append({"payload": "%#018x" % w, "impl": r, "model": m})
    if diffs:
        broken.append("correspondence nanbox model / unmarshal of LB_REAL: %d differing, first %r" % (st["differ"], diffs[0]))
        ctx.broken.append(broken[-1])
    if extra:
        e0 = extra[0]
        ctx.violation("real-forges-type", {"kind": "crash", "generator": "nanbox", "mutation": e0[1], "input": e0[2], "count": st["not_a_number"]},
                      what="unmarshal of LB_REAL with a NaN payload yields a value that is not a plain number (%s); %d such payloads" % (e0[1], st["not_a_number"]))
    return st, extra


def function_correspondence(ctx, exe, cases, outs, broken, img_broken):
    """accept / reject of the Lean function-image model vs the real unmarshaller on the modelled function images: `inv` = every
    check present (= the conclusion of function_image_wf_of_all_checks), `src` = the checks extracted from the current source"""
    mf = [(i, c) for i, c in enumerate(cases) if c[0] == "mfunc" and c[3] is not None and outs[i] is not None]
    st = {"compared": 0, "both_accept": 0, "both_reject": 0, "real_accepts_invariant_rejects": 0, "real_rejects_invariant_accepts": 0,
          "src_model_differs": 0, "reject_reasons": {}}
    if not exe or not mf:
        return st
    mo = ctx.model([c[3] for _, c in mf], exe=exe)
    illformed, other = {}, []
    for (i, c), r in zip(mf, mo):
        real = outs[i].startswith("acc")
        inv, src = "inv=acc" in r, "src=acc" in r
        st["compared"] += 1
        if not real:
            k = outs[i][4:44]
            st["reject_reasons"][k] = st["reject_reasons"].get(k, 0) + 1
        if real and inv:
            st["both_accept"] += 1
        elif not real and not inv:
            st["both_reject"] += 1
        elif real and not inv:
            st["real_accepts_invariant_rejects"] += 1
            key = c[1].split("+")[0].split("=")[0].rstrip("0123456789+-")
            if key not in illformed or len(c[2]) < len(illformed[key][1][2]):
                illformed[key] = (i, c, outs[i])
        else:
            st["real_rejects_invariant_accepts"] += 1
            other.append({"mutation": c[1], "input": c[2], "model": c[3], "impl": outs[i]})
        if src != real:
            st["src_model_differs"] += 1
            if len(other) < 5:
                other.append({"mutation": c[1], "input": c[2], "model": c[3], "impl": outs[i], "src_model": r})
    for key in sorted(illformed)[:3]:
        i, c, o = illformed[key]
        ctx.violation("ill-formed-function-accepted:" + key, {"kind": "crash", "generator": "mfunc", "mutation": c[1], "input": c[2], "model_line": c[3], "implementation": o,
                                                              "invariant": "rejects (acceptFunction with every check: header count = environments_length, indices >= -1)"},
                      what="unmarshal accepts a function image that violates the well-formedness invariant (%s); %d such images" % (c[1], st["real_accepts_invariant_rejects"]))
    if st["real_rejects_invariant_accepts"]:
        broken.append("correspondence function model: implementation rejects %d images the model accepts, first %r" % (st["real_rejects_invariant_accepts"], other[0]))
        ctx.broken.append(broken[-1])
    if st["src_model_differs"] and not img_broken:
        broken.append("correspondence: function acceptance predicted from Gen/ImageChecks differs from the implementation on %d images, first %r" % (st["src_model_differs"], other[0] if other else None))
        ctx.broken.append(broken[-1])
    return st


# ------------------------------------------------------------------------------------------------ main
def run(ctx):
    quick = ctx.tier == "quick"
    broken = []
    ig = _imagegen()
    try:
        ctx.build.boot()
    except BuildError as e:
        ctx.violation("build-failed", {"kind": "build", "error": str(e)}, found=False, what="tree does not build")
        return ctx.finish("proof", {"evaluations": 0, "distinct_nontrivial": 0, "rule": "n/a", "samples": []})
    tree = ctx.build.tree
    # (A) regenerate
    ops = lb = image_checks = pegrows = None
    try:
        ctx.gen("Bytecode.lean", gen_bytecode.render(tree))
        opl, types, jint = gen_bytecode.extract(tree)
        try:
            lb, _ = gen_marsh.extract(tree)
        except ExtractError as e:
            # the integer codec changed shape (C09's tie): note it, keep going with the lead-byte enum alone so that the
            # search below still runs and can find the failing input
            broken.append("translator tools/gen/marsh.py: %s" % e)
            ctx.broken.append(broken[-1])
            from tools.gen import csrc as _csrc
            lb = _csrc.enum_values(_csrc.strip_comments(_csrc.read(tree, "src/core/marsh.c")), "LB_REAL")
        ops = ig.Ops(opl, types, gen_vm.asm_mnemonics(tree))
        ctx.gen("VmAccess.lean", gen_vm.render(tree))
        ctx.gen("ImageChecks.lean", gen_vm.render_image_checks(tree))
        image_checks = gen_vm.image_checks(tree)
        ctx.gen("PegAccess.lean", gen_peg.render(tree))
        pops, pv, pu, pglob = gen_peg.extract(tree)
        pegrows = ig.PegRows(pops, pv, pu)
    except ExtractError as e:
        broken.append("translator: %s" % e)
        ctx.broken.append(broken[-1])
    # the session-3 translators are independent of the ones above: a shape change seen by one must not hide the others' tables
    for fname, mod in (("UnmarshSites.lean", gen_unmarsh), ("VmGuards.lean", gen_vmguards), ("NanBox.lean", gen_nanbox), ("EnvValid.lean", gen_envvalid)):
        try:
            ctx.gen(fname, mod.render(tree))
        except ExtractError as e:
            broken.append("translator %s: %s" % (mod.__name__, e))
            ctx.broken.append(broken[-1])
    v = ctx.try_variant(VARIANT)
    if v is None or ops is None:
        if broken:
            ctx.violation("broken:" + broken[0][:80], {"kind": "broken-tie", "broken": broken}, found=False, what="; ".join(broken)[:600])
        return ctx.finish("proof", {"evaluations": 0, "distinct_nontrivial": 0, "rule": "n/a", "samples": []})
    try:
        hx = ctx.build.harness(VARIANT, "c10fuzz", [os.path.join(HDIR, "fuzz.c")])
    except BuildError as e:
        ctx.violation("harness-build", {"kind": "build", "error": str(e)[-2000:]}, found=False, what="harness does not compile against the current tree")
        return ctx.finish("proof", {"evaluations": 0, "distinct_nontrivial": 0, "rule": "n/a", "samples": []})
    hx_state = None
    try:
        # the wrapper TU compiles marsh.c itself: repeat the variant's -fno-sanitize list AFTER the link flags (compile and link
        # are one gcc command, the later -fsanitize=undefined would re-enable the arithmetic checks that are C14's subject)
        hx_state = ctx.build.harness(VARIANT, "c10umstate", [os.path.join(HDIR, "umstate.c")], extra_ld=STATE_LD)
    except BuildError as e:
        broken.append("harness/C10/umstate.c (wrapper TU over marsh.c) does not compile against the current tree: %s" % str(e)[-300:])
        ctx.broken.append(broken[-1])

    # (B,C) kernel check + audit
    broken += ctx.obligations("JanetModel.Props.C10", THEOREMS)
    img_broken = ctx.obligations("JanetModel.Unmarsh.Obligations", IMAGE_OBLIGATIONS)
    broken += img_broken
    peg_broken = ctx.obligations("JanetModel.PegVerify.Obligations", PEG_OBLIGATIONS)
    broken += peg_broken
    bytes_broken = ctx.obligations("JanetModel.Unmarsh.BytesObligations", BYTES_OBLIGATIONS)
    broken += bytes_broken
    guard_broken = ctx.obligations("JanetModel.Bytecode.GuardObligations", GUARD_OBLIGATIONS)
    broken += guard_broken
    nan_broken = ctx.obligations("JanetModel.Unmarsh.NanBoxObligations", NANBOX_OBLIGATIONS)
    broken += nan_broken
    broken += ctx.obligations("JanetModel.Unmarsh.EnvValidObligations", ENVVALID_OBLIGATIONS)
    if not quick and not broken:
        ok, log = ctx.leanchecker("JanetModel.Props.C10")
        if not ok:
            broken.append("leanchecker JanetModel.Props.C10: " + log[-300:])
    exe = ctx.driver()
    bad_rows = []
    if exe:
        r = ctx.model(["rows", "consistent"], exe=exe)
        if r[0].startswith("bad"):
            bad_rows = [int(x) for x in r[0].split()[1:]]
        if r[1] != "true" and not bad_rows:
            broken.append("tables_consistent is false (masks / dispatch table)")
        rg = ctx.model(["vmguards"], exe=exe)[0]
        if rg.startswith("bad"):
            broken.append("vm_value_guards: value-dependent dereference without a dominating run-time test in vm.c: %s" % rg[4:])
    # (D0) NaN-boxing model vs the real unmarshaller on 64-bit payloads after LB_REAL
    nstats, nan_cases = nanbox_correspondence(ctx, exe, lb, broken, quick)
    ctx.say("nanbox model correspondence: %s" % json.dumps(nstats))
    # (D0b) model of janet_env_valid vs the real function on unmarshalled untrusted on-stack environments
    estats, env_cases = envvalid_correspondence(ctx, exe, hx, ig, lb, ops, broken, quick)
    ctx.say("janet_env_valid model correspondence: %s" % json.dumps(estats))
    # (D) correspondence of the verify model with the real janet_verify
    vrng = ctx.rng.fork("verify")
    vlines = []
    for i in range(4000 if quick else 60000):
        sc = vrng.range(1, 6)
        nc, nd, ne = vrng.below(4), vrng.below(3), vrng.below(3)
        bc, _ = ig.gen_bytecode(vrng, ops, sc, nc, nd, ne, wild=(i % 3) * 3)
        if vrng.chance(1, 10):
            bc[vrng.below(len(bc))] = vrng.below(1 << 32)
        if vrng.chance(1, 20):
            bc[-1] = vrng.below(1 << 32)
        ar = vrng.choice([0, 0, 1, sc, sc + 1])
        va = vrng.below(2)
        vlines.append("%d %d %d %d %d %d %s" % (sc, ar, va, nc, nd, ne, b"".join(w.to_bytes(4, "little") for w in bc).hex()))
    vdiffs = []
    if exe:
        rc, out, err = run_cmd([hx], input=("\n".join("v " + l for l in vlines) + "\n").encode(), timeout=600, env=ENV)
        impl = out.decode().splitlines()
        model = ctx.model(["verify " + l for l in vlines], exe=exe)
        if rc != 0 or len(impl) != len(vlines):
            broken.append("janet_verify harness died: rc=%s %s" % (rc, err[-300:]))
        else:
            for l, a, b in zip(vlines, impl, model):
                if a != b:
                    vdiffs.append({"def": l, "impl": a, "model": b})
            if vdiffs:
                broken.append("correspondence verify model / janet_verify: %d differing, first %r" % (len(vdiffs), vdiffs[0]))
                ctx.broken.append(broken[-1])
    vcodes = {}
    for a in (impl if exe and not broken else []):
        vcodes[a] = vcodes.get(a, 0) + 1
    # witness synthesis for failed table rows: a 1-slot function using that opcode with every operand field maximal
    synth = []
    for opn in bad_rows:
        name = ops.name_of.get(opn, "op%d" % opn)
        ctx.say("table row of %s is not covered by the verifier: synthesising a witness" % name)
        for fields in (0xFFFFFF, 0xFFFF00, 0xFF0000, 0xFF00FF, 0x00FFFF, 0x0000FF, 0x00FF00):
            w = opn | (fields << 8)
            for tail in ([ops.by_name["JOP_RETURN_NIL"]], [ops.by_name["JOP_RETURN"]]):
                d = dict(flags=0, slotcount=1, arity=0, min_arity=0, max_arity=0, constants=[], environments=[], defs=[], bytecode=[w] + tail)
                synth.append(("row-witness", name, "u " + ig.Enc(lb).val(("fn", dict(**{"def": d}, envs=[]))).hex()))
        broken.append("verify_sound: table row %s (opcode %d) is not consistent" % (name, opn))

    # PEG verifier rows: name the RULE_* whose verifier row does not cover peg_rule, synthesise images for it
    peg_bad = []
    if exe and pegrows is not None:
        r = ctx.model(["pegrows"], exe=exe)[0]
        mm = re.search(r"bad=(.*)$", r)
        peg_bad = [int(x) for x in (mm.group(1).split() if mm else [])]
        gad = pegrows.ops["RULE_CONSTANT"]
        for opn in peg_bad:
            name = pegrows.name_of.get(opn, "op%d" % opn)
            ctx.say("PEG verifier row of %s does not cover what peg_rule dereferences: synthesising witnesses" % name)
            broken.append("peg_verify_sound: verifier row %s (opcode %d) is not consistent with peg_rule" % (name, opn))
            for words, nc, lab in ig.peg_row_witness(pegrows, opn, gad):
                synth.append(("peg-row-witness", "%s %s" % (name, lab), "u " + ig.peg_image(lb, words, [1] * nc, ig.Enc(lb)).hex(), "pegverify %d %s" % (nc, " ".join(str(w) for w in words))))
        if "nonEmpty=false" in r:
            broken.append("peg_verify_sound: peg_unmarshal accepts zero-length bytecode (entry point bytecode[0] does not exist)")
            synth.append(("peg-row-witness", "empty-bytecode", "u " + ig.peg_image(lb, [], [], ig.Enc(lb)).hex(), "pegverify 0"))
        for flag in ("exactEnd=false", "marksChecked=false"):
            if flag in r:
                broken.append("peg_verify_sound: global check missing in peg_unmarshal (%s)" % flag)

    # (E) direct oracle
    base = load_base(ctx, v)
    # the base corpus must contain an image of every abstract type that has an unmarshal hook in the current source
    try:
        abs_types = gen_vm.abstract_types_with_unmarshal(tree)
        have = set(lab.split(":")[1] for lab, _ in base if lab.startswith("abs:"))
        missing = [n for n, fn, unsafe in abs_types if n not in have]
        if missing:
            broken.append("base corpus has no image of abstract type(s) %s (harness/C10/baseimages.janet)" % missing)
            ctx.broken.append(broken[-1])
    except ExtractError as e:
        abs_types = []
        broken.append("translator (abstract types): %s" % e)
    cases = gen_inputs(ctx, ig, base, ops, lb, quick, pegrows)
    wit = sorted(witness_images(ig, lb, ops).items())
    for name, b in wit:
        cases.insert(0, ("witness", name, "u " + b.hex()))
    cases = [c if len(c) == 4 else tuple(c) + (None,) for c in synth + nan_cases + env_cases + cases]
    # (D4, first half) inputs for the byte-level model correspondence: the same byte strings once more as `m` lines (plain
    # janet_unmarshal with &next, no exercising), run in the same pool; the Lean driver works on them meanwhile
    bpick = []
    model_thread = None
    model_out = {}
    if exe:
        brng = ctx.rng.fork("bytes-model")
        keep = {"subst": 6, "fiber": 2, "mfiber": 3, "mfunc": 3, "peg": 2, "real": 4} if quick else {"subst": 2}
        for i, c in enumerate(cases):
            if not c[2].startswith("u "):
                continue
            k = keep.get(c[0], 1)
            if k > 1 and not brng.chance(1, k):
                continue
            bpick.append(i)
        nbase = len(cases)
        for i in bpick:
            cases.append(("bytes-m", cases[i][1], "m " + cases[i][2][2:], None))
        import threading

        def _run_model():
            model_out["um"] = ctx.model(["umdepths", "umsites"] + [("ums " + cases[i][2][2:]).strip() for i in bpick], exe=exe)
        model_thread = threading.Thread(target=_run_model)
        model_thread.start()
    lines = [c[2] for c in cases]
    ctx.say("running %d inputs through the ASan harness" % len(lines))
    outs, crashes = run_parallel(hx, lines)
    if model_thread is not None:
        model_thread.join()
    stats = {}
    for (kind, label, line, _m), o in zip(cases, outs):
        s = stats.setdefault(kind, {"n": 0, "acc": 0, "rej": 0, "died": 0})
        s["n"] += 1
        if o is None:
            s["died"] += 1
        elif o.startswith("acc"):
            s["acc"] += 1
        else:
            s["rej"] += 1
    # the model's prediction for the three witness images: accepted exactly when the corresponding check is absent
    if image_checks is not None:
        for (kind, label, line, _m), o in zip(cases, outs):
            if kind == "witness" and o is not None:
                predicted_accept = not image_checks[WITNESS_CHECK[label]]
                if o.startswith("acc") != predicted_accept:
                    broken.append("correspondence: witness %s is %s by the implementation, model (Gen/ImageChecks.%s=%s) predicts the opposite" % (
                        label, "accepted" if o.startswith("acc") else "rejected", WITNESS_CHECK[label], image_checks[WITNESS_CHECK[label]]))
    # deep nesting: per recursive edge the largest accepted / smallest rejected depth seen (the byte-level model must agree: D4)
    deep_stats = {}
    for (kind, label, line, _m), o in zip(cases, outs):
        if kind == "deep" and o is not None:
            en, n = label.rsplit("*", 1)
            d = deep_stats.setdefault(en, {"max_accepted": 0, "min_rejected": None, "n": 0, "max_depth": 0})
            d["n"] += 1
            d["max_depth"] = max(d["max_depth"], int(n))
            if o.startswith("acc"):
                d["max_accepted"] = max(d["max_accepted"], int(n))
            elif d["min_rejected"] is None or int(n) < d["min_rejected"]:
                d["min_rejected"] = int(n)
    rej_classes = {}
    for o in outs:
        if o and o.startswith("rej"):
            rej_classes[o[4:]] = rej_classes.get(o[4:], 0) + 1
    ctx.say("accepted/rejected per generator: %s" % json.dumps(stats, sort_keys=True))
    # (D2) accept / reject correspondence of the fiber-image model on the modelled fibers.  `inv` = acceptance with every
    # check present = the well-formedness invariant (fiber_image_wf_of_all_checks); `src` = with the checks extracted from
    # the current source.  real accepts & inv rejects: an ill-formed fiber was let in -> that image is the failing input.
    mf = [(i, c) for i, c in enumerate(cases) if c[0] == "mfiber" and c[3] is not None and outs[i] is not None]
    mstats = {"compared": 0, "both_accept": 0, "both_reject": 0, "real_accepts_invariant_rejects": 0, "real_rejects_invariant_accepts": 0, "src_model_differs": 0}
    if exe and mf:
        mo = ctx.model([c[3] for _, c in mf], exe=exe)
        illformed = {}
        other = []
        for (i, c), r in zip(mf, mo):
            real = outs[i].startswith("acc")
            inv = "inv=acc" in r
            src = "src=acc" in r
            mstats["compared"] += 1
            if real and inv:
                mstats["both_accept"] += 1
            elif not real and not inv:
                mstats["both_reject"] += 1
            elif real and not inv:
                mstats["real_accepts_invariant_rejects"] += 1
                key = c[1].split("+")[0].rstrip("0123456789+-")
                if key not in illformed or len(c[2]) < len(illformed[key][1][2]):
                    illformed[key] = (i, c, outs[i])
            else:
                mstats["real_rejects_invariant_accepts"] += 1
                other.append({"mutation": c[1], "input": c[2], "model": c[3], "impl": outs[i]})
            if src != real:
                mstats["src_model_differs"] += 1
                if len(other) < 5:
                    other.append({"mutation": c[1], "input": c[2], "model": c[3], "impl": outs[i], "src_model": r})
        for key in sorted(illformed)[:4]:
            i, c, o = illformed[key]
            ctx.violation("ill-formed-fiber-accepted:" + key, {"kind": "crash", "generator": "mfiber", "mutation": c[1], "input": c[2], "model_line": c[3],
                                                               "implementation": o, "invariant": "rejects (acceptFiber with every check = FiberWf)"},
                          what="unmarshal accepts a fiber image that violates the well-formedness invariant (%s); %d such images" % (c[1], mstats["real_accepts_invariant_rejects"]))
        if mstats["real_rejects_invariant_accepts"]:
            broken.append("correspondence fiber model: implementation rejects %d images the model accepts, first %r" % (mstats["real_rejects_invariant_accepts"], other[0]))
            ctx.broken.append(broken[-1])
        if mstats["src_model_differs"] and not img_broken:
            broken.append("correspondence: acceptance predicted from Gen/ImageChecks differs from the implementation on %d images" % mstats["src_model_differs"])
            ctx.broken.append(broken[-1])
    ctx.say("fiber model correspondence: %s" % json.dumps(mstats))
    # (D2b) the same for the function-image model `acceptFunction` on the modelled function images
    fstats = function_correspondence(ctx, exe, cases, outs, broken, img_broken)
    ctx.say("function model correspondence: %s" % json.dumps(fstats))
    # (D3) PEG verifier model (with the rows extracted from the current peg.c) vs the real peg_unmarshal
    pg = [(i, c) for i, c in enumerate(cases) if c[0] in ("peg", "peg-row-witness") and c[3] is not None and outs[i] is not None]
    pstats = {"compared": 0, "both_accept": 0, "both_reject": 0, "differ": 0}
    if exe and pg:
        mo = ctx.model([c[3] for _, c in pg], exe=exe)
        pdiff = []
        for (i, c), r in zip(pg, mo):
            real = outs[i].startswith("acc")
            pstats["compared"] += 1
            if real == (r == "acc"):
                pstats["both_accept" if real else "both_reject"] += 1
            else:
                pstats["differ"] += 1
                pdiff.append({"mutation": c[1], "input": c[2], "model_line": c[3], "impl": outs[i], "model": r})
        if pdiff:
            broken.append("correspondence PEG verifier model / peg_unmarshal: %d differing, first %r" % (len(pdiff), pdiff[0]))
            ctx.broken.append(broken[-1])
    ctx.say("peg model correspondence: %s" % json.dumps(pstats))
    # (D4) byte-level model of the unmarshaller (Unmarsh/Bytes.lean, sites extracted from the current marsh.c) vs the real
    # janet_unmarshal(bytes, len, 0, NULL, &next): accept / reject, error class, bytes consumed, type of the value - on the
    # valid images, every truncation, substitutions, random bytes and the generated function / fiber / PEG images
    bstats = {"compared": 0, "acc": 0, "rej": 0, "differ": 0, "model_oob": 0, "model_fuel": 0, "by_generator": {}, "model_reject_classes": {}}
    bad_sites = []
    bad_depths = []
    if exe and "um" in model_out:
        rd = model_out["um"].pop(0)
        bad_depths = rd[4:].split(";") if rd.startswith("bad") else []
        for bp in bad_depths:
            broken.append("unmarshal_terminates: the call path %s of marsh.c adds nothing to the recursion depth counter (flags passed on without + 1 "
                          "between two MARSH_STACKCHECKs): nesting through it is not bounded by JANET_RECURSION_GUARD" % bp.replace("_", " "))
        r = model_out["um"][0]
        bad_sites = r.split()[1:] if r.startswith("bad") else []
        for bs in bad_sites:
            broken.append("unmarshal_total_inbounds: the MARSH_EOS test of read site %s of marsh.c is missing or does not cover the reads made under it" % bs)
        pick = bpick
        mo = model_out["um"][1:]
        mouts = outs[nbase:nbase + len(bpick)]
        bdiff, oob_inputs = [], []
        for i, ml, io in zip(pick, mo, mouts):
            g = bstats["by_generator"].setdefault(cases[i][0], 0)
            bstats["by_generator"][cases[i][0]] = g + 1
            if ml.startswith("oob"):
                bstats["model_oob"] += 1
                oob_inputs.append((len(cases[i][2]), i, ml))
                continue
            if ml.startswith("fuel"):
                bstats["model_fuel"] += 1
                bdiff.append({"input": cases[i][2], "model": ml, "impl": io})
                continue
            if io is None:
                continue
            bstats["compared"] += 1
            if ml.startswith("acc"):
                bstats["acc"] += 1
            else:
                bstats["rej"] += 1
                k = ml.split()[1] if len(ml.split()) > 1 else "?"
                bstats["model_reject_classes"][k] = bstats["model_reject_classes"].get(k, 0) + 1
            why = compare_bytes_model(ml, io)
            if why:
                bstats["differ"] += 1
                if len(bdiff) < 8:
                    bdiff.append({"generator": cases[i][0], "mutation": cases[i][1], "input": cases[i][2], "why": why})
        # internal state: for every input the model accepts, the wrapper-TU harness (harness/C10/umstate.c, marsh.c included)
        # runs the real unmarshal_one with its own UnmarshalState and prints the types of st.lookup[], the counts of
        # lookup_envs / lookup_defs and the done flags; the model's `ums` line must be identical
        sidx = [(i, ml) for i, ml in zip(pick, mo) if ml.startswith("acc")]
        bstats["state_compared"] = 0
        bstats["state_differ"] = 0
        if hx_state and sidx:
            souts, _sc = run_parallel(hx_state, ["s " + cases[i][2][2:] for i, _ in sidx])
            for (i, ml), so in zip(sidx, souts):
                if so is None:
                    continue
                bstats["state_compared"] += 1
                if so.strip() != ml.strip():
                    bstats["state_differ"] += 1
                    if len(bdiff) < 8:
                        bdiff.append({"generator": cases[i][0], "mutation": cases[i][1], "input": cases[i][2], "why": "internal state: model %s / real %s" % (ml, so)})
        if bdiff:
            broken.append("correspondence byte-level unmarshal model / janet_unmarshal: %d differing, first %r" % (bstats["differ"] + bstats["model_fuel"] + bstats["state_differ"], bdiff[0]))
            ctx.broken.append(broken[-1])
        # the model answers `oob` exactly on the inputs that a missing / short test lets the C over-read: replay the shortest
        # ones alone under ASan - that is the synthesised failing input for a broken `sites_ok`
        oob_inputs.sort()
        seen_sites = set()
        for _, i, ml in oob_inputs:
            if ml in seen_sites or len(seen_sites) >= 6:
                continue
            seen_sites.add(ml)
            alone = confirm_alone(hx, cases[i][2])
            if alone is not None:
                sig = classify(alone[1], alone[2])
                ctx.violation("read-site:" + sig, {"kind": "crash", "generator": "model-oob", "mutation": "%s -> model %s" % (cases[i][1], ml), "input": cases[i][2],
                                                   "bad_sites": bad_sites, "rc": alone[1], "stderr": alone[2][-3000:]},
                              what="input synthesised by the byte-level model (it answers `%s`): %s; read sites failing Sites.ok: %s" % (ml, sig, bad_sites))
            else:
                broken.append("byte-level model answers %s on %s but the implementation does not over-read it" % (ml, cases[i][2][:80]))
        if oob_inputs and not bad_sites:
            broken.append("byte-level model answered oob on %d inputs although every site passes Sites.ok" % len(oob_inputs))
    ctx.say("byte-level model correspondence: %s" % json.dumps({k: v for k, v in bstats.items() if k != "model_reject_classes"}))
    resource_exits = {}
    reported = set()
    # triage crashes: group by signature, keep the shortest input per signature, confirm alone
    by_sig = {}
    for idx, rc, err in crashes:
        sig = classify(rc, err)
        cur = by_sig.get(sig)
        if cur is None or len(lines[idx]) < len(lines[cur[0]]):
            by_sig[sig] = (idx, rc, err, (cur[3] if cur else 0) + 1)
        else:
            by_sig[sig] = (cur[0], cur[1], cur[2], cur[3] + 1)
    for sig in sorted(by_sig):
        idx, rc, err, count = by_sig[sig]
        kind, label, line, _m = cases[idx]
        if is_known_unbounded_alloc(sig, tree):
            resource_exits[sig] = count
            continue
        alone = confirm_alone(hx, line)
        # attribution can be off by one when a dying process loses its last partial line: a neighbour that crashes on its own
        # with the batch's sanitizer kind is the better witness
        kind0 = sig.split(":")[0]
        if alone is None or classify(alone[1], alone[2]).split(":")[0] != kind0:
            for j in (idx - 1, idx + 1):
                if 0 <= j < len(lines):
                    a2 = confirm_alone(hx, lines[j])
                    if a2 is not None and classify(a2[1], a2[2]).split(":")[0] == kind0:
                        alone, idx = a2, j
                        kind, label, line, _m = cases[j]
                        break
        if alone is not None:
            sig2 = classify(alone[1], alone[2])
            if sig2 in reported:
                continue
            reported.add(sig2)
            rep = {"kind": "crash", "generator": kind, "mutation": label, "input": line, "how": "echo '%s' | <asan harness harness/C10/fuzz.c>" % line[:60],
                   "rc": alone[1], "stderr": alone[2][-3000:], "inputs_with_this_signature": count}
            if line.startswith("a "):
                rep["asm_text"] = bytes.fromhex(line[2:]).decode(errors="replace")
            ctx.violation("crash:" + sig2, rep, what="%s on %s input (%s), %d inputs" % (sig2, kind, label, count))
        else:
            # not reproducible alone: depends on earlier inputs of the batch (deferred collection); replay = window
            lo = max(0, idx - 40)
            win = lines[lo:idx + 1]
            o2, c2 = run_batch(hx, win, gc_every=1, timeout=300)
            if c2:
                j = c2[0][0]
                ctx.violation("crash:" + classify(c2[0][1], c2[0][2]), {"kind": "crash", "generator": cases[lo + j][0], "mutation": cases[lo + j][1], "input": win[j], "context": win[:j],
                                                                       "rc": c2[0][1], "stderr": c2[0][2][-3000:]}, what="%s (needs preceding inputs)" % classify(c2[0][1], c2[0][2]))
            else:
                ctx.violation("crash-unstable:" + sig, {"kind": "crash", "input": line, "context": win, "rc": rc, "stderr": err[-3000:]},
                              what="%s seen once in a batch, not reproduced in isolation" % sig)
    if broken and not ctx.nviol:
        ctx.violation("broken:" + broken[0][:80], {"kind": "broken-obligation", "broken": broken}, found=False, what="no longer shown to hold: " + "; ".join(broken)[:600])
    try:
        depth_incs = gen_unmarsh.extract_incs(tree)      # `flags + k` per recursive call site, as regenerated into Gen/UnmarshSites.incs
    except ExtractError as e:
        depth_incs = {"error": str(e)}
    acc_total = sum(s["acc"] for s in stats.values())
    cov = {
        "evaluations": len(lines) + len(vlines),
        "distinct_nontrivial": len(set(lines)),
        "rule": "non-trivial = distinct input line (image bytes or asm text); every input is decoded by the real unmarshal/asm under ASan+UBSan, every accepted "
                "function/fiber is then called with 6 argument vectors / resumed, cancelled, stepped, iterated, printed, hashed, compared, re-marshalled and collected",
        "samples": [c[2][:80] for c in cases[:3]] + [c[2][:80] for c in cases[len(cases) // 2:len(cases) // 2 + 2]],
        "generators": stats, "accepted": acc_total, "reject_classes": dict(sorted(rej_classes.items(), key=lambda kv: -kv[1])[:25]),
        "crash_signatures": {k: v[3] for k, v in by_sig.items()}, "fiber_model_correspondence": mstats, "function_model_correspondence": fstats, "nanbox_model_correspondence": nstats, "env_valid_model_correspondence": estats, "peg_model_correspondence": pstats, "bytes_model_correspondence": bstats, "bad_read_sites": bad_sites, "uncounted_recursion_paths": bad_depths, "depth_increments": depth_incs,
        "deep_nesting": deep_stats,
        "peg_bad_rows": [pegrows.name_of.get(o, o) for o in peg_bad] if pegrows is not None else None,
        "resource_exits_not_counted": resource_exits, "peg_budget_restarts": PEG_RESTARTS[0],
        "abstract_types_with_unmarshal": [a[0] for a in abs_types],
        "verify_correspondence_cases": len(vlines), "verify_correspondence_diffs": len(vdiffs), "verify_return_codes": vcodes,
        "image_checks_present": image_checks, "bad_table_rows": [ops.name_of.get(o, o) for o in bad_rows],
    }
    return ctx.finish("proof", cov, assumptions=[
        "memory safety of the C code itself is ASan/UBSan-tested, not proved; the theorems are about the Lean models of janet_verify / image validation",
        "unmarshal_total_inbounds / unmarshal_terminates are theorems about the byte-level Lean model of marsh.c's readers (every MARSH_EOS offset regenerated per read site, "
        "accept/reject + bytes consumed + type compared with the real janet_unmarshal on the sampled inputs of the run); writes into created objects are modelled for the PEG layout only; unsafe mode is outside the model",
        "asm_ok_only_after_verify and vm_value_guards are shape facts over regenerated tables (textual dominance of the test), not semantic models of janet_asm1 / run_vm",
        "tools/gen/vmaccess.py transcribes handler operand uses and the presence of each validation by anchored regexes (ExtractError when the shape changes)",
        "PEG: the theorem is about the model of the verifier loop in peg_unmarshal and the extracted operand uses of peg_rule; peg_rule's matching semantics is not modelled (C12)"])


def replay(ctx, path):
    r = json.load(open(path))
    print(json.dumps({k: r[k] for k in r if k != "stderr"}, indent=1)[:3000])
    if r.get("kind") == "crash" and r.get("input"):
        hx = ctx.build.harness(VARIANT, "c10fuzz", [os.path.join(HDIR, "fuzz.c")])
        lines = list(r.get("context", [])) + [r["input"]]
        outs, crashes = run_batch(hx, lines, gc_every=1, timeout=300)
        if crashes:
            sig = classify(crashes[-1][1], crashes[-1][2])
            print(crashes[-1][2][-2500:])
            ctx.violation("crash:" + sig, dict(r, stderr=crashes[-1][2][-3000:]), what="replayed: " + sig)
        elif r.get("generator") == "nanbox":
            hn = ctx.build.harness(VARIANT, "c10nanbox", [os.path.join(HDIR, "nanbox.c")])
            w = int.from_bytes(bytes.fromhex(r["input"][2:])[1:9], "little")
            rc, out, err = run_cmd([hn], input=("%d\n" % w).encode(), timeout=60, env=ENV)
            ans = out.decode().splitlines()[-1].split()
            if len(ans) == 3 and (ans[1] != "0" or ans[2] != "1"):
                ctx.violation("real-forges-type", r, what="replayed: payload %#x still unmarshals to type %s mask %s" % (w, ans[1], ans[2]))
            else:
                ctx.say("replay: payload now unmarshals to a plain number: %s" % ans)
        elif r.get("generator") in ("mfiber", "mfunc") and outs[-1] and outs[-1].startswith("acc"):
            ctx.violation(r.get("signature", "ill-formed-image-accepted"), r, what="replayed: ill-formed %s image is still accepted" % ("fiber" if r.get("generator") == "mfiber" else "function"))
        else:
            ctx.say("replay: input no longer crashes: %s" % outs[-1])
        return ctx.finish("proof", {"evaluations": len(lines), "distinct_nontrivial": len(lines), "rule": "replay", "samples": lines[-1:]})
    return run(ctx)
